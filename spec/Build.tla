------------------------------- MODULE Build -------------------------------
(***************************************************************************)
(* Ring construction (Config::build, src/io_uring/config.rs 223-294,       *)
(* Shared::new mod.rs 92-140, Completions::new cq.rs 29-56) as a step      *)
(* machine with every point at which the kernel can refuse.                *)
(*                                                                         *)
(* A state is one construction attempt: the configuration, what the kernel *)
(* will answer, the step reached and the resources currently held.  TLC    *)
(* enumerates every configuration x every failure point (Init is           *)
(* nondeterministic) and checks that every attempt ends either Built with  *)
(* everything held and the granted sizes, or Failed with nothing held.     *)
(* Every terminal state is exported as one test case for the harness.      *)
(***************************************************************************)
EXTENDS Naturals, FiniteSets, Sequences, TLC

\* Setup flags (linux/io_uring.h).
F_SQPOLL == 2   F_SQ_AFF == 4   F_CQSIZE == 8   F_CLAMP == 16   F_ATTACH_WQ == 32
F_R_DISABLED == 64   F_SUBMIT_ALL == 128   F_COOP_TASKRUN == 256
F_SINGLE_ISSUER == 4096   F_DEFER_TASKRUN == 8192   F_NO_SQARRAY == 65536

\* Feature bits a10 requires.
FEAT_NODROP == 2   FEAT_SUBMIT_STABLE == 4   FEAT_RW_CUR_POS == 8   FEAT_SQPOLL_NONFIXED == 128
Required == {FEAT_NODROP, FEAT_SUBMIT_STABLE, FEAT_RW_CUR_POS, FEAT_SQPOLL_NONFIXED}

SqSizes == {1, 2, 3, 32, 0}          \* 0 stands for with_maximum_queue_size() (u32::MAX + clamp)
CqSizes == {0, 2, 64}                \* 0 = not set
Bool == {TRUE, FALSE}

Configs == [sq : SqSizes, cq : CqSizes, disabled : Bool, single : Bool, defer : Bool, kthread : Bool,
            aff : Bool, idle : Bool, direct : Bool, attach : Bool]

\* Points at which the kernel refuses.
Faults == {"none", "setup", "feat2", "feat4", "feat8", "feat128", "mmap0", "mmap1", "mmap2", "register"}

VARIABLES cfg, fault, pc, held, granted, unmapped, closed

vars == <<cfg, fault, pc, held, granted, unmapped, closed>>

\* ---- what a10 passes to io_uring_setup (the documented mapping) -----------
Flags(c) ==
      F_SUBMIT_ALL + F_NO_SQARRAY
    + (IF c.kthread THEN F_SQPOLL ELSE F_COOP_TASKRUN)
    + (IF c.disabled THEN F_R_DISABLED ELSE 0)
    + (IF c.single THEN F_SINGLE_ISSUER ELSE 0)
    + (IF c.defer THEN F_DEFER_TASKRUN ELSE 0)
    + (IF c.cq # 0 THEN F_CQSIZE ELSE 0)
    + (IF c.sq = 0 THEN F_CLAMP ELSE 0)
    + (IF c.aff THEN F_SQ_AFF ELSE 0)
    + (IF c.attach THEN F_ATTACH_WQ ELSE 0)

\* ---- the kernel's side of setup -------------------------------------------
RECURSIVE Pow2Up(_, _)
Pow2Up(n, p) == IF p >= n THEN p ELSE Pow2Up(n, 2 * p)

GrantedSq(c) == IF c.sq = 0 THEN 32768 ELSE Pow2Up(c.sq, 1)
GrantedCq(c) == IF c.cq = 0 THEN 2 * GrantedSq(c) ELSE Pow2Up(c.cq, 1)

\* Parameter combinations the kernel rejects with EINVAL.
KernelAccepts(c) ==
    /\ (c.defer => c.single)              \* DEFER_TASKRUN needs SINGLE_ISSUER
    /\ ~(c.defer /\ c.kthread)            \* ... and is incompatible with SQPOLL
    /\ (c.aff => c.kthread)               \* SQ_AFF needs SQPOLL
    /\ (c.cq # 0 => GrantedCq(c) >= GrantedSq(c))

Init ==
    /\ cfg \in Configs
    /\ fault \in Faults
    /\ (fault = "register" => cfg.direct)  \* registration only happens with direct descriptors
    /\ pc = "setup"
    /\ held = {}
    /\ granted = <<0, 0>>
    /\ unmapped = <<>>
    /\ closed = 0

SetToSeqMaps(S) == SelectSeq(<<"sq", "sqes", "cq">>, LAMBDA m : m \in S)

\* Release everything held, mappings first, the ring descriptor last.
Release ==
    /\ unmapped' = unmapped \o SetToSeqMaps(held \ {"rfd", "files"})
    /\ closed' = closed + (IF "rfd" \in held THEN 1 ELSE 0)
    /\ held' = {}

Fail ==
    /\ pc' = "Failed"
    /\ Release
    /\ UNCHANGED <<cfg, fault, granted>>

Step ==
    \/ /\ pc = "setup"
       /\ IF fault = "setup" \/ ~KernelAccepts(cfg)
          THEN /\ pc' = "Failed" /\ UNCHANGED <<held, granted, unmapped, closed, cfg, fault>>
          ELSE /\ held' = {"rfd"}
               /\ granted' = <<GrantedSq(cfg), GrantedCq(cfg)>>
               /\ pc' = "features"
               /\ UNCHANGED <<unmapped, closed, cfg, fault>>
    \/ /\ pc = "features"
       /\ IF fault \in {"feat2", "feat4", "feat8", "feat128"} THEN Fail
          ELSE pc' = "map_sq" /\ UNCHANGED <<held, granted, unmapped, closed, cfg, fault>>
    \/ /\ pc = "map_sq"
       /\ IF fault = "mmap0" THEN Fail
          ELSE pc' = "map_sqes" /\ held' = held \cup {"sq"} /\ UNCHANGED <<granted, unmapped, closed, cfg, fault>>
    \/ /\ pc = "map_sqes"
       /\ IF fault = "mmap1" THEN Fail
          ELSE pc' = "map_cq" /\ held' = held \cup {"sqes"} /\ UNCHANGED <<granted, unmapped, closed, cfg, fault>>
    \/ /\ pc = "map_cq"
       /\ IF fault = "mmap2" THEN Fail
          ELSE /\ pc' = IF cfg.direct THEN "register" ELSE "Built"
               /\ held' = held \cup {"cq"} /\ UNCHANGED <<granted, unmapped, closed, cfg, fault>>
    \/ /\ pc = "register"
       /\ IF fault = "register" THEN Fail
          ELSE pc' = "Built" /\ held' = held \cup {"files"} /\ UNCHANGED <<granted, unmapped, closed, cfg, fault>>

Terminal == pc \in {"Built", "Failed"}

Next == (~Terminal /\ Step) \/ (Terminal /\ UNCHANGED vars)

Spec == Init /\ [][Next]_vars

\* ---- properties -------------------------------------------------------------
\* C18: all or nothing.
AllOrNothing ==
    /\ (pc = "Built" => held = {"rfd", "sq", "sqes", "cq"} \cup (IF cfg.direct THEN {"files"} ELSE {}))
    /\ (pc = "Failed" => held = {})

\* C18: on failure every mapping acquired was released exactly once and the
\* descriptor was closed exactly once (if it ever existed).
ReleasedOnce ==
    pc = "Failed" =>
        /\ \A i, j \in 1..Len(unmapped) : i # j => unmapped[i] # unmapped[j]
        /\ closed <= 1

\* C18: the outcome depends only on what the kernel answers.
OutcomeByKernel ==
    Terminal => (pc = "Built" <=> (fault = "none" /\ KernelAccepts(cfg)))

\* C18: the queues have the sizes the kernel granted.
GrantedSizes == pc = "Built" => granted = <<GrantedSq(cfg), GrantedCq(cfg)>>

=============================================================================

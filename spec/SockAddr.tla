------------------------------- MODULE SockAddr -------------------------------
(***************************************************************************)
(* Socket addresses and their kernel representation (src/net.rs 1583-1853): *)
(* ToKernel(a) is the byte string and length the address family defines,   *)
(* Store/Report is what the kernel keeps and hands back (getsockname,      *)
(* accept, recvmsg), FromKernel reads it back.  Round trip:                *)
(*        FromKernel(Report(Store(ToKernel(a)))) = a                       *)
(*                                                                         *)
(* Bytes are naturals 0..255; multi-byte fields are written out byte by    *)
(* byte (x86-64 / little endian host, network order where the family says  *)
(* so).  P is the capacity of sun_path (108 on Linux).                     *)
(***************************************************************************)
EXTENDS Naturals, Sequences, FiniteSets, TLC

CONSTANTS P,            \* capacity of sockaddr_un.sun_path
          PathLens,     \* lengths of path names / abstract names explored
          Octets,       \* octet values explored for IP addresses
          Ports, Words, \* port numbers; 32-bit values for flow label / scope id
          Dev           \* enabled deviations (known findings)

Deviations == {"UnixFullLength"}

AF_UNIX == 1   AF_INET == 2   AF_INET6 == 10

VARIABLES addr   \* the address under test (a record with a `fam` field)
vars == <<addr>>

LE16(x) == <<x % 256, x \div 256>>
BE16(x) == <<x \div 256, x % 256>>
LE32(x) == <<x % 256, (x \div 256) % 256, (x \div 65536) % 256, x \div 16777216>>
Zeros(n) == [i \in 1..n |-> 0]
Rep(b, n) == [i \in 1..n |-> b]

\* ---- the addresses explored ---------------------------------------------------
V4s == [fam : {"v4", "either4"}, ip : [1..4 -> Octets], port : Ports]
\* IPv6: first and last octet vary, the rest is zero.
V6s == [fam : {"v6", "either6"}, first : Octets, last : Octets, port : Ports, flow : Words, scope : Words]
\* Names: `len` bytes, letter "a" (97), optionally with a NUL in the middle (abstract names only).
UnixPaths == [fam : {"unix_path"}, len : PathLens \ {0}, nul : {FALSE}]
UnixAbstract == [fam : {"unix_abstract"}, len : {l \in PathLens : l <= P - 1}, nul : BOOLEAN]
\* `nul` of the unnamed address: the kernel reports it with length 0 (a message
\* from an unbound sender) instead of with the bare family.
UnixUnnamed == [fam : {"unix_unnamed"}, len : {0}, nul : BOOLEAN]

Name(a) == [i \in 1..a.len |-> IF a.nul /\ a.len >= 3 /\ i = 2 THEN 0 ELSE 97]

Init == addr \in V4s \cup V6s \cup {u \in UnixPaths : u.len <= P} \cup UnixAbstract \cup UnixUnnamed
Next == UNCHANGED vars
Spec == Init /\ [][Next]_vars

IsUnix == addr.fam \in {"unix_path", "unix_abstract", "unix_unnamed"}

\* ---- ToKernel: bytes and length handed to bind/connect/sendmsg ----------------
V6Ip(a) == <<a.first>> \o Zeros(14) \o <<a.last>>

ToKernelBytes ==
    CASE addr.fam \in {"v4", "either4"} ->
            LE16(AF_INET) \o BE16(addr.port) \o addr.ip \o Zeros(8)
      [] addr.fam \in {"v6", "either6"} ->
            LE16(AF_INET6) \o BE16(addr.port) \o LE32(addr.flow) \o V6Ip(addr) \o LE32(addr.scope)
      [] addr.fam = "unix_path" ->
            \* the path and, if it fits, its terminating NUL
            LE16(AF_UNIX) \o Name(addr) \o (IF addr.len < P THEN <<0>> ELSE <<>>)
      [] addr.fam = "unix_abstract" -> LE16(AF_UNIX) \o <<0>> \o Name(addr)
      [] addr.fam = "unix_unnamed" -> LE16(AF_UNIX)

\* Lengths that may lawfully be passed: the exact one; for path names also
\* the whole structure (the kernel stops at the NUL).  As implemented
\* (deviation UnixFullLength) the whole structure is passed for every Unix
\* address, which changes abstract and unnamed addresses.
ToKernelLen == Len(ToKernelBytes)
LawfulLens ==
    IF addr.fam = "unix_path" THEN {ToKernelLen, 2 + P}
    ELSE IF IsUnix /\ "UnixFullLength" \in Dev THEN {2 + P}
    ELSE {ToKernelLen}

\* ---- the kernel: what it stores for a bound name and reports back --------------
\* IP: verbatim.  Unix path: up to the first NUL, reported with the NUL if it
\* fits.  Abstract: the bytes after the leading NUL, all of them (length comes
\* from the length passed).  Unnamed: family only.
Reported == ToKernelBytes
\* A path name is always reported with its NUL counted, even when the NUL does
\* not fit in sun_path any more (unix(7): the length can exceed the structure).
ReportedLen == IF addr.fam = "unix_path" THEN 2 + addr.len + 1
               ELSE IF addr.fam = "unix_unnamed" /\ addr.nul THEN 0
               ELSE Len(Reported)

\* ---- FromKernel: the address a10 must decode from the report ------------------
\* (the address itself: the round trip is the identity)
Decoded == addr

\* ---- laws ------------------------------------------------------------------------
\* The pointer/length pair covers exactly the structure of the family.
ExactStructure ==
    CASE addr.fam \in {"v4", "either4"} -> ToKernelLen = 16
      [] addr.fam \in {"v6", "either6"} -> ToKernelLen = 28
      [] addr.fam = "unix_path" -> ToKernelLen = 2 + addr.len + (IF addr.len < P THEN 1 ELSE 0)
      [] addr.fam = "unix_abstract" -> ToKernelLen = 3 + addr.len
      [] addr.fam = "unix_unnamed" -> ToKernelLen = 2
FitsStorage == ToKernelLen <= 2 + P

=============================================================================

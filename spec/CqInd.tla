-------------------------------- MODULE CqInd --------------------------------
(***************************************************************************)
(* The counter arithmetic of Completions::poll (src/io_uring/cq.rs) with   *)
(* the real modulus W = 2^32, for every completion queue size N the kernel *)
(* allows (a power of two up to 65536) and runs of any length: an          *)
(* inductive invariant discharged by Apalache, where CqSteps.tla is        *)
(* checked by TLC for a small W only.  Same actions as CqSteps.tla; slot   *)
(* contents and histories are replaced by ghost counters that do not wrap: *)
(* postC (completions ever published), headC (the count behind the         *)
(* published head), lheadC / ltailC (behind the poller's local copies).    *)
(*                                                                         *)
(* What the invariant gives (C05):                                         *)
(*   ReadSafe    every slot read lies in [headC, postC): published, and    *)
(*               not re-usable by the kernel, which writes position postC  *)
(*               only while postC - headC < N;                             *)
(*   InOrderOnce positions are read consecutively (lheadC grows by one per *)
(*               read and the next poll starts at the published head,      *)
(*               which is where the last one stopped: StoreInv);           *)
(*   NothingSkipped   the head is published only when every completion     *)
(*               seen at the last tail load has been read.                 *)
(* NextNonModular is the code before fix e64d60c (`head < tail`): the      *)
(* invariant is not inductive for it (a batch that straddles the wrap is   *)
(* dropped), which the check confirms.                                     *)
(***************************************************************************)
EXTENDS Integers

CONSTANT
    \* @type: Int;
    N

W == 4294967296

VARIABLES
    \* @type: Int;
    khead,
    \* @type: Int;
    ktail,
    \* @type: Int;
    headC,
    \* @type: Int;
    postC,
    \* @type: Str;
    pc,
    \* @type: Int;
    lhead,
    \* @type: Int;
    ltail,
    \* @type: Int;
    lheadC,
    \* @type: Int;
    ltailC

vars == <<khead, ktail, headC, postC, pc, lhead, ltail, lheadC, ltailC>>

ConstInit == N \in {1, 2, 4, 8, 16, 32, 64, 128, 256, 512, 1024, 2048, 4096, 8192, 16384, 32768, 65536}

Dist(a, b) == (b - a + W) % W
PCs == {"head", "tail", "enter", "read", "store"}

Init ==
    /\ \E s \in Int : s >= 0 /\ s < W /\ khead = s /\ ktail = s /\ headC = s /\ postC = s
    /\ pc = "head" /\ lhead = 0 /\ ltail = 0 /\ lheadC = 0 /\ ltailC = 0

\* The kernel publishes while the ring, seen through the published head, has room.
KPost ==
    /\ Dist(khead, ktail) < N
    /\ ktail' = (ktail + 1) % W /\ postC' = postC + 1
    /\ UNCHANGED <<khead, headC, pc, lhead, ltail, lheadC, ltailC>>

LoadHead ==
    /\ pc = "head"
    /\ lhead' = khead /\ lheadC' = headC /\ pc' = "tail"
    /\ UNCHANGED <<khead, ktail, headC, postC, ltail, ltailC>>

Empty(nm, hd, tl) == IF nm THEN hd >= tl ELSE hd = tl
More(nm, hd, tl)  == IF nm THEN hd < tl ELSE hd # tl

LoadTailG(nm) ==
    /\ pc = "tail"
    /\ ltail' = ktail /\ ltailC' = postC
    /\ pc' = IF Empty(nm, lhead, ktail) THEN "enter" ELSE "read"
    /\ UNCHANGED <<khead, ktail, headC, postC, lhead, lheadC>>

Enter ==
    /\ pc = "enter"
    /\ ltail' = ktail /\ ltailC' = postC /\ pc' = "read"
    /\ UNCHANGED <<khead, ktail, headC, postC, lhead, lheadC>>

ReadG(nm) ==
    /\ pc = "read"
    /\ IF More(nm, lhead, ltail)
       THEN /\ lhead' = (lhead + 1) % W /\ lheadC' = lheadC + 1
            /\ pc' = "read"
       ELSE /\ pc' = "store" /\ UNCHANGED <<lhead, lheadC>>
    /\ UNCHANGED <<khead, ktail, headC, postC, ltail, ltailC>>

StoreHead ==
    /\ pc = "store"
    /\ khead' = lhead /\ headC' = lheadC
    /\ pc' = "head"
    /\ UNCHANGED <<ktail, postC, lhead, ltail, lheadC, ltailC>>

Next == KPost \/ LoadHead \/ LoadTailG(FALSE) \/ Enter \/ ReadG(FALSE) \/ StoreHead
NextNonModular == KPost \/ LoadHead \/ LoadTailG(TRUE) \/ Enter \/ ReadG(TRUE) \/ StoreHead

\* ---- the inductive invariant ------------------------------------------------
InW(x) == 0 <= x /\ x < W
TypeOK ==
    /\ InW(khead) /\ InW(ktail) /\ InW(lhead) /\ InW(ltail)
    /\ headC >= 0 /\ postC >= 0 /\ lheadC >= 0 /\ ltailC >= 0
    /\ pc \in PCs

Ghost == khead = headC % W /\ ktail = postC % W
NoOverrun == 0 <= postC - headC /\ postC - headC <= N

LocalInv ==
    /\ pc \in {"tail", "enter", "read", "store"} => lhead = lheadC % W /\ headC <= lheadC /\ lheadC <= postC
    /\ pc \in {"tail", "enter"} => lheadC = headC
    /\ pc \in {"read", "store"} => ltail = ltailC % W /\ lheadC <= ltailC /\ ltailC <= postC

\* A slot is read only at a published, not yet released position.
ReadSafe == (pc = "read" /\ lhead # ltail) => (headC <= lheadC /\ lheadC < postC /\ lheadC < ltailC)
\* The head is published only after everything seen has been read.
StoreInv == pc = "store" => lheadC = ltailC

IndInv == TypeOK /\ Ghost /\ NoOverrun /\ LocalInv /\ ReadSafe /\ StoreInv

IndInit ==
    /\ khead \in Int /\ ktail \in Int /\ headC \in Int /\ postC \in Int
    /\ pc \in PCs
    /\ lhead \in Int /\ ltail \in Int /\ lheadC \in Int /\ ltailC \in Int
    /\ IndInv

\* Vacuity probe: must be violated from IndInit (a slot is about to be read).
NoRead == ~(pc = "read" /\ lhead # ltail)
=============================================================================

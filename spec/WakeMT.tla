------------------------------- MODULE WakeMT -------------------------------
(***************************************************************************)
(* SubmissionQueue::wake against Ring::poll: the two-flag handshake of     *)
(* PollingState (src/lib.rs 551-599), Completions::poll (src/io_uring/     *)
(* cq.rs 58-80) and Submissions::wake (src/io_uring/sq.rs 112-164), at the *)
(* granularity of the atomic accesses and system calls.  No I/O completes  *)
(* in this model: only wake-ups can end a blocking poll.                   *)
(*                                                                         *)
(* Poller steps (ppc):                                                     *)
(*   start     load head and tail; completions visible -> process          *)
(*   announce  state.swap(POLLING): remember whether AWOKEN was set        *)
(*   enter     io_uring_enter(GETEVENTS): submits what is queued (default  *)
(*             rings), then                                                *)
(*   wait      ... returns once a completion is visible, or at once when   *)
(*             the timeout was shortened to zero                           *)
(*   clear     state.swap(0)                                               *)
(*   reload    load the tail again                                         *)
(*   process   consume the completions; Ring::poll returns                 *)
(* Waker steps (wpc):                                                      *)
(*   begin     SubmissionQueue::wake is called                             *)
(*   fetch     state.fetch_or(AWOKEN); message needed iff it was exactly   *)
(*             POLLING                                                     *)
(*   send      queue IORING_OP_MSG_RING (may find the queue full), or the  *)
(*             synchronous IORING_REGISTER_SEND_MSG_RING (single issuer)   *)
(*   submit    io_uring_enter(0, 0, zero timeout); retry send if the queue *)
(*             was full                                                    *)
(* Kernel: with a kernel thread (SQPOLL) queued entries are consumed at    *)
(* any time (KConsume); otherwise by whoever enters.                       *)
(***************************************************************************)
EXTENDS Naturals, FiniteSets, TLC

CONSTANTS Wakers,     \* waking threads
          WakesPer,   \* wake calls per thread
          MaxPolls,   \* number of Ring::poll(None) calls, 0 = unbounded (liveness)
          Mode,       \* "default", "sqpoll", "single"
          SQN,        \* submission queue entries
          Fill,       \* other submissions queued (and not yet consumed) at the start
          Dev         \* deviations: "IgnoreAwoken", "SetOnlyIfPolling", "GiveUpWhenFull"

Deviations == {"IgnoreAwoken", "SetOnlyIfPolling", "GiveUpWhenFull"}

VARIABLES polling, awoken,   \* the two bits of PollingState
          ppc, short, polls,
          wpc, wk, wok,
          sq,                \* queued, unconsumed MSG_RING entries
          filler,            \* queued, unconsumed other entries (they never complete)
          stale,             \* the kernel consumed entries while this waker was in Submissions::add
          cq,                \* unprocessed wake-up completions
          seen,              \* completions visible when the poll in progress last loaded the tail
          owed,              \* ghost: a wake call started and no poll returned since
          dropped,           \* the Ring has been dropped
          late               \* ghost: this wake call started after the drop

vars == <<polling, awoken, ppc, short, polls, wpc, wk, wok, sq, filler, stale, cq, seen, owed, dropped, late>>

Init ==
    /\ polling = FALSE /\ awoken = FALSE
    /\ ppc = "start" /\ short = FALSE /\ polls = 0
    /\ wpc = [w \in Wakers |-> "begin"] /\ wk = [w \in Wakers |-> 1] /\ wok = [w \in Wakers |-> FALSE]
    /\ sq = 0 /\ filler = Fill /\ cq = 0 /\ seen = 0 /\ owed = FALSE /\ dropped = FALSE
    /\ late = [w \in Wakers |-> FALSE]
    /\ stale = [w \in Wakers |-> FALSE]

\* Entries were consumed: a waker inside Submissions::add may have loaded the old head.
Consumed == [w \in Wakers |-> stale[w] \/ (wpc[w] = "send" /\ sq + filler > 0)]

\* ---- poller -------------------------------------------------------------------
\* The tail is loaded: what is visible now is what this poll will process, unless it has to enter the
\* kernel and load the tail again.
PStart ==
    /\ ppc = "start" /\ ~dropped /\ (MaxPolls = 0 \/ polls < MaxPolls)
    /\ ppc' = IF cq > 0 THEN "process" ELSE "announce"
    /\ seen' = cq
    /\ UNCHANGED <<polling, awoken, short, polls, wpc, wk, wok, sq, filler, stale, cq, owed, dropped, late>>

PAnnounce ==
    /\ ppc = "announce"
    /\ short' = IF "IgnoreAwoken" \in Dev THEN FALSE ELSE awoken
    /\ polling' = TRUE /\ awoken' = FALSE
    /\ ppc' = "enter"
    /\ UNCHANGED <<polls, wpc, wk, wok, sq, filler, stale, cq, seen, owed, dropped, late>>

\* The system call first consumes what is queued (unless a kernel thread does).
PEnter ==
    /\ ppc = "enter"
    /\ IF Mode # "sqpoll" THEN cq' = cq + sq /\ sq' = 0 /\ filler' = 0 /\ stale' = Consumed ELSE UNCHANGED <<cq, sq, filler, stale>>
    /\ ppc' = "wait"
    /\ UNCHANGED <<polling, awoken, short, polls, wpc, wk, wok, seen, owed, dropped, late>>

Blocked == ppc = "wait" /\ ~short /\ cq = 0

\* The system call returns.
PWake ==
    /\ ppc = "wait" /\ ~Blocked
    /\ ppc' = "clear"
    /\ UNCHANGED <<polling, awoken, short, polls, wpc, wk, wok, sq, filler, stale, cq, seen, owed, dropped, late>>

PClear ==
    /\ ppc = "clear"
    /\ polling' = FALSE /\ awoken' = FALSE
    /\ ppc' = "reload"
    /\ UNCHANGED <<short, polls, wpc, wk, wok, sq, filler, stale, cq, seen, owed, dropped, late>>

\* After the polling bit has been cleared the tail is loaded again: that is what gets processed.
PReload ==
    /\ ppc = "reload"
    /\ seen' = cq
    /\ ppc' = "process"
    /\ UNCHANGED <<polling, awoken, short, polls, wpc, wk, wok, sq, filler, stale, cq, owed, dropped, late>>

PProcess ==
    /\ ppc = "process"
    /\ cq' = cq - seen /\ seen' = 0 /\ owed' = FALSE    \* completions published after the tail was loaded stay for the next poll
    /\ polls' = IF MaxPolls = 0 THEN 0 ELSE polls + 1
    /\ ppc' = "start"
    /\ UNCHANGED <<polling, awoken, short, wpc, wk, wok, sq, filler, stale, dropped, late>>

PDrop ==
    /\ ppc = "start" /\ MaxPolls > 0 /\ polls = MaxPolls /\ ~dropped
    /\ dropped' = TRUE /\ ppc' = "done"
    /\ UNCHANGED <<polling, awoken, short, polls, wpc, wk, wok, sq, filler, stale, cq, seen, owed, late>>

PStep == PStart \/ PAnnounce \/ PEnter \/ PWake \/ PClear \/ PReload \/ PProcess \/ PDrop

\* ---- wakers -------------------------------------------------------------------
Finished(w) == IF wk[w] < WakesPer THEN "begin" ELSE "done"
BumpIfFinished(w, next) == IF next \in {"begin", "done"} THEN [wk EXCEPT ![w] = @ + 1] ELSE wk

WBegin(w) ==
    /\ wpc[w] = "begin" /\ wk[w] <= WakesPer
    /\ owed' = (owed \/ ~dropped)   \* waking a dropped ring owes nothing
    /\ late' = [late EXCEPT ![w] = dropped]
    /\ wpc' = [wpc EXCEPT ![w] = "fetch"]
    /\ UNCHANGED <<polling, awoken, ppc, short, polls, wk, wok, sq, filler, stale, cq, seen, dropped>>

WFetch(w) ==
    /\ wpc[w] = "fetch"
    /\ LET needMsg == polling /\ ~awoken
           next == IF needMsg THEN "send" ELSE Finished(w) IN
       /\ awoken' = IF "SetOnlyIfPolling" \in Dev /\ ~polling THEN awoken ELSE TRUE
       /\ wpc' = [wpc EXCEPT ![w] = next]
       /\ wk' = BumpIfFinished(w, next)
    /\ stale' = [stale EXCEPT ![w] = FALSE]
    /\ UNCHANGED <<polling, ppc, short, polls, wok, sq, filler, cq, seen, owed, dropped, late>>

\* Submissions::add: succeeds only if there is room; reports a full queue when
\* it is full -- or when it was full when the head was loaded and the kernel
\* has consumed entries since (stale head: see SubmitMT for the details of add).
WSendOk(w) ==
    /\ wpc[w] = "send" /\ Mode # "single"
    /\ sq + filler < SQN
    /\ sq' = sq + 1 /\ wok' = [wok EXCEPT ![w] = TRUE]
    /\ wpc' = [wpc EXCEPT ![w] = "submit"]
    /\ UNCHANGED <<polling, awoken, ppc, short, polls, wk, filler, stale, cq, seen, owed, dropped, late>>

WSendFull(w) ==
    /\ wpc[w] = "send" /\ Mode # "single"
    /\ sq + filler >= SQN \/ stale[w]
    /\ wok' = [wok EXCEPT ![w] = FALSE]
    /\ wpc' = [wpc EXCEPT ![w] = "submit"]
    /\ UNCHANGED <<polling, awoken, ppc, short, polls, wk, sq, filler, stale, cq, seen, owed, dropped, late>>

\* Single issuer: the message is sent with a synchronous system call.
WSendSync(w) ==
    /\ wpc[w] = "send" /\ Mode = "single"
    /\ cq' = cq + 1
    /\ wpc' = [wpc EXCEPT ![w] = Finished(w)] /\ wk' = BumpIfFinished(w, Finished(w))
    /\ UNCHANGED <<polling, awoken, ppc, short, polls, wok, sq, filler, stale, seen, owed, dropped, late>>

WSend(w) == WSendOk(w) \/ WSendFull(w) \/ WSendSync(w)

WSubmit(w) ==
    /\ wpc[w] = "submit"
    /\ IF Mode # "sqpoll" THEN cq' = cq + sq /\ sq' = 0 /\ filler' = 0 ELSE UNCHANGED <<cq, sq, filler>>
    /\ LET next == IF wok[w] \/ "GiveUpWhenFull" \in Dev THEN Finished(w) ELSE "send" IN
       /\ wpc' = [wpc EXCEPT ![w] = next]
       /\ wk' = BumpIfFinished(w, next)
       \* entering add again starts with a fresh load of the head
       /\ stale' = [w2 \in Wakers |-> IF w2 = w THEN FALSE ELSE IF Mode # "sqpoll" THEN Consumed[w2] ELSE stale[w2]]
    /\ UNCHANGED <<polling, awoken, ppc, short, polls, wok, seen, owed, dropped, late>>

WStep(w) == WBegin(w) \/ WFetch(w) \/ WSend(w) \/ WSubmit(w)

\* ---- kernel thread ------------------------------------------------------------
\* The other entries were queued first, so they are consumed first.
KConsume ==
    /\ Mode = "sqpoll" /\ sq + filler > 0
    /\ IF filler > 0
       THEN filler' = filler - 1 /\ UNCHANGED <<sq, cq>>
       ELSE sq' = sq - 1 /\ cq' = cq + 1 /\ filler' = filler
    /\ stale' = Consumed
    /\ UNCHANGED <<polling, awoken, ppc, short, polls, wpc, wk, wok, seen, owed, dropped, late>>

Next == PStep \/ (\E w \in Wakers : WStep(w)) \/ KConsume

Spec == Init /\ [][Next]_vars
FairSpec == Spec /\ WF_vars(PStep) /\ (\A w \in Wakers : WF_vars(WStep(w))) /\ WF_vars(KConsume)

\* ---- properties (C11) -----------------------------------------------------------
TypeOK ==
    /\ polling \in BOOLEAN /\ awoken \in BOOLEAN /\ short \in BOOLEAN /\ owed \in BOOLEAN /\ dropped \in BOOLEAN
    /\ ppc \in {"start", "announce", "enter", "wait", "clear", "reload", "process", "done"}
    /\ \A w \in Wakers : wpc[w] \in {"begin", "fetch", "send", "submit", "done"}
    /\ sq \in 0..SQN /\ filler \in 0..SQN /\ sq + filler <= SQN /\ cq \in Nat /\ seen \in 0..cq

WakersQuiet == \A w \in Wakers : wpc[w] = "done"

\* A poll that can never return although a wake call started after the previous
\* poll returned: the wake-up was lost.
NoLostWake == ~(Blocked /\ owed /\ WakersQuiet /\ sq = 0)

\* Every wake call is answered by a poll returning (needs the poller to keep
\* polling: MaxPolls = 0).
Served == owed ~> ~owed

\* Waking a ring that has been dropped does nothing.
DroppedHarmless == \A w \in Wakers : late[w] => wpc[w] \notin {"send", "submit"}

\* The polling bit is set exactly while the poller is between announce and clear.
PollingBit == polling <=> ppc \in {"enter", "wait", "clear"}
=============================================================================

------------------------------- MODULE Ring -------------------------------
(***************************************************************************)
(* a10 at the granularity of its public API, for single-threaded histories *)
(*                                                                         *)
(* Actors: the application (creates, polls and drops operation futures,    *)
(* polls the Ring, calls wake), and the kernel (consumes submissions       *)
(* inside io_uring_enter, holds requests in flight, posts completions in   *)
(* any order).  One action = one public call or one kernel step.  The      *)
(* thread-level structure of the same code is in SubmitMT / CqSteps /      *)
(* OpMT / WakeMT.                                                          *)
(*                                                                         *)
(* Code map (pinned tree):                                                 *)
(*   Create       src/io_uring/op.rs  State::new                           *)
(*   Poll         src/io_uring/op.rs  poll_inner  (+ sq.rs add,            *)
(*                                    wait_for_submission)                 *)
(*   Drop         src/io_uring/op.rs  State::drop, drop_state (+ sq.rs     *)
(*                                    cancel)                              *)
(*   RingPoll     src/io_uring/cq.rs  Completions::poll, Completion::process*)
(*                src/io_uring/mod.rs enter, wake_blocked_futures          *)
(*                src/io_uring/op.rs  Shared::update                       *)
(*   Wake         src/io_uring/sq.rs  wake (not-polling branch)            *)
(*   K*           the kernel (simulated in the conformance harness)        *)
(***************************************************************************)
EXTENDS Naturals, Integers, Sequences, FiniteSets, TLC

CONSTANTS
    Ops,          \* operation identifiers, a set of small naturals
    Kind,         \* [Ops -> {"single", "twostep", "multi"}]
    SQN,          \* submission queue entries
    CQN,          \* completion queue entries
    Wakers,       \* waker identities, a set of naturals >= 1
    MaxPost,      \* bound on non-final completions per multishot operation
    MaxRestart,   \* bound on interrupted attempts per operation
    Dev           \* enabled deviations (known findings), subset of Deviations

Deviations == {"WakeParkedOnlyAfterEnter"}

ASSUME Dev \subseteq Deviations

EINTR     == -4
ECANCELED == -125
EIO       == -5
ENOENT    == -2
EALREADY  == -114
Restartable(v) == v \in {EINTR, ECANCELED}

NoWaker == 0

\* Reserved user_data values of bookkeeping completions (cq.rs 168-171).
TagWake   == -1
TagCancel == -2
TagClose  == -3

VARIABLES
    sq,         \* entries published by a10, not yet consumed by the kernel
    inflight,   \* [Ops -> BOOLEAN] the kernel holds the request
    nposted,    \* [Ops -> Nat] completions posted for the current attempt
    cq,         \* completions published, not yet processed by a10
    backlog,    \* completions the kernel could not fit in the ring (NODROP)
    op,         \* [Ops -> operation record]
    blocked,    \* wakers parked until a submission slot is free
    awoken,     \* the "awoken" bit of the polling state
    posted,     \* history: [Ops -> Seq(value)] values posted, current attempt
    delivered,  \* history: [Ops -> Seq(value)] values handed to the caller
    act         \* observation record of the last action (not part of VIEW)

vars == <<sq, inflight, nposted, cq, backlog, op, blocked, awoken, posted, delivered, act>>
view == <<sq, inflight, nposted, cq, backlog, op, blocked, awoken, posted, delivered>>

IsMulti(o)   == Kind[o] = "multi"
IsTwoStep(o) == Kind[o] = "twostep"

\* Unique, recognisable result values: operation * 100 + attempt * 10 + k.
Val(o, att, k) == o * 100 + att * 10 + k

OpEntry(o)     == [t |-> "op", o |-> o]
CancelEntry(o) == [t |-> "cancel", o |-> o]

Cqe(ud, val, more, notif) == [ud |-> ud, val |-> val, more |-> more, notif |-> notif]

NoObs == [name |-> "Init", o |-> 0, w |-> 0, k |-> "", ret |-> <<"none">>,
          subm |-> <<>>, wakes |-> {}, frees |-> {}, blocks |-> FALSE, parked |-> FALSE, ch |-> <<>>, cqe |-> <<>>]

Obs(name, o, w, k, ret, subm, wakes, frees) ==
    [name |-> name, o |-> o, w |-> w, k |-> k, ret |-> ret, subm |-> subm,
     wakes |-> wakes, frees |-> frees, blocks |-> FALSE, parked |-> FALSE, ch |-> <<>>, cqe |-> <<>>]

Init ==
    /\ sq = <<>>
    /\ inflight = [o \in Ops |-> FALSE]
    /\ nposted = [o \in Ops |-> 0]
    /\ cq = <<>>
    /\ backlog = <<>>
    /\ op = [o \in Ops |-> [st |-> "new", q |-> <<>>, waker |-> NoWaker, att |-> 0]]
    /\ blocked = <<>>
    /\ awoken = FALSE
    /\ posted = [o \in Ops |-> <<>>]
    /\ delivered = [o \in Ops |-> <<>>]
    /\ act = NoObs

HasRoom == Len(sq) < SQN

(***************************************************************************)
(* Application actions                                                     *)
(***************************************************************************)

Create(o) ==
    /\ op[o].st = "new"
    /\ op' = [op EXCEPT ![o].st = "idle"]
    /\ act' = Obs("Create", o, 0, "", <<"none">>, <<>>, {}, {})
    /\ UNCHANGED <<sq, inflight, nposted, cq, backlog, blocked, awoken, posted, delivered>>

\* First poll, or the re-submission after an interrupted attempt: publish the
\* entry if there is room, else park the waker (op.rs 804-846).
SubmitOrPark(o, w, opRec) ==
    IF HasRoom
    THEN /\ sq' = Append(sq, OpEntry(o))
         /\ op' = [op EXCEPT ![o] = [opRec EXCEPT !.st = "running", !.q = <<>>, !.waker = w]]
         /\ blocked' = blocked
         /\ act' = Obs("Poll", o, w, "", <<"pending">>, <<OpEntry(o)>>, {}, {})
    ELSE /\ sq' = sq
         /\ op' = [op EXCEPT ![o] = opRec]
         /\ blocked' = Append(blocked, w)
         /\ act' = Obs("Poll", o, w, "", <<"pending">>, <<>>, {}, {})

Poll(o, w) ==
    LET r == op[o] IN
    /\ r.st \in {"idle", "running", "done"}
    /\ CASE r.st = "idle" ->
              /\ SubmitOrPark(o, w, r)
              /\ UNCHANGED <<posted, delivered>>
         [] r.st = "running" /\ IsMulti(o) /\ r.q # <<>> ->
              \* Multishot: results are handed out while the operation runs, FIFO.
              /\ op' = [op EXCEPT ![o].q = Tail(r.q)]
              /\ delivered' = [delivered EXCEPT ![o] = Append(@, Head(r.q))]
              /\ act' = Obs("Poll", o, w, "",
                            IF Head(r.q) >= 0 THEN <<"ready", Head(r.q)>> ELSE <<"err", Head(r.q)>>,
                            <<>>, {}, {})
              /\ UNCHANGED <<sq, blocked, posted>>
         [] r.st = "running" /\ ~(IsMulti(o) /\ r.q # <<>>) ->
              \* Not ready: remember the most recent waker.
              /\ op' = [op EXCEPT ![o].waker = w]
              /\ act' = Obs("Poll", o, w, "", <<"pending">>, <<>>, {}, {})
              /\ UNCHANGED <<sq, blocked, posted, delivered>>
         [] r.st = "done" /\ r.q = <<>> ->
              \* Only multishot: every result was handed out, end of stream.
              /\ op' = [op EXCEPT ![o].st = "complete"]
              /\ act' = Obs("Poll", o, w, "", <<"end">>, <<>>, {}, {})
              /\ UNCHANGED <<sq, blocked, posted, delivered>>
         [] r.st = "done" /\ r.q # <<>> ->
              LET v    == Head(r.q)
                  rest == Tail(r.q)
                  st1  == IF IsMulti(o) THEN "done" ELSE "complete"
              IN
              IF v < 0 /\ Restartable(v)
              THEN \* Interrupted: restart transparently with the same resources.
                   /\ SubmitOrPark(o, w, [r EXCEPT !.st = "idle", !.q = rest, !.att = @ + 1])
                   /\ posted' = [posted EXCEPT ![o] = IF IsMulti(o) THEN @ ELSE <<>>]
                   /\ UNCHANGED delivered
              ELSE /\ op' = [op EXCEPT ![o].st = st1, ![o].q = rest]
                   /\ delivered' = [delivered EXCEPT ![o] = Append(@, v)]
                   /\ act' = Obs("Poll", o, w, "",
                                 IF v >= 0 THEN <<"ready", v>> ELSE <<"err", v>>, <<>>, {}, {})
                   /\ UNCHANGED <<sq, blocked, posted>>
    /\ UNCHANGED <<inflight, nposted, cq, backlog, awoken>>

\* Dropping the future (op.rs 182-205).
Drop(o) ==
    LET r == op[o] IN
    /\ r.st \in {"idle", "running", "done", "complete"}
    /\ IF r.st = "running"
       THEN /\ op' = [op EXCEPT ![o].st = "dropped", ![o].waker = NoWaker]
            /\ IF HasRoom
               THEN /\ sq' = Append(sq, CancelEntry(o))
                    /\ act' = Obs("Drop", o, 0, "", <<"none">>, <<CancelEntry(o)>>, {}, {})
               ELSE /\ sq' = sq
                    /\ act' = Obs("Drop", o, 0, "", <<"none">>, <<>>, {}, {})
       ELSE /\ op' = [op EXCEPT ![o].st = "freed", ![o].waker = NoWaker, ![o].q = <<>>]
            /\ sq' = sq
            /\ act' = Obs("Drop", o, 0, "", <<"none">>, <<>>, {}, {o})
    /\ UNCHANGED <<inflight, nposted, cq, backlog, blocked, awoken, posted, delivered>>

\* SubmissionQueue::wake while no poll is in progress: only sets the bit.
Wake ==
    /\ ~awoken
    /\ awoken' = TRUE
    /\ act' = Obs("Wake", 0, 0, "", <<"none">>, <<>>, {}, {})
    /\ UNCHANGED <<sq, inflight, nposted, cq, backlog, op, blocked, posted, delivered>>

(***************************************************************************)
(* Kernel                                                                  *)
(***************************************************************************)

\* Publish a completion: into the ring if there is room and nothing is queued
\* in front of it, else into the backlog (IORING_FEAT_NODROP).
Publish(c, cq0, bl0) ==
    IF bl0 = <<>> /\ Len(cq0) < CQN THEN <<Append(cq0, c), bl0>> ELSE <<cq0, Append(bl0, c)>>

RECURSIVE Flush(_, _)
Flush(cq0, bl0) ==
    IF bl0 # <<>> /\ Len(cq0) < CQN THEN Flush(Append(cq0, Head(bl0)), Tail(bl0)) ELSE <<cq0, bl0>>

\* Completion kinds the kernel may post for an in-flight request.
PostKinds(o) ==
    LET interrupted == IF op[o].att < MaxRestart THEN {"eintr", "ecanceled"} ELSE {} IN
    CASE Kind[o] = "single"  -> {"ok", "err"} \cup interrupted
      [] Kind[o] = "twostep" -> IF nposted[o] = 0
                                THEN {"first", "err"} \cup interrupted
                                     \cup (IF op[o].att < MaxRestart THEN {"first_eintr"} ELSE {})
                                ELSE {"notif"}
      [] Kind[o] = "multi"   -> (IF nposted[o] < MaxPost THEN {"more"} ELSE {})
                                \cup {"ok", "err"} \cup interrupted

KindCqe(o, k) ==
    LET v == Val(o, op[o].att, nposted[o] + 1) IN
    CASE k = "ok"          -> Cqe(o, v, FALSE, FALSE)
      [] k = "more"        -> Cqe(o, v, TRUE, FALSE)
      [] k = "first"       -> Cqe(o, v, TRUE, FALSE)
      [] k = "first_eintr" -> Cqe(o, EINTR, TRUE, FALSE)
      [] k = "notif"       -> Cqe(o, 0, FALSE, TRUE)
      [] k = "err"         -> Cqe(o, EIO, FALSE, FALSE)
      [] k = "eintr"       -> Cqe(o, EINTR, FALSE, FALSE)
      [] k = "ecanceled"   -> Cqe(o, ECANCELED, FALSE, FALSE)

CqeObs(c) == <<c.ud, c.val, IF c.more THEN 1 ELSE 0, IF c.notif THEN 1 ELSE 0>>

\* Effect of the kernel posting completion kind k for o on the kernel-side
\* variables, given current <<cq, backlog>>.
PostEffect(o, k, cq0, bl0) == Publish(KindCqe(o, k), cq0, bl0)

KPost(o, k) ==
    /\ inflight[o]
    /\ k \in PostKinds(o)
    /\ LET c  == KindCqe(o, k)
           pb == Publish(c, cq, backlog)
       IN /\ cq' = pb[1]
          /\ backlog' = pb[2]
          /\ inflight' = [inflight EXCEPT ![o] = c.more]
          /\ nposted' = [nposted EXCEPT ![o] = IF c.more THEN @ + 1 ELSE 0]
          /\ posted' = [posted EXCEPT ![o] = IF c.notif THEN @ ELSE Append(@, c.val)]
    /\ act' = [Obs("KPost", o, 0, k, <<"none">>, <<>>, {}, {}) EXCEPT !.cqe = CqeObs(KindCqe(o, k))]
    /\ UNCHANGED <<sq, op, blocked, awoken, delivered>>

\* The kernel consumes the submission queue front to back.  `ch` decides, per
\* position, whether an asynchronous cancel that finds its target wins.
\* State threaded through: <<inflight, nposted, cq, backlog, posted>>.
RECURSIVE Consume(_, _, _, _)
Consume(entries, i, ch, s) ==
    IF entries = <<>> THEN s
    ELSE LET e == Head(entries)
             inf == s[1] np == s[2] cq0 == s[3] bl0 == s[4] po == s[5]
         IN
         IF e.t = "op"
         THEN Consume(Tail(entries), i + 1, ch, <<[inf EXCEPT ![e.o] = TRUE], np, cq0, bl0, po>>)
         ELSE \* cancel
           IF inf[e.o]
           THEN IF ch[i]
                THEN \* found and cancelled: the target completes with -ECANCELED,
                     \* the cancel itself succeeds silently (CQE_SKIP_SUCCESS).
                     LET pb == Publish(Cqe(e.o, ECANCELED, FALSE, FALSE), cq0, bl0) IN
                     Consume(Tail(entries), i + 1, ch,
                             <<[inf EXCEPT ![e.o] = FALSE], [np EXCEPT ![e.o] = 0], pb[1], pb[2],
                               [po EXCEPT ![e.o] = Append(@, ECANCELED)]>>)
                ELSE LET pb == Publish(Cqe(TagCancel, EALREADY, FALSE, FALSE), cq0, bl0) IN
                     Consume(Tail(entries), i + 1, ch, <<inf, np, pb[1], pb[2], po>>)
           ELSE LET pb == Publish(Cqe(TagCancel, ENOENT, FALSE, FALSE), cq0, bl0) IN
                Consume(Tail(entries), i + 1, ch, <<inf, np, pb[1], pb[2], po>>)

\* a10 processes the completions in the ring in order (cq.rs 78-93, 179-240;
\* op.rs 268-312).  State threaded through: <<op, wakes, frees>>.
Store(o, q, c) ==
    IF IsMulti(o) THEN Append(q, c.val)
    ELSE IF c.notif THEN q ELSE <<c.val>>

RECURSIVE Process(_, _)
Process(cs, s) ==
    IF cs = <<>> THEN s
    ELSE LET c == Head(cs) ops == s[1] wakes == s[2] frees == s[3] IN
         IF c.ud \notin Ops
         THEN Process(Tail(cs), s)                    \* bookkeeping completion: ignored
         ELSE LET o == c.ud r == ops[o] IN
              IF r.st \in {"running", "done"}
              THEN LET wakeNow == (~c.more \/ IsMulti(o)) /\ r.waker # NoWaker
                       r2 == [r EXCEPT !.q = Store(o, r.q, c),
                                       !.st = IF c.more THEN r.st ELSE "done",
                                       !.waker = IF wakeNow THEN NoWaker ELSE r.waker]
                   IN Process(Tail(cs), <<[ops EXCEPT ![o] = r2],
                                          IF wakeNow THEN wakes \cup {r.waker} ELSE wakes, frees>>)
              ELSE IF r.st = "dropped"
              THEN IF c.more
                   THEN Process(Tail(cs), s)
                   ELSE Process(Tail(cs), <<[ops EXCEPT ![o].st = "freed", ![o].q = <<>>],
                                            wakes, frees \cup {o}>>)
              ELSE Process(Tail(cs), s)  \* unreachable by construction (see TypeOK / RoutedOK)

SeqToSet(s) == {s[i] : i \in 1..Len(s)}

\* Ring::poll.  tmo = "zero": Some(Duration::ZERO); tmo = "none": no timeout.
\* `ch`: outcome of each cancel request consumed; `k`: what the kernel does
\* while the call is blocked ("" = nothing happens).
RingPoll(tmo, ch, blockOp, blockKind) ==
    IF cq # <<>>
    THEN \* Completions are visible: no system call, just process them.
         /\ blockOp = 0 /\ blockKind = "" /\ ch = [i \in 1..Len(sq) |-> TRUE]
         /\ LET pr == Process(cq, <<op, {}, {}>>) IN
            /\ op' = pr[1]
            /\ act' = [Obs("RingPoll", 0, 0, tmo, <<"ok">>, <<>>, pr[2], pr[3]) EXCEPT !.ch = ch]
         /\ cq' = <<>>
         /\ UNCHANGED <<sq, inflight, nposted, backlog, blocked, awoken, posted, delivered>>
    ELSE \* io_uring_enter: the kernel consumes every published entry ...
         LET c1 == Consume(sq, 1, ch, <<inflight, nposted, cq, backlog, posted>>)
             fl == Flush(c1[3], c1[4])
             consumed == Len(sq)
             quick == tmo = "zero" \/ awoken          \* effective timeout is zero
             empty == fl[1] = <<>>
             parkedRoom == blocked # <<>>             \* room is available now: queue is empty
         IN
         /\ IF ~empty \/ quick
            THEN \* ... and the call returns at once.
                 /\ blockOp = 0 /\ blockKind = ""
                 /\ LET woke == consumed > 0 \/ ~empty      \* enter returned Ok(n), not ETIME
                        pr == Process(fl[1], <<op, IF woke THEN SeqToSet(blocked) ELSE {}, {}>>)
                    IN /\ op' = pr[1]
                       /\ blocked' = IF woke THEN <<>> ELSE blocked
                       /\ act' = [Obs("RingPoll", 0, 0, tmo, <<"ok">>, <<>>, pr[2], pr[3]) EXCEPT !.ch = ch]
                 /\ inflight' = c1[1] /\ nposted' = c1[2] /\ cq' = <<>> /\ backlog' = fl[2]
                 /\ posted' = c1[5]
            ELSE \* ... and the call blocks until the kernel posts something.
                 IF parkedRoom /\ "WakeParkedOnlyAfterEnter" \notin Dev
                 THEN \* Contract: parked futures are woken once room is available and
                      \* the call does not keep the caller blocked.
                      /\ blockOp = 0 /\ blockKind = ""
                      /\ op' = op /\ blocked' = <<>>
                      /\ act' = [Obs("RingPoll", 0, 0, tmo, <<"ok">>, <<>>, SeqToSet(blocked), {}) EXCEPT !.ch = ch]
                      /\ inflight' = c1[1] /\ nposted' = c1[2] /\ cq' = <<>> /\ backlog' = fl[2]
                      /\ posted' = c1[5]
                 ELSE IF blockOp = 0
                 THEN \* Nothing ever completes: the call never returns.
                      /\ blockKind = ""
                      /\ op' = op /\ blocked' = blocked
                      /\ act' = [Obs("RingPoll", 0, 0, tmo, <<"blocked_forever">>, <<>>, {}, {})
                                   EXCEPT !.blocks = TRUE, !.parked = parkedRoom, !.ch = ch]
                      /\ inflight' = c1[1] /\ nposted' = c1[2] /\ cq' = <<>> /\ backlog' = fl[2]
                      /\ posted' = c1[5]
                 ELSE \* The kernel posts one completion, which ends the wait.
                      /\ c1[1][blockOp]
                      /\ blockKind \in PostKinds(blockOp) \* evaluated on the pre-state: att unchanged by Consume
                      /\ LET c  == [KindCqe(blockOp, blockKind) EXCEPT
                                      !.val = IF blockKind \in {"ok", "more", "first"}
                                              THEN Val(blockOp, op[blockOp].att, c1[2][blockOp] + 1) ELSE @]
                             pr == Process(<<c>>, <<op, SeqToSet(blocked), {}>>)
                         IN /\ op' = pr[1]
                            /\ blocked' = <<>>
                            /\ act' = [Obs("RingPoll", blockOp, 0, tmo, <<"ok">>, <<>>, pr[2], pr[3])
                                         EXCEPT !.blocks = TRUE, !.parked = parkedRoom, !.w = 0,
                                                !.k = tmo \o "/" \o blockKind, !.ch = ch, !.cqe = CqeObs(c)]
                            /\ inflight' = [c1[1] EXCEPT ![blockOp] = c.more]
                            /\ nposted' = [c1[2] EXCEPT ![blockOp] = IF c.more THEN @ + 1 ELSE 0]
                            /\ posted' = [c1[5] EXCEPT ![blockOp] = IF c.notif THEN @ ELSE Append(@, c.val)]
                      /\ cq' = <<>> /\ backlog' = fl[2]
         /\ sq' = <<>>
         /\ awoken' = FALSE
         /\ UNCHANGED delivered

CancelChoices == [1..Len(sq) -> BOOLEAN]
\* Only positions holding a cancel whose target may be in flight matter; fix the
\* others to TRUE to avoid duplicate transitions.
RelevantChoice(ch) == \A i \in 1..Len(sq) : sq[i].t = "op" => ch[i]

Next ==
    \/ \E o \in Ops : Create(o)
    \/ \E o \in Ops, w \in Wakers : Poll(o, w)
    \/ \E o \in Ops : Drop(o)
    \/ Wake
    \/ \E o \in Ops, k \in {"ok", "more", "first", "first_eintr", "notif", "err", "eintr", "ecanceled"} : KPost(o, k)
    \/ \E tmo \in {"zero", "none"}, ch \in CancelChoices :
         /\ RelevantChoice(ch)
         /\ \/ RingPoll(tmo, ch, 0, "")
            \/ \E o \in Ops, k \in {"ok", "more", "first", "first_eintr", "notif", "err", "eintr", "ecanceled"} :
                 RingPoll(tmo, ch, o, k)

Spec == Init /\ [][Next]_vars

(***************************************************************************)
(* Properties                                                              *)
(***************************************************************************)

Statuses == {"new", "idle", "running", "done", "dropped", "complete", "freed"}

TypeOK ==
    /\ \A o \in Ops : op[o].st \in Statuses /\ op[o].waker \in Wakers \cup {NoWaker}
    /\ Len(sq) <= SQN
    /\ Len(cq) <= CQN

\* The kernel may touch an operation's memory from the moment its entry is
\* published until its final completion has been posted.
KernelMayAccess(o) == inflight[o] \/ \E i \in 1..Len(sq) : sq[i] = OpEntry(o)

\* C01: while the kernel may access it, the operation state (and the resources
\* boxed with it) is neither freed nor handed back to the caller.
MemSafe == \A o \in Ops : KernelMayAccess(o) => op[o].st \in {"running", "dropped"}

\* Completions of o still travelling towards a10.
Pending(o) == \E i \in 1..Len(cq) : cq[i].ud = o
PendingB(o) == \E i \in 1..Len(backlog) : backlog[i].ud = o

\* C01/C06: a completion can only ever arrive for an operation whose state exists.
RoutedOK == \A o \in Ops : (Pending(o) \/ PendingB(o)) => op[o].st \in {"running", "dropped"}

IsPrefix(s, t) == Len(s) <= Len(t) /\ \A i \in 1..Len(s) : s[i] = t[i]

\* C02: what the caller received is what the kernel posted for that operation.
DeliveredOK ==
    \A o \in Ops :
       IF IsMulti(o)
       THEN \* every delivered value was posted for o, in order, none twice
            \A i \in 1..Len(delivered[o]) : delivered[o][i] \div 100 = o \/ delivered[o][i] < 0
       ELSE /\ Len(delivered[o]) <= 1
            /\ \A i \in 1..Len(delivered[o]) : delivered[o][i] \div 100 = o \/ delivered[o][i] < 0

\* C02 (single/twostep): delivered only once the final completion was processed,
\* and it is the first (non-notification) value of the last attempt.
DeliveredFinal ==
    \A o \in Ops : ~IsMulti(o) /\ delivered[o] # <<>> =>
        /\ ~inflight[o]
        /\ posted[o] # <<>> /\ delivered[o][1] = posted[o][1]

\* C02 (multi): delivered is a prefix of what was posted over all attempts,
\* minus the interruptions that were absorbed by a restart.
\* (posted[o] is not reset for multishot restarts.)
NonRestart(s) == SelectSeq(s, LAMBDA v : ~(v < 0 /\ Restartable(v)))
MultiPrefix ==
    \A o \in Ops : IsMulti(o) => IsPrefix(delivered[o], NonRestart(posted[o]))
                                 \/ \* a cancel that raced with the drop may be the last value posted
                                    op[o].st \in {"dropped", "freed"}

\* C09: an interruption never reaches the caller.
NeverSurfaces == \A o \in Ops : \A i \in 1..Len(delivered[o]) : ~Restartable(delivered[o][i])
                                                               \/ delivered[o][i] >= 0

\* C03 (safety form, single threaded): after any action, an operation whose
\* result is ready has no stale waker stored -- the waker was taken and invoked
\* by the RingPoll that made it ready.
Ready(o) == \/ op[o].st = "done"
            \/ op[o].st = "running" /\ IsMulti(o) /\ op[o].q # <<>>
NoLostWake == \A o \in Ops : Ready(o) => op[o].waker = NoWaker

\* C03 (second sentence): a RingPoll never leaves the caller blocked while a
\* parked future could be submitted.
NoParkedBlock == ~(act.ret = <<"blocked_forever">> /\ act.parked)

\* C06: reclamation happens exactly once, and only when nothing can arrive any more.
FreedIsFinal == \A o \in Ops : op[o].st = "freed" => ~inflight[o] /\ ~Pending(o) /\ ~PendingB(o)

\* C06: a cancel request is only ever published by dropping a running operation.
CancelOnlyDropped == \A i \in 1..Len(sq) : sq[i].t = "cancel" => op[sq[i].o].st \in {"dropped", "freed"}

\* C06 no leak at quiescence: a dropped operation whose request the kernel has
\* finished with and whose completions were all processed has been freed.
NoLeakAtQuiescence ==
    \A o \in Ops : op[o].st = "dropped" =>
        \/ KernelMayAccess(o) \/ Pending(o) \/ PendingB(o)

=============================================================================

------------------------------- MODULE Ring -------------------------------
(***************************************************************************)
(* a10 at the granularity of its public API, for single-threaded histories *)
(*                                                                         *)
(* Actors: the application (creates, polls and drops operation futures,    *)
(* polls the Ring, calls wake), and the kernel (consumes submissions       *)
(* inside io_uring_enter, holds requests in flight, posts completions in   *)
(* any order).  One action = one public call or one kernel step.  The      *)
(* thread-level structure of the same code is in SubmitMT / CqSteps /      *)
(* OpMT / WakeMT.                                                          *)
(*                                                                         *)
(* Code map (pinned tree):                                                 *)
(*   Create       src/io_uring/op.rs  State::new                           *)
(*   Poll         src/io_uring/op.rs  poll_inner  (+ sq.rs add,            *)
(*                                    wait_for_submission)                 *)
(*   Drop         src/io_uring/op.rs  State::drop, drop_state (+ sq.rs     *)
(*                                    cancel)                              *)
(*   RingPoll     src/io_uring/cq.rs  Completions::poll, Completion::process*)
(*                src/io_uring/mod.rs enter, wake_blocked_futures          *)
(*                src/io_uring/op.rs  Shared::update                       *)
(*   Wake         src/io_uring/sq.rs  wake (not-polling branch)            *)
(*   K*           the kernel (simulated in the conformance harness)        *)
(***************************************************************************)
EXTENDS Naturals, Integers, Sequences, FiniteSets, TLC

CONSTANTS
    Ops,          \* operation identifiers, a set of small naturals
    Kind,         \* [Ops -> {"single", "twostep", "multi"}]
    SQN,          \* submission queue entries
    CQN,          \* completion queue entries
    Wakers,       \* waker identities, a set of naturals >= 1
    MaxPost,      \* bound on non-final completions per multishot operation
    MaxRestart,   \* bound on interrupted attempts per operation
    Bufs,         \* buffer ids of the read buffer pool (a set of naturals, {} = no pool)
    WithTeardown, \* BOOLEAN: the Ring may be dropped in the middle of a history
    TrackRes,     \* BOOLEAN: model the life cycle of descriptors / pool buffers carried by results
    Dev           \* enabled deviations (known findings), subset of Deviations

\* Kinds: "single" (e.g. write), "twostep" (zero-copy send), "multi" (multishot
\* accept: every result is a descriptor), "fdsingle" (open/accept/socket: the
\* result is a descriptor), "poolsingle" (read into a pool buffer), "poolmulti"
\* (multishot read: every result is a pool buffer).
Deviations == {"WakeParkedOnlyAfterEnter", "LeakFdOfAbandonedOp", "LoseBufOfAbandonedOp",
               "CloseQueuedAfterRingDrop"}

ASSUME Dev \subseteq Deviations

EINTR     == -4
ECANCELED == -125
EIO       == -5
ENOENT    == -2
EALREADY  == -114
Restartable(v) == v \in {EINTR, ECANCELED}

NoWaker == 0

\* Reserved user_data values of bookkeeping completions (cq.rs 168-171).
TagWake   == -1
TagCancel == -2
TagClose  == -3

VARIABLES
    sq,         \* entries published by a10, not yet consumed by the kernel
    inflight,   \* [Ops -> BOOLEAN] the kernel holds the request
    nposted,    \* [Ops -> Nat] completions posted for the current attempt
    cq,         \* completions published, not yet processed by a10
    backlog,    \* completions the kernel could not fit in the ring (NODROP)
    op,         \* [Ops -> operation record]
    blocked,    \* wakers parked until a submission slot is free
    awoken,     \* the "awoken" bit of the polling state
    posted,     \* history: [Ops -> Seq(value)] values posted, current attempt
    delivered,  \* history: [Ops -> Seq(value)] values handed to the caller
    res,        \* [ResVals -> state] descriptor / buffer carried by the result with that value
    bring,      \* the buffer ring: buffer ids offered to the kernel, in order
    vbuf,       \* [ResVals -> buffer id or -1] which buffer the kernel selected for that result
    alive,      \* the Ring has not been dropped yet
    act         \* observation record of the last action (not part of VIEW)

rvars == <<res, bring, vbuf>>
vars == <<sq, inflight, nposted, cq, backlog, op, blocked, awoken, posted, delivered, res, bring, vbuf, alive, act>>
view == <<sq, inflight, nposted, cq, backlog, op, blocked, awoken, posted, delivered, res, bring, vbuf, alive>>

IsMulti(o)   == Kind[o] \in {"multi", "poolmulti"}
IsTwoStep(o) == Kind[o] = "twostep"
FdKind(o)    == TrackRes /\ Kind[o] \in {"multi", "fdsingle"}
PoolKind(o)  == Kind[o] \in {"poolsingle", "poolmulti"}
ResKind(o)   == FdKind(o) \/ PoolKind(o)

\* Unique, recognisable result values: operation * 100 + attempt * 10 + k.
Val(o, att, k) == o * 100 + att * 10 + k

\* Values that can carry a resource.
ResVals == {Val(o, a, k) : o \in {x \in Ops : Kind[x] \in {"multi", "fdsingle", "poolsingle", "poolmulti"}},
                           a \in 0..MaxRestart, k \in 1..(MaxPost + 1)}
OpOfVal(v) == v \div 100
\* Resource states: "none" not created; "kernel" created by a completion that
\* a10 has not handed to the caller yet; "owned" an AsyncFd / ReadBuf held by
\* the caller; "closing" close request published; "closed" / back in the
\* buffer ring; "leaked" nobody will ever release it.

OpEntry(o)     == [t |-> "op", o |-> o]
CancelEntry(o) == [t |-> "cancel", o |-> o]
CloseEntry(v)  == [t |-> "close", o |-> v]

Cqe(ud, val, more, notif) == [ud |-> ud, val |-> val, more |-> more, notif |-> notif]

NoObs == [name |-> "Init", o |-> 0, w |-> 0, k |-> "", ret |-> <<"none">>,
          subm |-> <<>>, wakes |-> {}, frees |-> {}, blocks |-> FALSE, parked |-> FALSE, ch |-> <<>>, cqe |-> <<>>,
          sync |-> FALSE]

Obs(name, o, w, k, ret, subm, wakes, frees) ==
    [name |-> name, o |-> o, w |-> w, k |-> k, ret |-> ret, subm |-> subm,
     wakes |-> wakes, frees |-> frees, blocks |-> FALSE, parked |-> FALSE, ch |-> <<>>, cqe |-> <<>>,
     sync |-> FALSE]

\* Buffer ids in increasing order (the order ReadBufPool::new offers them in).
RECURSIVE SetToSeq(_)
SetToSeq(S) == IF S = {} THEN <<>>
               ELSE LET m == CHOOSE x \in S : \A y \in S : x <= y IN <<m>> \o SetToSeq(S \ {m})

Init ==
    /\ sq = <<>>
    /\ inflight = [o \in Ops |-> FALSE]
    /\ nposted = [o \in Ops |-> 0]
    /\ cq = <<>>
    /\ backlog = <<>>
    /\ op = [o \in Ops |-> [st |-> "new", q |-> <<>>, waker |-> NoWaker, att |-> 0]]
    /\ blocked = <<>>
    /\ awoken = FALSE
    /\ posted = [o \in Ops |-> <<>>]
    /\ delivered = [o \in Ops |-> <<>>]
    /\ res = [v \in ResVals |-> "none"]
    /\ bring = SetToSeq(Bufs)
    /\ vbuf = [v \in ResVals |-> -1]
    /\ alive = TRUE
    /\ act = NoObs

HasRoom == Len(sq) < SQN

\* What happens to the resource of a result nobody will ever take: the
\* contract says it is released; the code as written forgets it.
Abandon(o, v, res0, bring0, vb) ==
    IF ~ResKind(o) \/ v <= 0 \/ v \notin ResVals THEN <<res0, bring0>>
    ELSE IF FdKind(o)
         THEN <<[res0 EXCEPT ![v] = IF "LeakFdOfAbandonedOp" \in Dev THEN "leaked" ELSE "closed"], bring0>>
         ELSE IF "LoseBufOfAbandonedOp" \in Dev
              THEN <<[res0 EXCEPT ![v] = "leaked"], bring0>>
              ELSE <<[res0 EXCEPT ![v] = "closed"], Append(bring0, vb[v])>>

RECURSIVE AbandonAll(_, _, _, _, _)
AbandonAll(o, q, res0, bring0, vb) ==
    IF q = <<>> THEN <<res0, bring0>>
    ELSE LET a == Abandon(o, Head(q), res0, bring0, vb) IN AbandonAll(o, Tail(q), a[1], a[2], vb)

(***************************************************************************)
(* Application actions                                                     *)
(***************************************************************************)

Create(o) ==
    /\ alive /\ UNCHANGED alive
    /\ op[o].st = "new"
    /\ op' = [op EXCEPT ![o].st = "idle"]
    /\ act' = Obs("Create", o, 0, "", <<"none">>, <<>>, {}, {})
    /\ UNCHANGED <<sq, inflight, nposted, cq, backlog, blocked, awoken, posted, delivered, rvars>>

\* First poll, or the re-submission after an interrupted attempt: publish the
\* entry if there is room, else park the waker (op.rs 804-846).
SubmitOrPark(o, w, opRec) ==
    IF HasRoom
    THEN /\ sq' = Append(sq, OpEntry(o))
         /\ op' = [op EXCEPT ![o] = [opRec EXCEPT !.st = "running", !.q = <<>>, !.waker = w]]
         /\ blocked' = blocked
         /\ act' = Obs("Poll", o, w, "", <<"pending">>, <<OpEntry(o)>>, {}, {})
    ELSE /\ sq' = sq
         /\ op' = [op EXCEPT ![o] = opRec]
         /\ blocked' = Append(blocked, w)
         /\ act' = Obs("Poll", o, w, "", <<"pending">>, <<>>, {}, {})

\* The caller receives value v of operation o: it now owns the resource.
Take(o, v) == IF ResKind(o) /\ v > 0 /\ v \in ResVals THEN [res EXCEPT ![v] = "owned"] ELSE res

Poll(o, w) ==
    LET r == op[o] IN
    /\ alive /\ UNCHANGED alive
    /\ r.st \in {"idle", "running", "done"}
    /\ CASE r.st = "idle" ->
              /\ SubmitOrPark(o, w, r)
              /\ UNCHANGED <<posted, delivered, rvars>>
         [] r.st = "running" /\ IsMulti(o) /\ r.q # <<>> ->
              \* Multishot: results are handed out while the operation runs, FIFO.
              /\ op' = [op EXCEPT ![o].q = Tail(r.q)]
              /\ delivered' = [delivered EXCEPT ![o] = Append(@, Head(r.q))]
              /\ res' = Take(o, Head(r.q))
              /\ act' = Obs("Poll", o, w, "",
                            IF Head(r.q) >= 0 THEN <<"ready", Head(r.q)>> ELSE <<"err", Head(r.q)>>,
                            <<>>, {}, {})
              /\ UNCHANGED <<sq, blocked, posted, bring, vbuf>>
         [] r.st = "running" /\ ~(IsMulti(o) /\ r.q # <<>>) ->
              \* Not ready: remember the most recent waker.
              /\ op' = [op EXCEPT ![o].waker = w]
              /\ act' = Obs("Poll", o, w, "", <<"pending">>, <<>>, {}, {})
              /\ UNCHANGED <<sq, blocked, posted, delivered, rvars>>
         [] r.st = "done" /\ r.q = <<>> ->
              \* Only multishot: every result was handed out, end of stream.
              /\ op' = [op EXCEPT ![o].st = "complete"]
              /\ act' = Obs("Poll", o, w, "", <<"end">>, <<>>, {}, {})
              /\ UNCHANGED <<sq, blocked, posted, delivered, rvars>>
         [] r.st = "done" /\ r.q # <<>> ->
              LET v    == Head(r.q)
                  rest == Tail(r.q)
                  st1  == IF IsMulti(o) THEN "done" ELSE "complete"
              IN
              IF v < 0 /\ Restartable(v)
              THEN \* Interrupted: restart transparently with the same resources.
                   /\ SubmitOrPark(o, w, [r EXCEPT !.st = "idle", !.q = rest, !.att = @ + 1])
                   /\ posted' = [posted EXCEPT ![o] = IF IsMulti(o) THEN @ ELSE <<>>]
                   /\ UNCHANGED <<delivered, rvars>>
              ELSE /\ op' = [op EXCEPT ![o].st = st1, ![o].q = rest]
                   /\ delivered' = [delivered EXCEPT ![o] = Append(@, v)]
                   /\ res' = Take(o, v)
                   /\ act' = Obs("Poll", o, w, "",
                                 IF v >= 0 THEN <<"ready", v>> ELSE <<"err", v>>, <<>>, {}, {})
                   /\ UNCHANGED <<sq, blocked, posted, bring, vbuf>>
    /\ UNCHANGED <<inflight, nposted, cq, backlog, awoken>>

\* Dropping the future (op.rs 182-205).
Drop(o) ==
    LET r == op[o] IN
    /\ UNCHANGED alive
    /\ r.st \in {"idle", "running", "done", "complete"}
    /\ IF r.st = "running"
       THEN /\ op' = [op EXCEPT ![o].st = "dropped", ![o].waker = NoWaker]
            /\ IF HasRoom
               THEN /\ sq' = Append(sq, CancelEntry(o))
                    /\ act' = Obs("Drop", o, 0, "", <<"none">>, <<CancelEntry(o)>>, {}, {})
               ELSE /\ sq' = sq
                    /\ act' = Obs("Drop", o, 0, "", <<"none">>, <<>>, {}, {})
       ELSE /\ op' = [op EXCEPT ![o].st = "freed", ![o].waker = NoWaker, ![o].q = <<>>]
            /\ sq' = sq
            /\ act' = Obs("Drop", o, 0, "", <<"none">>, <<>>, {}, {o})
    \* Results that were never taken carry resources nobody will take any more.
    /\ LET ab == AbandonAll(o, IF r.st = "running" THEN <<>> ELSE r.q, res, bring, vbuf) IN
          /\ res' = ab[1] /\ bring' = ab[2]
    /\ UNCHANGED <<inflight, nposted, cq, backlog, blocked, awoken, posted, delivered, vbuf>>

\* Dropping an AsyncFd: queue a close, or close synchronously if the queue is
\* full (io_uring/fd.rs 213-233).  Dropping a ReadBuf: give the buffer back
\* (io_uring/io.rs 166-216).
DropRes(v) ==
    /\ TrackRes \/ Bufs # {}
    /\ UNCHANGED alive
    /\ res[v] = "owned"
    /\ IF FdKind(OpOfVal(v))
       THEN /\ bring' = bring
            /\ IF ~alive /\ "CloseQueuedAfterRingDrop" \notin Dev
               THEN \* Contract: with the Ring gone nobody will submit a queued close.
                    /\ sq' = sq
                    /\ res' = [res EXCEPT ![v] = "closed"]
                    /\ act' = [Obs("DropRes", v, 0, "fd", <<"none">>, <<>>, {}, {}) EXCEPT !.sync = TRUE]
               ELSE IF HasRoom
               THEN /\ sq' = Append(sq, CloseEntry(v))
                    \* As written: queued, and if the Ring is gone never submitted.
                    /\ res' = [res EXCEPT ![v] = IF alive THEN "closing" ELSE "leaked"]
                    /\ act' = Obs("DropRes", v, 0, "fd", <<"none">>, <<CloseEntry(v)>>, {}, {})
               ELSE /\ sq' = sq
                    /\ res' = [res EXCEPT ![v] = "closed"]
                    /\ act' = [Obs("DropRes", v, 0, "fd", <<"none">>, <<>>, {}, {}) EXCEPT !.sync = TRUE]
       ELSE /\ sq' = sq
            /\ res' = [res EXCEPT ![v] = "closed"]
            /\ bring' = Append(bring, vbuf[v])
            /\ act' = Obs("DropRes", v, 0, "buf", <<"none">>, <<>>, {}, {})
    /\ UNCHANGED <<inflight, nposted, cq, backlog, op, blocked, awoken, posted, delivered, vbuf>>

\* SubmissionQueue::wake while no poll is in progress: only sets the bit.
Wake ==
    /\ alive /\ UNCHANGED alive
    /\ ~awoken
    /\ awoken' = TRUE
    /\ act' = Obs("Wake", 0, 0, "", <<"none">>, <<>>, {}, {})
    /\ UNCHANGED <<sq, inflight, nposted, cq, backlog, op, blocked, posted, delivered, rvars>>

(***************************************************************************)
(* Kernel                                                                  *)
(***************************************************************************)

\* Publish a completion: into the ring if there is room and nothing is queued
\* in front of it, else into the backlog (IORING_FEAT_NODROP).
Publish(c, cq0, bl0) ==
    IF bl0 = <<>> /\ Len(cq0) < CQN THEN <<Append(cq0, c), bl0>> ELSE <<cq0, Append(bl0, c)>>

RECURSIVE Flush(_, _)
Flush(cq0, bl0) ==
    IF bl0 # <<>> /\ Len(cq0) < CQN THEN Flush(Append(cq0, Head(bl0)), Tail(bl0)) ELSE <<cq0, bl0>>

\* Completion kinds the kernel may post for an in-flight request.
PostKinds(o) ==
    LET interrupted == IF op[o].att < MaxRestart THEN {"eintr", "ecanceled"} ELSE {} IN
    CASE Kind[o] \in {"single", "fdsingle"} -> {"ok", "err"} \cup interrupted
      [] Kind[o] = "poolsingle" -> (IF bring # <<>> THEN {"ok"} ELSE {}) \cup {"err"} \cup interrupted
      [] Kind[o] = "poolmulti" -> (IF nposted[o] < MaxPost /\ bring # <<>> THEN {"more"} ELSE {})
                                  \cup (IF bring # <<>> THEN {"ok"} ELSE {}) \cup {"err"} \cup interrupted
      [] Kind[o] = "twostep" -> IF nposted[o] = 0
                                THEN {"first", "err"} \cup interrupted
                                     \cup (IF op[o].att < MaxRestart THEN {"first_eintr"} ELSE {})
                                ELSE {"notif"}
      [] Kind[o] = "multi"   -> (IF nposted[o] < MaxPost THEN {"more"} ELSE {})
                                \cup {"ok", "err"} \cup interrupted

KindCqe(o, k) ==
    LET v == Val(o, op[o].att, nposted[o] + 1) IN
    CASE k = "ok"          -> Cqe(o, v, FALSE, FALSE)
      [] k = "more"        -> Cqe(o, v, TRUE, FALSE)
      [] k = "first"       -> Cqe(o, v, TRUE, FALSE)
      [] k = "first_eintr" -> Cqe(o, EINTR, TRUE, FALSE)
      [] k = "notif"       -> Cqe(o, 0, FALSE, TRUE)
      [] k = "err"         -> Cqe(o, EIO, FALSE, FALSE)
      [] k = "eintr"       -> Cqe(o, EINTR, FALSE, FALSE)
      [] k = "ecanceled"   -> Cqe(o, ECANCELED, FALSE, FALSE)

CqeObs(c) == <<c.ud, c.val, IF c.more THEN 1 ELSE 0, IF c.notif THEN 1 ELSE 0>>

\* A completion with a positive value creates the resource it carries: a new
\* descriptor, or the buffer at the head of the buffer ring.
Creates(o, c) == ResKind(o) /\ c.val > 0 /\ ~c.notif /\ c.val \in ResVals
PostRes(o, c, res0, bring0, vbuf0) ==
    IF ~Creates(o, c) THEN <<res0, bring0, vbuf0>>
    ELSE IF PoolKind(o)
         THEN <<[res0 EXCEPT ![c.val] = "kernel"], Tail(bring0), [vbuf0 EXCEPT ![c.val] = Head(bring0)]>>
         ELSE <<[res0 EXCEPT ![c.val] = "kernel"], bring0, vbuf0>>

KPost(o, k) ==
    /\ alive /\ UNCHANGED alive
    /\ inflight[o]
    /\ k \in PostKinds(o)
    /\ LET c  == KindCqe(o, k)
           pb == Publish(c, cq, backlog)
       IN /\ cq' = pb[1]
          /\ backlog' = pb[2]
          /\ inflight' = [inflight EXCEPT ![o] = c.more]
          /\ nposted' = [nposted EXCEPT ![o] = IF c.more THEN @ + 1 ELSE 0]
          /\ posted' = [posted EXCEPT ![o] = IF c.notif THEN @ ELSE Append(@, c.val)]
          /\ LET pr == PostRes(o, c, res, bring, vbuf) IN
                /\ res' = pr[1] /\ bring' = pr[2] /\ vbuf' = pr[3]
    /\ act' = [Obs("KPost", o, 0, k, <<"none">>, <<>>, {}, {}) EXCEPT !.cqe = CqeObs(KindCqe(o, k))]
    /\ UNCHANGED <<sq, op, blocked, awoken, delivered>>

\* The kernel consumes the submission queue front to back.  `ch` decides, per
\* position, whether an asynchronous cancel that finds its target wins.
\* State threaded through: <<inflight, nposted, cq, backlog, posted, res>>.
RECURSIVE Consume(_, _, _, _)
Consume(entries, i, ch, s) ==
    IF entries = <<>> THEN s
    ELSE LET e == Head(entries)
             inf == s[1] np == s[2] cq0 == s[3] bl0 == s[4] po == s[5] rs == s[6]
         IN
         IF e.t = "op"
         THEN Consume(Tail(entries), i + 1, ch, <<[inf EXCEPT ![e.o] = TRUE], np, cq0, bl0, po, rs>>)
         ELSE IF e.t = "close"
         THEN \* background close: succeeds silently (CQE_SKIP_SUCCESS)
              Consume(Tail(entries), i + 1, ch, <<inf, np, cq0, bl0, po, [rs EXCEPT ![e.o] = "closed"]>>)
         ELSE \* cancel
           IF inf[e.o]
           THEN IF ch[i]
                THEN \* found and cancelled: the target completes with -ECANCELED,
                     \* the cancel itself succeeds silently (CQE_SKIP_SUCCESS).
                     LET pb == Publish(Cqe(e.o, ECANCELED, FALSE, FALSE), cq0, bl0) IN
                     Consume(Tail(entries), i + 1, ch,
                             <<[inf EXCEPT ![e.o] = FALSE], [np EXCEPT ![e.o] = 0], pb[1], pb[2],
                               [po EXCEPT ![e.o] = Append(@, ECANCELED)], rs>>)
                ELSE LET pb == Publish(Cqe(TagCancel, EALREADY, FALSE, FALSE), cq0, bl0) IN
                     Consume(Tail(entries), i + 1, ch, <<inf, np, pb[1], pb[2], po, rs>>)
           ELSE LET pb == Publish(Cqe(TagCancel, ENOENT, FALSE, FALSE), cq0, bl0) IN
                Consume(Tail(entries), i + 1, ch, <<inf, np, pb[1], pb[2], po, rs>>)

\* a10 processes the completions in the ring in order (cq.rs 78-93, 179-240;
\* op.rs 268-312).  State threaded through: <<op, wakes, frees, res, bring>>.
Store(o, q, c) ==
    IF IsMulti(o) THEN Append(q, c.val)
    ELSE IF c.notif THEN q ELSE <<c.val>>

RECURSIVE Process(_, _, _)
Process(cs, s, vb) ==
    IF cs = <<>> THEN s
    ELSE LET c == Head(cs) ops == s[1] wakes == s[2] frees == s[3] rs == s[4] br == s[5] IN
         IF c.ud \notin Ops
         THEN Process(Tail(cs), s, vb)                    \* bookkeeping completion: ignored
         ELSE LET o == c.ud r == ops[o] IN
              IF r.st \in {"running", "done"}
              THEN LET wakeNow == (~c.more \/ IsMulti(o)) /\ r.waker # NoWaker
                       r2 == [r EXCEPT !.q = Store(o, r.q, c),
                                       !.st = IF c.more THEN r.st ELSE "done",
                                       !.waker = IF wakeNow THEN NoWaker ELSE r.waker]
                   IN Process(Tail(cs), <<[ops EXCEPT ![o] = r2],
                                          IF wakeNow THEN wakes \cup {r.waker} ELSE wakes, frees, rs, br>>, vb)
              ELSE IF r.st = "dropped"
              THEN \* The result of an abandoned operation is never looked at.
                   LET ab == IF c.notif THEN <<rs, br>> ELSE Abandon(o, c.val, rs, br, vb) IN
                   IF c.more
                   THEN Process(Tail(cs), <<ops, wakes, frees, ab[1], ab[2]>>, vb)
                   ELSE Process(Tail(cs), <<[ops EXCEPT ![o].st = "freed", ![o].q = <<>>],
                                            wakes, frees \cup {o}, ab[1], ab[2]>>, vb)
              ELSE Process(Tail(cs), s, vb)  \* unreachable by construction (see TypeOK / RoutedOK)

SeqToSet(s) == {s[i] : i \in 1..Len(s)}

\* Ring::poll.  tmo = "zero": Some(Duration::ZERO); tmo = "none": no timeout.
\* `ch`: outcome of each cancel request consumed; `k`: what the kernel does
\* while the call is blocked ("" = nothing happens).
RingPoll(tmo, ch, blockOp, blockKind) ==
    /\ alive /\ UNCHANGED alive
    /\ IF cq # <<>>
           THEN \* Completions are visible: no system call, just process them.
                /\ blockOp = 0 /\ blockKind = "" /\ ch = [i \in 1..Len(sq) |-> TRUE]
                /\ LET pr == Process(cq, <<op, {}, {}, res, bring>>, vbuf) IN
                   /\ op' = pr[1] /\ res' = pr[4] /\ bring' = pr[5]
                   /\ act' = [Obs("RingPoll", 0, 0, tmo, <<"ok">>, <<>>, pr[2], pr[3]) EXCEPT !.ch = ch]
                /\ cq' = <<>>
                /\ UNCHANGED <<sq, inflight, nposted, backlog, blocked, awoken, posted, delivered, vbuf>>
           ELSE \* io_uring_enter: the kernel consumes every published entry ...
                LET c1 == Consume(sq, 1, ch, <<inflight, nposted, cq, backlog, posted, res>>)
                    fl == Flush(c1[3], c1[4])
                    consumed == Len(sq)
                    quick == tmo = "zero" \/ awoken          \* effective timeout is zero
                    empty == fl[1] = <<>>
                    parkedRoom == blocked # <<>>             \* room is available now: queue is empty
                IN
                /\ IF ~empty \/ quick
                   THEN \* ... and the call returns at once.
                        /\ blockOp = 0 /\ blockKind = ""
                        \* Parked futures are woken whenever the system call returns, also when it
                        \* timed out (before /repo commit 77d0332 the code woke them only after Ok(n);
                        \* this model had copied that, which hid the defect ParkMT.tla then exposed).
                        /\ LET woke == TRUE
                               pr == Process(fl[1], <<op, IF woke THEN SeqToSet(blocked) ELSE {}, {}, c1[6], bring>>, vbuf)
                           IN /\ op' = pr[1] /\ res' = pr[4] /\ bring' = pr[5] /\ vbuf' = vbuf
                              /\ blocked' = IF woke THEN <<>> ELSE blocked
                              /\ act' = [Obs("RingPoll", 0, 0, tmo, <<"ok">>, <<>>, pr[2], pr[3]) EXCEPT !.ch = ch]
                        /\ inflight' = c1[1] /\ nposted' = c1[2] /\ cq' = <<>> /\ backlog' = fl[2]
                        /\ posted' = c1[5]
                   ELSE \* ... and the call blocks until the kernel posts something.
                        IF parkedRoom /\ "WakeParkedOnlyAfterEnter" \notin Dev
                        THEN \* Contract: parked futures are woken once room is available and
                             \* the call does not keep the caller blocked.
                             /\ blockOp = 0 /\ blockKind = ""
                             /\ op' = op /\ blocked' = <<>> /\ res' = c1[6] /\ bring' = bring /\ vbuf' = vbuf
                             /\ act' = [Obs("RingPoll", 0, 0, tmo, <<"ok">>, <<>>, SeqToSet(blocked), {}) EXCEPT !.ch = ch]
                             /\ inflight' = c1[1] /\ nposted' = c1[2] /\ cq' = <<>> /\ backlog' = fl[2]
                             /\ posted' = c1[5]
                        ELSE IF blockOp = 0
                        THEN \* Nothing ever completes: the call never returns.
                             /\ blockKind = ""
                             /\ op' = op /\ blocked' = blocked /\ res' = c1[6] /\ bring' = bring /\ vbuf' = vbuf
                             /\ act' = [Obs("RingPoll", 0, 0, tmo, <<"blocked_forever">>, <<>>, {}, {})
                                          EXCEPT !.blocks = TRUE, !.parked = parkedRoom, !.ch = ch]
                             /\ inflight' = c1[1] /\ nposted' = c1[2] /\ cq' = <<>> /\ backlog' = fl[2]
                             /\ posted' = c1[5]
                        ELSE \* The kernel posts one completion, which ends the wait.
                             /\ c1[1][blockOp]
                             /\ blockKind \in PostKinds(blockOp) \* evaluated on the pre-state: att unchanged by Consume
                             /\ LET c  == [KindCqe(blockOp, blockKind) EXCEPT
                                             !.val = IF blockKind \in {"ok", "more", "first"}
                                                     THEN Val(blockOp, op[blockOp].att, c1[2][blockOp] + 1) ELSE @]
                                    px == PostRes(blockOp, c, c1[6], bring, vbuf)
                                    pr == Process(<<c>>, <<op, SeqToSet(blocked), {}, px[1], px[2]>>, px[3])
                                IN /\ op' = pr[1] /\ res' = pr[4] /\ bring' = pr[5] /\ vbuf' = px[3]
                                   /\ blocked' = <<>>
                                   /\ act' = [Obs("RingPoll", blockOp, 0, tmo, <<"ok">>, <<>>, pr[2], pr[3])
                                                EXCEPT !.blocks = TRUE, !.parked = parkedRoom, !.w = 0,
                                                       !.k = tmo \o "/" \o blockKind, !.ch = ch, !.cqe = CqeObs(c)]
                                   /\ inflight' = [c1[1] EXCEPT ![blockOp] = c.more]
                                   /\ nposted' = [c1[2] EXCEPT ![blockOp] = IF c.more THEN @ + 1 ELSE 0]
                                   /\ posted' = [c1[5] EXCEPT ![blockOp] = IF c.notif THEN @ ELSE Append(@, c.val)]
                             /\ cq' = <<>> /\ backlog' = fl[2]
                /\ sq' = <<>>
                /\ awoken' = FALSE
                /\ UNCHANGED delivered

\* Dropping the Ring (lib.rs 213-217, cq.rs Completions::drop): submit what is
\* queued, cancel everything still in flight, process every completion left.
RECURSIVE CancelAll(_, _)
CancelAll(os, s) ==  \* s = <<inflight, nposted, cq, backlog, posted>>
    IF os = <<>> THEN s
    ELSE LET o == Head(os) IN
         IF s[1][o]
         THEN LET pb == Publish(Cqe(o, ECANCELED, FALSE, FALSE), s[3], s[4]) IN
              CancelAll(Tail(os), <<[s[1] EXCEPT ![o] = FALSE], [s[2] EXCEPT ![o] = 0], pb[1], pb[2],
                                    [s[5] EXCEPT ![o] = Append(@, ECANCELED)]>>)
         ELSE CancelAll(Tail(os), s)

DropRing(ch) ==
    /\ alive
    /\ alive' = FALSE
    /\ LET c1 == Consume(sq, 1, ch, <<inflight, nposted, cq, backlog, posted, res>>)
           c2 == CancelAll(SetToSeq(Ops), <<c1[1], c1[2], c1[3], c1[4], c1[5]>>)
           \* Every parked waker is woken by the flush (enter returned Ok).
           pr == Process(c2[3] \o c2[4], <<op, SeqToSet(blocked), {}, c1[6], bring>>, vbuf)
       IN /\ inflight' = c2[1] /\ nposted' = c2[2] /\ posted' = c2[5]
          /\ cq' = <<>> /\ backlog' = <<>>
          /\ op' = pr[1] /\ res' = pr[4] /\ bring' = pr[5] /\ vbuf' = vbuf
          /\ blocked' = <<>>
          /\ act' = [Obs("DropRing", 0, 0, "", <<"none">>, <<>>, pr[2], pr[3]) EXCEPT !.ch = ch]
    /\ sq' = <<>>
    /\ awoken' = FALSE
    /\ UNCHANGED delivered

CancelChoices == [1..Len(sq) -> BOOLEAN]
\* Only positions holding a cancel whose target may be in flight matter; fix the
\* others to TRUE to avoid duplicate transitions.
RelevantChoice(ch) == \A i \in 1..Len(sq) : sq[i].t = "op" => ch[i]

Next ==
    \/ \E o \in Ops : Create(o)
    \/ \E o \in Ops, w \in Wakers : Poll(o, w)
    \/ \E o \in Ops : Drop(o)
    \/ \E v \in ResVals : DropRes(v)
    \/ Wake
    \/ \E o \in Ops, k \in {"ok", "more", "first", "first_eintr", "notif", "err", "eintr", "ecanceled"} : KPost(o, k)
    \/ \E ch \in CancelChoices : RelevantChoice(ch) /\ WithTeardown /\ DropRing(ch)
    \/ \E tmo \in {"zero", "none"}, ch \in CancelChoices :
         /\ RelevantChoice(ch)
         /\ \/ RingPoll(tmo, ch, 0, "")
            \/ \E o \in Ops, k \in {"ok", "more", "first", "first_eintr", "notif", "err", "eintr", "ecanceled"} :
                 RingPoll(tmo, ch, o, k)

Spec == Init /\ [][Next]_vars

(***************************************************************************)
(* Properties                                                              *)
(***************************************************************************)

Statuses == {"new", "idle", "running", "done", "dropped", "complete", "freed"}

TypeOK ==
    /\ \A o \in Ops : op[o].st \in Statuses /\ op[o].waker \in Wakers \cup {NoWaker}
    /\ Len(sq) <= SQN
    /\ Len(cq) <= CQN

\* The kernel may touch an operation's memory from the moment its entry is
\* published until its final completion has been posted.
KernelMayAccess(o) == inflight[o] \/ \E i \in 1..Len(sq) : sq[i] = OpEntry(o)

\* C01: while the kernel may access it, the operation state (and the resources
\* boxed with it) is neither freed nor handed back to the caller.
MemSafe == \A o \in Ops : KernelMayAccess(o) => op[o].st \in {"running", "dropped"}

\* Completions of o still travelling towards a10.
Pending(o) == \E i \in 1..Len(cq) : cq[i].ud = o
PendingB(o) == \E i \in 1..Len(backlog) : backlog[i].ud = o

\* C01/C06: a completion can only ever arrive for an operation whose state exists.
RoutedOK == \A o \in Ops : (Pending(o) \/ PendingB(o)) => op[o].st \in {"running", "dropped"}

IsPrefix(s, t) == Len(s) <= Len(t) /\ \A i \in 1..Len(s) : s[i] = t[i]

\* C02: what the caller received is what the kernel posted for that operation.
DeliveredOK ==
    \A o \in Ops :
       IF IsMulti(o)
       THEN \* every delivered value was posted for o, in order, none twice
            \A i \in 1..Len(delivered[o]) : delivered[o][i] \div 100 = o \/ delivered[o][i] < 0
       ELSE /\ Len(delivered[o]) <= 1
            /\ \A i \in 1..Len(delivered[o]) : delivered[o][i] \div 100 = o \/ delivered[o][i] < 0

\* C02 (single/twostep): delivered only once the final completion was processed,
\* and it is the first (non-notification) value of the last attempt.
DeliveredFinal ==
    \A o \in Ops : ~IsMulti(o) /\ delivered[o] # <<>> =>
        /\ ~inflight[o]
        /\ posted[o] # <<>> /\ delivered[o][1] = posted[o][1]

\* C02 (multi): delivered is a prefix of what was posted over all attempts,
\* minus the interruptions that were absorbed by a restart.
\* (posted[o] is not reset for multishot restarts.)
NonRestart(s) == SelectSeq(s, LAMBDA v : ~(v < 0 /\ Restartable(v)))
MultiPrefix ==
    \A o \in Ops : IsMulti(o) => IsPrefix(delivered[o], NonRestart(posted[o]))
                                 \/ \* a cancel that raced with the drop may be the last value posted
                                    op[o].st \in {"dropped", "freed"}

\* C09: an interruption never reaches the caller.
NeverSurfaces == \A o \in Ops : \A i \in 1..Len(delivered[o]) : ~Restartable(delivered[o][i])
                                                               \/ delivered[o][i] >= 0

\* C03 (safety form, single threaded): after any action, an operation whose
\* result is ready has no stale waker stored -- the waker was taken and invoked
\* by the RingPoll that made it ready.
Ready(o) == \/ op[o].st = "done"
            \/ op[o].st = "running" /\ IsMulti(o) /\ op[o].q # <<>>
NoLostWake == \A o \in Ops : Ready(o) => op[o].waker = NoWaker

\* C03 (second sentence): a RingPoll never leaves the caller blocked while a
\* parked future could be submitted.
NoParkedBlock == ~(act.ret = <<"blocked_forever">> /\ act.parked)

\* C06: reclamation happens exactly once, and only when nothing can arrive any more.
FreedIsFinal == \A o \in Ops : op[o].st = "freed" => ~inflight[o] /\ ~Pending(o) /\ ~PendingB(o)

\* C06: a cancel request is only ever published by dropping a running operation.
CancelOnlyDropped == \A i \in 1..Len(sq) : sq[i].t = "cancel" => op[sq[i].o].st \in {"dropped", "freed"}

\* C06 no leak at quiescence: a dropped operation whose request the kernel has
\* finished with and whose completions were all processed has been freed.
NoLeakAtQuiescence ==
    \A o \in Ops : op[o].st = "dropped" =>
        \/ KernelMayAccess(o) \/ Pending(o) \/ PendingB(o)

\* C12: once the Ring is gone nothing is left in flight, every abandoned
\* operation has been reclaimed and no close request is waiting to be submitted.
RingGoneClean ==
    ~alive => /\ \A o \in Ops : ~inflight[o] /\ op[o].st # "dropped"
              /\ cq = <<>> /\ backlog = <<>>
              /\ \A v \in ResVals : res[v] # "closing"

\* C07: every descriptor the kernel returned ends up owned by exactly one
\* AsyncFd or is closed; never forgotten.  C08: likewise every pool buffer.
NoResLeak == \A v \in ResVals : res[v] # "leaked"

\* C08: each buffer is either offered to the kernel or selected/owned through
\* exactly one result, never both and never twice.
BufHolders(b) == {v \in ResVals : vbuf[v] = b /\ res[v] \in {"kernel", "owned", "leaked"}}
InRing(b) == \E i \in 1..Len(bring) : bring[i] = b
BufPartition ==
    \A b \in Bufs :
        /\ Cardinality(BufHolders(b)) + (IF InRing(b) THEN 1 ELSE 0) = 1
        /\ Cardinality({i \in 1..Len(bring) : bring[i] = b}) <= 1

\* C08: once no ReadBuf is alive and no operation can still deliver one, the
\* kernel can use every buffer of the pool again.
AllBuffersBack ==
    (\A v \in ResVals : res[v] \notin {"kernel", "owned"}) => \A b \in Bufs : InRing(b)

\* C07: a close request is published only for a descriptor that is owned, once.
CloseOnce == \A v \in ResVals : Cardinality({i \in 1..Len(sq) : sq[i] = CloseEntry(v)}) <= 1
                                  /\ ((\E i \in 1..Len(sq) : sq[i] = CloseEntry(v)) => res[v] = "closing")

=============================================================================

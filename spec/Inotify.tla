------------------------------- MODULE Inotify -------------------------------
(***************************************************************************)
(* Decoding of inotify event streams by Events::poll_next                  *)
(* (src/inotify/mod.rs 155-259, src/fs/notify.rs).                          *)
(*                                                                         *)
(* The kernel delivers a sequence of records [wd, kind, name, pad] cut     *)
(* into reads of whole records; the stream ends with an empty read, a read *)
(* error, or simply has nothing more for now.  The decoder is the state    *)
(* machine Reading -> Processing(buffer, position) -> Reading ... -> Done  *)
(* with the table of watched paths.  Events handed to the consumer are     *)
(* references into the read buffer of a given generation; re-reading       *)
(* clears and re-uses that buffer, dropping the iterator frees it.         *)
(***************************************************************************)
EXTENDS Naturals, Integers, Sequences, FiniteSets, TLC

CONSTANTS MaxRecs,      \* records per history
          Wds,          \* watch descriptors appearing in records; KnownWds are watched
          KnownWds,
          RecKinds,     \* subset of {"plain", "isdir", "ignored", "overflow"}
          NameLens,     \* name lengths; the kernel pads every name with NULs to a multiple of 16
          Dev           \* enabled deviations (known findings)

Deviations == {"ReuseBufferWhileEventHeld"}

\* fs/notify/inotify: len = roundup(strlen(name) + 1, sizeof(struct inotify_event)),
\* and 0 when there is no name; so records stay 16-byte aligned.
PadOf(n) == IF n = 0 THEN 0 ELSE (((n + 1 + 15) \div 16) * 16) - n
Records == {[wd |-> w, kind |-> k, n |-> n, pad |-> PadOf(n)] : w \in Wds, k \in RecKinds \ {"overflow"}, n \in NameLens}
             \cup (IF "overflow" \in RecKinds THEN {[wd |-> -1, kind |-> "overflow", n |-> 0, pad |-> 0]} ELSE {})

VARIABLES
    recs,      \* the whole history of records (input)
    cuts,      \* sizes of the successive reads (input), sum = Len(recs)
    final,     \* how the stream ends: "eof" | "error" | "quiet"
    retain,    \* the consumer keeps every event it was handed (input)
    st,        \* "reading" | "processing" | "done"
    batch,     \* index of the read being processed
    pos,       \* records of the current read already walked
    done,      \* records of earlier reads
    watching,  \* watch descriptors still in the table
    yields,    \* history: what was handed to the consumer
    gen,       \* generation of the read buffer contents
    alive,     \* the iterator (and its buffer) exists
    held       \* events the consumer still holds: <<index into yields, generation>>

vars == <<recs, cuts, final, retain, st, batch, pos, done, watching, yields, gen, alive, held>>

RECURSIVE Sum(_)
Sum(s) == IF s = <<>> THEN 0 ELSE Head(s) + Sum(Tail(s))

Cuts(n) == {c \in UNION {[1..k -> 1..n] : k \in 0..n} : Sum(c) = n}

Init ==
    /\ recs \in UNION {[1..k -> Records] : k \in 0..MaxRecs}
    /\ cuts \in Cuts(Len(recs))
    /\ final \in {"eof", "error", "quiet"}
    /\ retain \in BOOLEAN
    /\ st = "reading" /\ batch = 0 /\ pos = 0 /\ done = 0
    /\ watching = KnownWds
    /\ yields = <<>>
    /\ gen = 0 /\ alive = TRUE /\ held = {}

Cur == recs[done + pos + 1]

\* The user-visible event for a record, given the current watch table.
EventOf(r) == [wd |-> r.wd, kind |-> r.kind, n |-> r.n, known |-> r.wd \in watching]

\* A read completes: the next batch of records, or the end of the stream.
ReadDone ==
    /\ st = "reading"
    /\ IF batch < Len(cuts)
       THEN /\ batch' = batch + 1 /\ st' = "processing" /\ pos' = 0
            /\ gen' = gen + 1            \* new contents in the buffer
            /\ UNCHANGED <<yields, alive, held, done>>
       ELSE /\ final \in {"eof", "error"}
            /\ st' = "done"
            /\ yields' = IF final = "error" THEN Append(yields, [wd |-> 0, kind |-> "error", n |-> 0, known |-> FALSE]) ELSE yields
            /\ UNCHANGED <<batch, pos, gen, alive, held, done>>
    /\ UNCHANGED <<recs, cuts, final, retain, watching>>

\* Walk one record of the batch.
Step ==
    /\ st = "processing" /\ pos < cuts[batch]
    /\ pos' = pos + 1
    /\ LET r == Cur IN
       IF r.kind = "ignored"
       THEN /\ watching' = watching \ {r.wd} /\ UNCHANGED <<yields, held>>
       ELSE IF r.kind = "overflow"
       THEN UNCHANGED <<watching, yields, held>>
       ELSE /\ yields' = Append(yields, EventOf(r))
            /\ held' = IF retain THEN held \cup {<<Len(yields) + 1, gen>>} ELSE held
            /\ UNCHANGED watching
    /\ UNCHANGED <<recs, cuts, final, retain, st, batch, done, gen, alive>>

\* The batch is exhausted: the buffer is cleared and handed to the next read.
ClearAndReread ==
    /\ st = "processing" /\ pos = cuts[batch]
    /\ st' = "reading" /\ done' = done + pos /\ pos' = 0
    \* Contract: an event cannot be held across the call that re-uses its buffer.
    /\ held' = IF "ReuseBufferWhileEventHeld" \in Dev THEN held ELSE {}
    /\ UNCHANGED <<recs, cuts, final, retain, batch, watching, yields, gen, alive>>

\* The consumer drops the iterator (possible at any time).
DropIterator ==
    /\ alive
    /\ (st = "done" \/ (st = "reading" /\ batch = Len(cuts) /\ final = "quiet"))
    /\ alive' = FALSE
    /\ held' = IF "ReuseBufferWhileEventHeld" \in Dev THEN held ELSE {}
    /\ UNCHANGED <<recs, cuts, final, retain, st, batch, pos, done, watching, yields, gen>>

Terminal == ~alive

Next == ReadDone \/ Step \/ ClearAndReread \/ DropIterator \/ (Terminal /\ UNCHANGED vars)

Spec == Init /\ [][Next]_vars

\* ---- properties -------------------------------------------------------------
\* C17: exactly the user-visible records, in order.
Visible(r) == r.kind \notin {"ignored", "overflow"}
YieldedSoFar == SelectSeq(SubSeq(recs, 1, done + pos), Visible)
DecodedExactly ==
    LET ys == SelectSeq(yields, LAMBDA y : y.kind # "error") IN
    /\ Len(ys) = Len(YieldedSoFar)
    /\ \A i \in 1..Len(ys) : ys[i].wd = YieldedSoFar[i].wd /\ ys[i].kind = YieldedSoFar[i].kind /\ ys[i].n = YieldedSoFar[i].n

\* C17: a watch is forgotten exactly when the kernel said so.
WatchTable ==
    watching = KnownWds \ {recs[i].wd : i \in {j \in 1..(done + pos) : recs[j].kind = "ignored"}}

\* C17: every event the consumer still holds refers to unchanged, allocated
\* buffer contents.  (As implemented the buffer is re-used for the next read
\* and freed with the iterator while `&'w Event`s may still be held: deviation
\* ReuseBufferWhileEventHeld.)
HeldInvalid == \E h \in held : h[2] # gen \/ ~alive
HeldValid == ~HeldInvalid

=============================================================================

------------------------------ MODULE MC_Ring ------------------------------
EXTENDS Ring, Json, TLCExt

CONSTANT MaxBlocked

\* Model values for the small configurations.
K_sm == (1 :> "single" @@ 2 :> "multi")
K_st == (1 :> "single" @@ 2 :> "twostep")
K_smt == (1 :> "single" @@ 2 :> "multi" @@ 3 :> "twostep")
K_fd == (1 :> "fdsingle" @@ 2 :> "multi")
K_pool == (1 :> "poolsingle" @@ 2 :> "poolmulti")
K_pm == (2 :> "poolmulti")

\* View without the history variables: the values an operation will receive are
\* a function of (operation, attempt, position), so this determines the future.
viewNH == <<sq, inflight, nposted, cq, backlog, op, blocked, awoken, res, bring, vbuf, alive>>

\* Compact, injective text encoding of viewNH (node identity in the export).
RECURSIVE Cat(_, _)
Cat(f(_), s) == IF s = <<>> THEN "" ELSE f(Head(s)) \o Cat(f, Tail(s))
B(b) == IF b THEN "1" ELSE "0"
EncEntry(e) == (IF e.t = "op" THEN "o" ELSE IF e.t = "close" THEN "x" ELSE "c") \o ToString(e.o)
EncCqe(c) == ToString(c.ud) \o ":" \o ToString(c.val) \o B(c.more) \o B(c.notif) \o ";"
EncInt(i) == ToString(i) \o ","
EncOp(o) == LET r == op[o] IN
    CASE r.st = "new" -> "n" [] r.st = "idle" -> "i" [] r.st = "running" -> "r" [] r.st = "done" -> "d"
      [] r.st = "dropped" -> "x" [] r.st = "complete" -> "c" [] r.st = "freed" -> "f"
EncOpFull(o) == EncOp(o) \o ToString(op[o].waker) \o ToString(op[o].att) \o B(inflight[o])
                \o ToString(nposted[o]) \o "[" \o Cat(EncInt, op[o].q) \o "]"
OpSeq == CHOOSE s \in [1..Cardinality(Ops) -> Ops] : \A i, j \in 1..Cardinality(Ops) : i < j => s[i] < s[j]
Enc == Cat(EncEntry, sq) \o "|" \o Cat(EncCqe, cq) \o "|" \o Cat(EncCqe, backlog) \o "|"
       \o Cat(EncOpFull, OpSeq) \o "|" \o Cat(EncInt, blocked) \o "|" \o B(awoken)
       \o "|" \o ToString(res) \o ToString(bring) \o ToString(vbuf) \o B(alive)

\* Export of the labelled transition graph: one line per explored transition.
OpenSet == {v \in ResVals : FdKind(OpOfVal(v)) /\ res[v] \in {"kernel", "owned", "closing", "leaked"}}
Snapshot(a) == [name |-> a.name, o |-> a.o, w |-> a.w, k |-> a.k, ret |-> a.ret, subm |-> a.subm,
                wakes |-> a.wakes, frees |-> a.frees, blocks |-> a.blocks, parked |-> a.parked,
                ch |-> a.ch, cqe |-> a.cqe, sync |-> a.sync, open |-> OpenSet', bring |-> bring']
LogEdge ==
    PrintT(<<"EDGE", Enc, ToJson(Snapshot(act')), Enc'>>)

\* Bound the exploration: the only unbounded structure is the list of parked
\* wakers (every poll of a not-yet-submitted operation parks one more).
Bounded == Len(blocked) <= MaxBlocked
=============================================================================

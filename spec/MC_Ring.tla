------------------------------ MODULE MC_Ring ------------------------------
EXTENDS Ring, Json, TLCExt

CONSTANT MaxBlocked

\* Model values for the small configurations.
K_sm == (1 :> "single" @@ 2 :> "multi")
K_st == (1 :> "single" @@ 2 :> "twostep")
K_smt == (1 :> "single" @@ 2 :> "multi" @@ 3 :> "twostep")

\* View without the history variables: the values an operation will receive are
\* a function of (operation, attempt, position), so this determines the future.
viewNH == <<sq, inflight, nposted, cq, backlog, op, blocked, awoken>>

\* Compact, injective text encoding of viewNH (node identity in the export).
RECURSIVE Cat(_, _)
Cat(f(_), s) == IF s = <<>> THEN "" ELSE f(Head(s)) \o Cat(f, Tail(s))
B(b) == IF b THEN "1" ELSE "0"
EncEntry(e) == (IF e.t = "op" THEN "o" ELSE "c") \o ToString(e.o)
EncCqe(c) == ToString(c.ud) \o ":" \o ToString(c.val) \o B(c.more) \o B(c.notif) \o ";"
EncInt(i) == ToString(i) \o ","
EncOp(o) == LET r == op[o] IN
    CASE r.st = "new" -> "n" [] r.st = "idle" -> "i" [] r.st = "running" -> "r" [] r.st = "done" -> "d"
      [] r.st = "dropped" -> "x" [] r.st = "complete" -> "c" [] r.st = "freed" -> "f"
EncOpFull(o) == EncOp(o) \o ToString(op[o].waker) \o ToString(op[o].att) \o B(inflight[o])
                \o ToString(nposted[o]) \o "[" \o Cat(EncInt, op[o].q) \o "]"
OpSeq == CHOOSE s \in [1..Cardinality(Ops) -> Ops] : \A i, j \in 1..Cardinality(Ops) : i < j => s[i] < s[j]
Enc == Cat(EncEntry, sq) \o "|" \o Cat(EncCqe, cq) \o "|" \o Cat(EncCqe, backlog) \o "|"
       \o Cat(EncOpFull, OpSeq) \o "|" \o Cat(EncInt, blocked) \o "|" \o B(awoken)

\* Export of the labelled transition graph: one line per explored transition.
LogEdge ==
    PrintT(<<"EDGE", Enc, ToJson(act'), Enc'>>)

\* Bound the exploration: the only unbounded structure is the list of parked
\* wakers (every poll of a not-yet-submitted operation parks one more).
Bounded == Len(blocked) <= MaxBlocked
=============================================================================

SPECIFICATION Spec
INVARIANTS
    AllOrNothing
    ReleasedOnce
    OutcomeByKernel
    GrantedSizes
    ExportCase
CHECK_DEADLOCK FALSE

------------------------------- MODULE PoolMT -------------------------------
(***************************************************************************)
(* The provided-buffer ring of a ReadBufPool (src/io_uring/io.rs 180-238)  *)
(* shared between threads that give buffers back (ReadBuf dropped) and a   *)
(* kernel that selects buffers at any time (io-wq workers, SQPOLL).        *)
(*                                                                         *)
(* The ring has N entries {addr, len, bid, resv}; the 16-bit tail lives in *)
(* the same two bytes as the `resv` field of entry 0.  The kernel owns a   *)
(* private head; it considers (tail - head) mod 2^16 entries available.    *)
(* Counters are modulo W here.                                             *)
(*                                                                         *)
(* Release steps of thread t for buffer b (under the pool's lock):         *)
(*   lock, load (tail), fill (write entry tail mod N), publish (store      *)
(*   tail + 1), unlock.                                                    *)
(* Deviation "ClobberTail": filling entry 0 writes the whole entry         *)
(* including resv = 0, i.e. sets the tail to 0 until the publish step.     *)
(***************************************************************************)
EXTENDS Naturals, FiniteSets, TLC

CONSTANTS Bufs,      \* buffer ids, N = Cardinality(Bufs) ring entries
          Threads,   \* releasing threads
          W,         \* counter modulus (multiple of N)
          Start,     \* value of tail and head before the pool is initialised, normally 0
          MaxTakes,  \* number of buffer selections the kernel performs
          Dev

Deviations == {"ClobberTail"}
N == Cardinality(Bufs)

VARIABLES tail, khead, slot, owner, lockHolder, pc, mine, ltail, takes, bad

vars == <<tail, khead, slot, owner, lockHolder, pc, mine, ltail, takes, bad>>

\* owner[b]: "ring" (offered to the kernel), "app" (a ReadBuf), "rel" (being given back)
\* The pool starts with every buffer consumed by earlier reads: the application owns them all, the
\* ring entries still hold what was written when the pool was created.
BufSeq == CHOOSE f \in [0..(N - 1) -> Bufs] : \A i, j \in 0..(N - 1) : i # j => f[i] # f[j]

Init ==
    /\ tail = (Start + N) % W /\ khead = (Start + N) % W
    /\ slot = [i \in 0..(N - 1) |-> BufSeq[(i + N - (Start % N)) % N]]
    /\ owner = [b \in Bufs |-> "app"]
    /\ lockHolder = 0
    /\ pc = [t \in Threads |-> "idle"] /\ mine = [t \in Threads |-> CHOOSE b \in Bufs : TRUE]
    /\ ltail = [t \in Threads |-> 0]
    /\ takes = 0 /\ bad = FALSE

\* A thread drops a ReadBuf it owns.
Begin(t, b) ==
    /\ pc[t] = "idle" /\ owner[b] = "app"
    /\ owner' = [owner EXCEPT ![b] = "rel"]
    /\ mine' = [mine EXCEPT ![t] = b]
    /\ pc' = [pc EXCEPT ![t] = "lock"]
    /\ UNCHANGED <<tail, khead, slot, lockHolder, ltail, takes, bad>>

Lock(t) ==
    /\ pc[t] = "lock" /\ lockHolder = 0
    /\ lockHolder' = t /\ pc' = [pc EXCEPT ![t] = "load"]
    /\ UNCHANGED <<tail, khead, slot, owner, mine, ltail, takes, bad>>

Load(t) ==
    /\ pc[t] = "load"
    /\ ltail' = [ltail EXCEPT ![t] = tail]
    /\ pc' = [pc EXCEPT ![t] = "fill"]
    /\ UNCHANGED <<tail, khead, slot, owner, lockHolder, mine, takes, bad>>

Fill(t) ==
    /\ pc[t] = "fill"
    /\ slot' = [slot EXCEPT ![ltail[t] % N] = mine[t]]
    /\ tail' = IF "ClobberTail" \in Dev /\ ltail[t] % N = 0 THEN 0 ELSE tail
    /\ pc' = [pc EXCEPT ![t] = "publish"]
    /\ UNCHANGED <<khead, owner, lockHolder, mine, ltail, takes, bad>>

Publish(t) ==
    /\ pc[t] = "publish"
    /\ tail' = (ltail[t] + 1) % W
    /\ owner' = [owner EXCEPT ![mine[t]] = "ring"]
    /\ pc' = [pc EXCEPT ![t] = "unlock"]
    /\ UNCHANGED <<khead, slot, lockHolder, mine, ltail, takes, bad>>

Unlock(t) ==
    /\ pc[t] = "unlock"
    /\ lockHolder' = 0 /\ pc' = [pc EXCEPT ![t] = "idle"]
    /\ UNCHANGED <<tail, khead, slot, owner, mine, ltail, takes, bad>>

\* The kernel selects the next buffer for a read / receive.
KTake ==
    /\ takes < MaxTakes /\ khead # tail
    /\ LET b == slot[khead % N] IN
       /\ bad' = (bad \/ owner[b] # "ring")      \* handed out a buffer that was not on offer
       /\ owner' = [owner EXCEPT ![b] = "app"]
    /\ khead' = (khead + 1) % W
    /\ takes' = takes + 1
    /\ UNCHANGED <<tail, slot, lockHolder, pc, mine, ltail>>

Next == (\E t \in Threads : (\E b \in Bufs : Begin(t, b)) \/ Lock(t) \/ Load(t) \/ Fill(t) \/ Publish(t) \/ Unlock(t)) \/ KTake

Spec == Init /\ [][Next]_vars

\* ---- properties (C08) -----------------------------------------------------------
\* The kernel only ever selects a buffer that is on offer: never one a ReadBuf still owns, never the
\* same one twice.
Exclusive == ~bad
\* The ring never claims to offer more entries than it has.
NoOverrun == ((tail - khead + W) % W) <= N
\* Conservation at rest: every buffer is either owned by the application or on offer exactly once.
Conserved == (\A t \in Threads : pc[t] = "idle") =>
                 Cardinality({b \in Bufs : owner[b] = "ring"}) = (tail - khead + W) % W
\* The ghost counters of PoolInd.tla (the Apalache module with W = 2^16) through the state of this
\* module: every publish puts one buffer on offer, every selection takes one away, so
\* buffers ever published = selections + buffers on offer now.
OnOffer == Cardinality({b \in Bufs : owner[b] = "ring"})
GhostSel == Start + N + takes
GhostRel == GhostSel + OnOffer
GhostAgrees == khead = GhostSel % W /\ tail = GhostRel % W
GhostTakeSafe == ((tail - khead + W) % W) = OnOffer /\ (khead # tail => OnOffer >= 1)
GhostConserved == Cardinality({b \in Bufs : owner[b] = "app"}) + Cardinality({t \in Threads : pc[t] \in {"lock", "load", "fill", "publish"}}) + OnOffer = N
=============================================================================

--------------------------- MODULE Trace_SubmitMT ---------------------------
(***************************************************************************)
(* Trace validation for SubmitMT: executions of the real Submissions::add  *)
(* under the baton scheduler are recorded as events (in their exact global *)
(* order) and must be explainable as behaviours of SubmitMT.  Logged:      *)
(*   SqAdd    (thread, head and tail loaded under the lock, slot index,    *)
(*             payload)          <-> Publish(th)                           *)
(*   SqFull   (thread, which check, head, tail)                            *)
(*                               <-> the rejecting branch of LoadTail1/2   *)
(*   KConsume (slot index, payload read)  <-> KConsume                     *)
(*   Reset    start of the next execution                                  *)
(* All other steps of SubmitMT are silent and are interleaved by TLC.      *)
(* Acceptance: the end of the trace is reachable (checked as the violation *)
(* of the invariant NotAtEnd).                                             *)
(***************************************************************************)
EXTENDS SubmitMT, Json, IOUtils, TLC

Rec == ndJsonDeserialize(IOEnv.TRACE)

VARIABLE l
tvars == <<vars, l>>

TraceInit == Init /\ l = 1

IsEvent(e) == l <= Len(Rec) /\ Rec[l].ev = e /\ l' = l + 1

TracePublish ==
    /\ IsEvent("SqAdd")
    /\ LET th == Rec[l].th IN
       /\ th \in Threads
       /\ pc[th] = "pub"
       /\ h[th] = Rec[l].head /\ t[th] = Rec[l].tail       \* values loaded under the lock
       /\ t[th] % N = Rec[l].index
       /\ Payload(th, k[th]) = Rec[l].len
       /\ Publish(th)

TraceFull ==
    /\ IsEvent("SqFull")
    /\ LET th == Rec[l].th IN
       /\ th \in Threads
       /\ IF Rec[l].locked = 0
          THEN /\ pc[th] = "t1" /\ Dist(h[th], tail) >= N /\ LoadTail1(th)
          ELSE /\ pc[th] = "t2" /\ h[th] = Rec[l].head /\ tail = Rec[l].tail
               /\ LockedFull(Dist(h[th], tail)) /\ LoadTail2(th)

TraceConsume ==
    /\ IsEvent("KConsume")
    /\ head % N = Rec[l].index
    /\ slot[head % N] = Rec[l].len
    /\ KConsume

TraceReset ==
    /\ IsEvent("Reset")
    /\ head' = Start /\ tail' = Start
    /\ slot' = [i \in 0..(N - 1) |-> Zeroed]
    /\ lockHolder' = NoThread
    /\ pc' = [th \in Threads |-> "h1"]
    /\ h' = [th \in Threads |-> 0] /\ t' = [th \in Threads |-> 0]
    /\ k' = [th \in Threads |-> 1]
    /\ accepted' = {} /\ consumed' = <<>> /\ rejected' = {}

\* Steps that leave no event.
Silent(th) ==
    \/ LoadHead1(th)
    \/ (pc[th] = "t1" /\ Dist(h[th], tail) < N /\ LoadTail1(th))
    \/ Lock(th)
    \/ LoadHead2(th)
    \/ (pc[th] = "t2" /\ ~LockedFull(Dist(h[th], tail)) /\ LoadTail2(th))
    \/ Zero(th) \/ Fill(th) \/ Unlock(th)

TraceNext ==
    \/ TracePublish \/ TraceFull \/ TraceConsume \/ TraceReset
    \/ (\E th \in Threads : Silent(th)) /\ UNCHANGED l

TraceSpec == TraceInit /\ [][TraceNext]_tvars

\* The whole trace has been consumed: TLC reports this "violation" exactly when
\* the recorded executions are behaviours of SubmitMT.
NotAtEnd == l <= Len(Rec)

\* Every invariant of SubmitMT is evaluated on the way.
TraceInvariants == NoOverrun /\ NoTornOrForeign /\ ExactlyOnceSoFar
=============================================================================

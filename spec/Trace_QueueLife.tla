-------------------------- MODULE Trace_QueueLife --------------------------
(* Trace validation for QueueLife (tools/oplife_trace.py renames ring ids to slots). *)
EXTENDS QueueLife, Json, IOUtils, Sequences

Rec == ndJsonDeserialize(IOEnv.TRACE)
VARIABLE l
tvars == <<vars, l>>
TraceInit == Init /\ l = 1
IsEvent(e) == l <= Len(Rec) /\ Rec[l].ev = e /\ l' = l + 1 /\ Rec[l].r \in Rings

TraceNext ==
    \/ IsEvent("SqAdd") /\ SqAdd(Rec[l].r, Rec[l].a, Rec[l].b, Rec[l].c)
    \/ IsEvent("PollBegin") /\ PollBegin(Rec[l].r, Rec[l].a, Rec[l].b)
    \/ IsEvent("Reload") /\ Reload(Rec[l].r, Rec[l].a, Rec[l].b)
    \/ IsEvent("Entry") /\ Entry(Rec[l].r, Rec[l].a)
    \/ IsEvent("PollEnd") /\ PollEnd(Rec[l].r, Rec[l].a)

TraceSpec == TraceInit /\ [][TraceNext]_tvars
NotAtEnd == l <= Len(Rec)
TraceInvariants == TypeOK
RingsDef == 1..64
=============================================================================

--------------------------- MODULE MC_ReadBufEdit ---------------------------
EXTENDS ReadBufEdit, Json

ExportCase ==
    Len(hist) = Depth => PrintT(<<"CASE", ToJson([cap |-> C, init |-> init, calls |-> hist])>>)
=============================================================================

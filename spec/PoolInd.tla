------------------------------- MODULE PoolInd -------------------------------
(***************************************************************************)
(* The counter arithmetic of the provided-buffer ring of a ReadBufPool     *)
(* (src/io_uring/io.rs) with the real 16-bit modulus W = 2^16, for every   *)
(* ring size N the kernel allows (a power of two up to 32768) and runs of  *)
(* any length: an inductive invariant discharged by Apalache, where        *)
(* PoolMT.tla is checked by TLC for 2-4 buffers and a small W.  Same       *)
(* actions as PoolMT.tla (Begin, Lock, Load, Fill, Publish, Unlock,        *)
(* KTake); which buffer sits where is replaced by counts: nApp buffers     *)
(* owned by ReadBufs, one buffer per thread that is giving its buffer      *)
(* back, and relC - selC buffers on offer, relC / selC being ghost         *)
(* counters (buffers ever published / ever selected) that do not wrap.     *)
(*                                                                         *)
(* What the invariant gives (C08):                                         *)
(*   Conserved   nApp + (threads releasing) + (relC - selC) = N always;    *)
(*   TakeSafe    whenever the kernel sees the ring as non-empty            *)
(*               (khead # tail) there really is a buffer on offer, and     *)
(*               the number it sees, (tail - khead) mod 2^16, is exactly   *)
(*               relC - selC: it can never select a buffer a ReadBuf       *)
(*               still owns.                                               *)
(* NextClobber is the code before fix ffe685c (filling entry 0 also writes *)
(* resv = 0, which is the tail): TakeSafe fails one step after IndInv.     *)
(***************************************************************************)
EXTENDS Integers

CONSTANT
    \* @type: Int;
    N

W == 65536
Threads == {1, 2}

VARIABLES
    \* @type: Int;
    tail,
    \* @type: Int;
    khead,
    \* @type: Int;
    relC,
    \* @type: Int;
    selC,
    \* @type: Int;
    nApp,
    \* @type: Int;
    lockHolder,
    \* @type: Int -> Str;
    pc,
    \* @type: Int -> Int;
    ltail

vars == <<tail, khead, relC, selC, nApp, lockHolder, pc, ltail>>

ConstInit == N \in {1, 2, 4, 8, 16, 32, 64, 128, 256, 512, 1024, 2048, 4096, 8192, 16384, 32768}

Dist(a, b) == (b - a + W) % W
PCs == {"idle", "lock", "load", "fill", "publish", "unlock"}
Releasing == {"lock", "load", "fill", "publish"}      \* began, buffer not yet on offer
Locked == {"load", "fill", "publish", "unlock"}
B(p) == IF p THEN 1 ELSE 0
NRel == B(pc[1] \in Releasing) + B(pc[2] \in Releasing)

\* Any starting position; every buffer is with the application (as in PoolMT).
Init ==
    /\ \E s \in Int : s >= 0 /\ s < W /\ tail = s /\ khead = s /\ relC = s /\ selC = s
    /\ nApp = N /\ lockHolder = 0
    /\ pc = [t \in Threads |-> "idle"] /\ ltail = [t \in Threads |-> 0]

Begin(t) ==
    /\ pc[t] = "idle" /\ nApp > 0
    /\ nApp' = nApp - 1
    /\ pc' = [pc EXCEPT ![t] = "lock"]
    /\ UNCHANGED <<tail, khead, relC, selC, lockHolder, ltail>>

Lock(t) ==
    /\ pc[t] = "lock" /\ lockHolder = 0
    /\ lockHolder' = t /\ pc' = [pc EXCEPT ![t] = "load"]
    /\ UNCHANGED <<tail, khead, relC, selC, nApp, ltail>>

Load(t) ==
    /\ pc[t] = "load"
    /\ ltail' = [ltail EXCEPT ![t] = tail]
    /\ pc' = [pc EXCEPT ![t] = "fill"]
    /\ UNCHANGED <<tail, khead, relC, selC, nApp, lockHolder>>

FillG(t, clobber) ==
    /\ pc[t] = "fill"
    /\ tail' = IF clobber /\ ltail[t] % N = 0 THEN 0 ELSE tail
    /\ pc' = [pc EXCEPT ![t] = "publish"]
    /\ UNCHANGED <<khead, relC, selC, nApp, lockHolder, ltail>>

Publish(t) ==
    /\ pc[t] = "publish"
    /\ tail' = (ltail[t] + 1) % W
    /\ relC' = relC + 1
    /\ pc' = [pc EXCEPT ![t] = "unlock"]
    /\ UNCHANGED <<khead, selC, nApp, lockHolder, ltail>>

Unlock(t) ==
    /\ pc[t] = "unlock"
    /\ lockHolder' = 0 /\ pc' = [pc EXCEPT ![t] = "idle"]
    /\ UNCHANGED <<tail, khead, relC, selC, nApp, ltail>>

\* The kernel selects the buffer at its head whenever the ring looks non-empty.
KTake ==
    /\ khead # tail
    /\ khead' = (khead + 1) % W
    /\ selC' = selC + 1
    /\ nApp' = nApp + 1
    /\ UNCHANGED <<tail, relC, lockHolder, pc, ltail>>

StepG(t, c) == Begin(t) \/ Lock(t) \/ Load(t) \/ FillG(t, c) \/ Publish(t) \/ Unlock(t)
Next == (\E t \in Threads : StepG(t, FALSE)) \/ KTake
NextClobber == (\E t \in Threads : StepG(t, TRUE)) \/ KTake

\* ---- the inductive invariant ------------------------------------------------
InW(x) == 0 <= x /\ x < W
TypeOK ==
    /\ InW(tail) /\ InW(khead) /\ relC >= 0 /\ selC >= 0 /\ nApp >= 0
    /\ lockHolder \in Threads \cup {0}
    /\ DOMAIN pc = Threads /\ DOMAIN ltail = Threads
    /\ \A t \in Threads : pc[t] \in PCs /\ InW(ltail[t])

Ghost == tail = relC % W /\ khead = selC % W
Conserved == relC - selC >= 0 /\ nApp + NRel + (relC - selC) = N
LockInv == \A t \in Threads : (pc[t] \in Locked) <=> (lockHolder = t)
LoadedInv == \A t \in Threads : pc[t] \in {"fill", "publish"} => ltail[t] = tail
TakeSafe == /\ Dist(khead, tail) = relC - selC
            /\ (khead # tail => relC - selC >= 1)

IndInv == TypeOK /\ Ghost /\ Conserved /\ LockInv /\ LoadedInv /\ TakeSafe

IndInit ==
    /\ tail \in Int /\ khead \in Int /\ relC \in Int /\ selC \in Int /\ nApp \in Int
    /\ lockHolder \in Threads \cup {0}
    /\ pc \in [Threads -> PCs]
    /\ ltail \in [Threads -> Int]
    /\ IndInv

\* Vacuity probe: must be violated from IndInit (a thread is about to publish while
\* the kernel can select).
NoRace == ~(\E t \in Threads : pc[t] = "publish" /\ khead # tail)
=============================================================================

SPECIFICATION Spec
CONSTANTS
    Ops = {1, 2}
    Kind <- K_sm
    SQN = 2
    CQN = 2
    Wakers = {1, 2}
    MaxPost = 1
    MaxRestart = 1
    Dev = {}
    MaxBlocked = 2
CONSTRAINT Bounded
VIEW view
CHECK_DEADLOCK FALSE
INVARIANTS
    TypeOK
    MemSafe
    RoutedOK
    DeliveredOK
    DeliveredFinal
    MultiPrefix
    NeverSurfaces
    NoLostWake
    NoParkedBlock
    FreedIsFinal
    CancelOnlyDropped
    NoLeakAtQuiescence

------------------------------ MODULE QueueLife ------------------------------
(***************************************************************************)
(* The two queues of a ring as the hook events show them, for executions   *)
(* recorded from the repository's test suite on the real kernel (the       *)
(* per-ring projection of SubmitMT.tla and CqSteps.tla):                   *)
(*  - submission entries are published at consecutive tail values, one at  *)
(*    a time, each in the slot after the previous one (or slot 0 again);   *)
(*  - Ring::poll reads the completion entries from the published head      *)
(*    upwards, consecutively, never beyond the tail it loaded, and         *)
(*    publishes as new head exactly the position after the last entry it   *)
(*    processed; the next poll starts there.                               *)
(* Counter values in recorded runs are far from 2^32; wrap-around is       *)
(* covered by the exhaustive models and the simulated kernel.              *)
(***************************************************************************)
EXTENDS Naturals, FiniteSets, TLC

CONSTANTS Rings

VARIABLES known,      \* the ring has been seen
          sqTail,     \* tail value the next published submission must carry
          sqIndex,    \* slot of the last published submission
          cqHead,     \* head the next completion read must carry
          cqTail,     \* tail loaded by the poll in progress
          polling     \* inside Completions::poll

vars == <<known, sqTail, sqIndex, cqHead, cqTail, polling>>

Init ==
    /\ known = [r \in Rings |-> FALSE]
    /\ sqTail = [r \in Rings |-> 0] /\ sqIndex = [r \in Rings |-> 0]
    /\ cqHead = [r \in Rings |-> 0] /\ cqTail = [r \in Rings |-> 0]
    /\ polling = [r \in Rings |-> FALSE]

\* A ring of the kernel starts with all counters at zero.
Seen(r) == known' = [known EXCEPT ![r] = TRUE]

SqAdd(r, head, tail, index) ==
    /\ tail = sqTail[r]
    /\ tail - head >= 0                       \* the head loaded is never ahead of the tail
    /\ IF tail = 0 THEN index = 0 ELSE index \in {sqIndex[r] + 1, 0}
    /\ sqTail' = [sqTail EXCEPT ![r] = tail + 1]
    /\ sqIndex' = [sqIndex EXCEPT ![r] = index]
    /\ Seen(r)
    /\ UNCHANGED <<cqHead, cqTail, polling>>

\* (A poll that found nothing and whose system call failed returns without further events; the
\* next poll then begins while the model still shows the previous one in progress.)
PollBegin(r, head, tail) ==
    /\ polling[r] => cqTail[r] = cqHead[r]
    /\ head = cqHead[r] /\ tail >= head
    /\ polling' = [polling EXCEPT ![r] = TRUE]
    /\ cqTail' = [cqTail EXCEPT ![r] = tail]
    /\ Seen(r)
    /\ UNCHANGED <<sqTail, sqIndex, cqHead>>

\* Nothing was visible: the kernel was entered and the tail loaded again.
Reload(r, head, tail) ==
    /\ polling[r] /\ head = cqHead[r] /\ cqTail[r] = head
    /\ tail >= cqTail[r]
    /\ cqTail' = [cqTail EXCEPT ![r] = tail]
    /\ UNCHANGED <<known, sqTail, sqIndex, cqHead, polling>>

Entry(r, head) ==
    /\ polling[r]
    /\ head = cqHead[r] /\ head < cqTail[r]    \* in order, exactly once, only what was published
    /\ cqHead' = [cqHead EXCEPT ![r] = head + 1]
    /\ UNCHANGED <<known, sqTail, sqIndex, cqTail, polling>>

PollEnd(r, head) ==
    /\ polling[r]
    /\ head = cqHead[r] /\ head = cqTail[r]    \* everything that was visible has been processed
    /\ polling' = [polling EXCEPT ![r] = FALSE]
    /\ UNCHANGED <<known, sqTail, sqIndex, cqHead, cqTail>>

Next == \E r \in Rings : \E a, b, c \in 0..3 :
    \/ SqAdd(r, a, b, c) \/ PollBegin(r, a, b) \/ Reload(r, a, b) \/ Entry(r, a) \/ PollEnd(r, a)

Spec == Init /\ [][Next]_vars

TypeOK == \A r \in Rings : cqHead[r] <= cqTail[r] \/ ~polling[r]
=============================================================================

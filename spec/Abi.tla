--------------------------------- MODULE Abi ---------------------------------
(***************************************************************************)
(* The request encoding of a10's operations, as a table: for every         *)
(* operation, descriptor kind and argument tuple, what the submission      *)
(* queue entry handed to the kernel must contain according to the io_uring *)
(* ABI (io_uring_enter(2), liburing's io_uring_prep_* helpers) for the     *)
(* POSIX call the operation stands for.  The table is written from the ABI *)
(* documentation, not from a10's encoders; TLC enumerates it (one case per *)
(* argument tuple) and every case is replayed through the real crate on    *)
(* the simulated kernel, which compares the entry it receives field by     *)
(* field, and checks that a scripted result comes back as the operation's  *)
(* result (a negative result as exactly that error).                       *)
(*                                                                         *)
(* 64-bit values are written as pairs <<hi, lo>> (TLC integers are 32 bit).*)
(* Pointers are symbolic tags resolved by the replayer.                    *)
(***************************************************************************)
EXTENDS Naturals, Integers, Sequences, FiniteSets, TLC

\* ---- io_uring ABI constants (include/uapi/linux/io_uring.h) -----------------------
OpREADV == 1          OpWRITEV == 2        OpFSYNC == 3         OpSENDMSG == 9
OpRECVMSG == 10       OpACCEPT == 13       OpASYNC_CANCEL == 14 OpCONNECT == 16
OpFALLOCATE == 17     OpOPENAT == 18       OpCLOSE == 19        OpSTATX == 21
OpREAD == 22          OpWRITE == 23        OpFADVISE == 24      OpMADVISE == 25
OpSEND == 26          OpRECV == 27         OpSPLICE == 30       OpSHUTDOWN == 34
OpRENAMEAT == 35      OpUNLINKAT == 36     OpMKDIRAT == 37      OpSOCKET == 45
OpURING_CMD == 46     OpSEND_ZC == 47      OpWAITID == 50       OpFTRUNCATE == 55
OpBIND == 56          OpLISTEN == 57
OpFILES_UPDATE == 20  OpREAD_MULTISHOT == 49  OpFIXED_FD_INSTALL == 54  OpPIPE == 62
OpPOLL_ADD == 6
RecvMultishot == 2            \* IORING_RECV_MULTISHOT (ioprio)

FsyncDatasync == 1            \* IORING_FSYNC_DATASYNC
AcceptMultishot == 1          \* IORING_ACCEPT_MULTISHOT (ioprio)
FileIndexAlloc == <<0, -1>>   \* IORING_FILE_INDEX_ALLOC: 0xFFFFFFFF, written lo = -1
AtEmptyPath == 4096           \* AT_EMPTY_PATH
AtRemoveDir == 512            \* AT_REMOVEDIR
OCloexec == 524288            \* O_CLOEXEC
OCreat == 64
OTmpfile == 4194304 + 65536   \* O_TMPFILE = __O_TMPFILE | O_DIRECTORY
SockCloexec == 524288         \* SOCK_CLOEXEC
SockoptGet == 2               \* SOCKET_URING_OP_GETSOCKOPT
SockoptSet == 3               \* SOCKET_URING_OP_SETSOCKOPT
SpliceFdInFixed == <<0, -2147483647 - 1>>  \* SPLICE_F_FD_IN_FIXED, bit 31 (written as the i32 value)

Kinds == {"file", "direct"}

\* An empty expectation; every field the ABI leaves unused must be zero.
Zero64 == <<0, 0>>
Blank == [opcode |-> 0,
          fd |-> "TARGET",        \* TARGET the descriptor operated on / CWD (AT_FDCWD) / NONE (-1) / NUM (fdv)
          fdv |-> 0,
          off |-> "NUM", offv |-> Zero64,     \* NUM / CUR (-1: current position) / pointer tags
          addr |-> "ZERO", addrv |-> Zero64,  \* ZERO / NUM / pointer tags
          len |-> 0,
          opf |-> 0,                          \* the 32-bit per-operation flags word
          opf31 |-> FALSE,                    \* ... its bit 31
          ioprio |-> 0,
          idx |-> "NUM", idxv |-> 0,          \* file_index / splice_fd_in / addr_len / optlen word: NUM, ALLOC, TARGET+1, ADDRLEN, OPTLEN, FDIN
          addr3 |-> "ZERO",
          select |-> FALSE,                   \* IOSQE_BUFFER_SELECT, with the pool's group in buf_group
          fixed |-> FALSE]                    \* IOSQE_FIXED_FILE

OnFd(kind, e) == [e EXCEPT !.fd = "TARGET", !.fixed = (kind = "direct")]
\* Operations that create a descriptor of the requested kind.
Creates(kind, e) == IF kind = "direct" THEN [e EXCEPT !.idx = "ALLOC"] ELSE e

Off(o) == IF o = <<0, -1>> THEN [t |-> "CUR", v |-> Zero64] ELSE [t |-> "NUM", v |-> o]

\* ---- argument domains -------------------------------------------------------------
Offsets == {<<0, -1>>, <<0, 0>>, <<0, 7>>, <<0, 2147483647>>, <<1, 5>>, <<2097151, 4096>>}
SetOffsets == Offsets \ {<<0, -1>>}       \* what .from()/.at() can be given explicitly
Caps == {0, 1, 16}
Lens == {0, 1, 11}
NVecs == {1, 2, 3}
Lens32 == {0, 1, 4096, 2147483647}
Advices == {0, 1, 2, 3, 4, 5}
\* OpenOptions builder calls and the open(2) flags they stand for.
OpenCombos == { [calls |-> <<"read">>, flags |-> 0],
                [calls |-> <<"write_only">>, flags |-> 1],
                [calls |-> <<"write">>, flags |-> 2],
                [calls |-> <<"write_only", "read">>, flags |-> 2],
                [calls |-> <<"read", "write_only">>, flags |-> 1],
                [calls |-> <<"write_only", "append">>, flags |-> 1 + 1024],
                [calls |-> <<"write_only", "create", "truncate">>, flags |-> 1 + 64 + 512],
                [calls |-> <<"write_only", "create_new">>, flags |-> 1 + 64 + 128],
                [calls |-> <<"write", "data_sync">>, flags |-> 2 + 4096],
                [calls |-> <<"read", "direct">>, flags |-> 16384],
                [calls |-> <<"write", "sync">>, flags |-> 2 + 1052672] }
Modes == {0, 384, 420, 511, 292}
SendFlags == {0, 1, 4, 128, 32768, 2048 + 4}           \* OOB, DONTROUTE, EOR, MORE, CONFIRM|DONTROUTE
RecvFlags == {0, 1, 2, 256, 2 + 256, 1073741824}       \* OOB, PEEK, WAITALL, PEEK|WAITALL, CMSG_CLOEXEC
Domains == {1, 2, 10}
Types == {1, 2, 5}
Protocols == {0, 6, 17}
Backlogs == {0, 1, 128, 2147483647}
Hows == {0, 1, 2}
SpliceFlags == {0, 1, 4, 5}
AddrLens == {16, 28, 110}       \* sockaddr_in, sockaddr_in6, sockaddr_un

\* ---- the table ----------------------------------------------------------------------
Case(op, kind, args, e) == [op |-> op, kind |-> kind, args |-> args, e |-> e]
NoArgs == [o |-> Zero64, a |-> 0, b |-> 0, c |-> 0, d |-> 0, calls |-> <<>>]
A(o, a, b, c, d) == [o |-> o, a |-> a, b |-> b, c |-> c, d |-> d, calls |-> <<>>]

\* read(2) / pread(2): READ fd, off = offset or -1, addr = first spare byte, len = spare capacity.
ReadCases == { Case("read", k, A(o, cap, 0, 0, 0),
                    OnFd(k, [Blank EXCEPT !.opcode = OpREAD, !.off = Off(o).t, !.offv = Off(o).v, !.addr = "BUF", !.len = cap]))
               : k \in Kinds, o \in Offsets, cap \in Caps }
WriteCases == { Case("write", k, A(o, n, 0, 0, 0),
                     OnFd(k, [Blank EXCEPT !.opcode = OpWRITE, !.off = Off(o).t, !.offv = Off(o).v, !.addr = "BUF", !.len = n]))
                : k \in Kinds, o \in Offsets, n \in Lens }
\* readv(2) / preadv(2): addr = iovec array, len = number of iovecs.
ReadvCases == { Case("readv", k, A(o, n, 0, 0, 0),
                     OnFd(k, [Blank EXCEPT !.opcode = OpREADV, !.off = Off(o).t, !.offv = Off(o).v, !.addr = "IOV", !.len = n]))
                : k \in Kinds, o \in Offsets, n \in NVecs }
WritevCases == { Case("writev", k, A(o, n, 0, 0, 0),
                      OnFd(k, [Blank EXCEPT !.opcode = OpWRITEV, !.off = Off(o).t, !.offv = Off(o).v, !.addr = "IOV", !.len = n]))
                 : k \in Kinds, o \in Offsets, n \in NVecs }
\* fsync(2) / fdatasync(2).
FsyncCases == { Case("fsync", k, A(Zero64, d, 0, 0, 0),
                     OnFd(k, [Blank EXCEPT !.opcode = OpFSYNC, !.opf = IF d = 1 THEN FsyncDatasync ELSE 0]))
                : k \in Kinds, d \in {0, 1} }
\* statx(fd, "", AT_EMPTY_PATH, mask, buf).
StatxCases == { Case("statx", k, A(Zero64, mask, 0, 0, 0),
                     OnFd(k, [Blank EXCEPT !.opcode = OpSTATX, !.off = "STATXBUF", !.addr = "EMPTYPATH", !.len = mask, !.opf = AtEmptyPath]))
                : k \in Kinds, mask \in {1, 2 + 512, 2 + 32 + 64 + 2048, 1 + 2 + 32 + 64 + 512 + 1024 + 2048} }
\* posix_fadvise(2).
FadviseCases == { Case("fadvise", k, A(o, n, adv, 0, 0),
                       OnFd(k, [Blank EXCEPT !.opcode = OpFADVISE, !.offv = o, !.len = n, !.opf = adv]))
                  : k \in Kinds, o \in SetOffsets, n \in Lens32, adv \in Advices }
\* fallocate(2): off = offset, addr = length, len = mode.
FallocateCases == { Case("fallocate", k, A(o, n, 0, 0, 0),
                         OnFd(k, [Blank EXCEPT !.opcode = OpFALLOCATE, !.offv = o, !.addr = "NUM", !.addrv = <<0, n>>, !.len = 0]))
                    : k \in Kinds, o \in SetOffsets, n \in Lens32 }
\* ftruncate(2): off = length.
FtruncateCases == { Case("ftruncate", k, A(o, 0, 0, 0, 0), OnFd(k, [Blank EXCEPT !.opcode = OpFTRUNCATE, !.offv = o]))
                    : k \in Kinds, o \in SetOffsets }
\* close(2): regular descriptors by fd, direct ones by slot + 1.
CloseCases == { Case("close", "file", NoArgs, [Blank EXCEPT !.opcode = OpCLOSE]),
                Case("close", "direct", NoArgs, [Blank EXCEPT !.opcode = OpCLOSE, !.fd = "NUM", !.fdv = 0, !.idx = "TARGET+1"]) }
\* openat(AT_FDCWD, path, flags | O_CLOEXEC, mode); the mode matters when a file may be created.
OpenCases == { Case("open", k, [A(Zero64, c.flags, mode, 0, 0) EXCEPT !.calls = c.calls],
                    Creates(k, [Blank EXCEPT !.opcode = OpOPENAT, !.fd = "CWD", !.addr = "PATH", !.len = mode,
                                             !.opf = c.flags + (IF k = "file" THEN OCloexec ELSE 0)]))
               : k \in Kinds, c \in OpenCombos, mode \in Modes }
TmpfileCases == { Case("open_tmpfile", k, A(Zero64, fl, mode, 0, 0),
                       Creates(k, [Blank EXCEPT !.opcode = OpOPENAT, !.fd = "CWD", !.addr = "PATH", !.len = mode,
                                                !.opf = fl + OTmpfile + (IF k = "file" THEN OCloexec ELSE 0)]))
                  : k \in Kinds, fl \in {1, 2}, mode \in Modes }
\* mkdirat(AT_FDCWD, path, mode), renameat, unlinkat.
PathCases == { Case("mkdir", "file", NoArgs, [Blank EXCEPT !.opcode = OpMKDIRAT, !.fd = "CWD", !.addr = "PATH", !.len = 511]),
               Case("rename", "file", NoArgs, [Blank EXCEPT !.opcode = OpRENAMEAT, !.fd = "CWD", !.addr = "PATH", !.len = -100, !.off = "PATH2"]),
               Case("unlink", "file", A(Zero64, 0, 0, 0, 0), [Blank EXCEPT !.opcode = OpUNLINKAT, !.fd = "CWD", !.addr = "PATH"]),
               Case("unlink", "file", A(Zero64, 1, 0, 0, 0), [Blank EXCEPT !.opcode = OpUNLINKAT, !.fd = "CWD", !.addr = "PATH", !.opf = AtRemoveDir]) }
\* socket(domain, type | SOCK_CLOEXEC, protocol): fd = domain, off = type, len = protocol.
SocketCases == { Case("socket", k, A(Zero64, dom, ty, pr, 0),
                      Creates(k, [Blank EXCEPT !.opcode = OpSOCKET, !.fd = "NUM", !.fdv = dom,
                                               !.offv = <<0, ty + (IF k = "file" THEN SockCloexec ELSE 0)>>, !.len = pr]))
                 : k \in Kinds, dom \in Domains, ty \in Types, pr \in Protocols }
\* connect(2) / bind(2): addr = sockaddr, off = its length.
ConnectCases == { Case(op, k, A(Zero64, al, 0, 0, 0),
                       OnFd(k, [Blank EXCEPT !.opcode = IF op = "connect" THEN OpCONNECT ELSE OpBIND, !.addr = "SOCKADDR", !.offv = <<0, al>>]))
                  : op \in {"connect", "bind"}, k \in Kinds, al \in AddrLens }
ListenCases == { Case("listen", k, A(Zero64, b, 0, 0, 0), OnFd(k, [Blank EXCEPT !.opcode = OpLISTEN, !.len = b]))
                 : k \in Kinds, b \in Backlogs }
\* accept4(fd, addr, &len, SOCK_CLOEXEC): addr = sockaddr storage, off = pointer to the length.
AcceptCases == { Case("accept", k, A(Zero64, 0, m, 0, 0),
                      Creates(k, OnFd(k, [Blank EXCEPT !.opcode = OpACCEPT, !.addr = IF m = 1 THEN "ZERO" ELSE "SOCKADDR",
                                                       !.off = IF m = 1 THEN "NUM" ELSE "ADDRLENPTR",
                                                       !.opf = IF k = "file" THEN SockCloexec ELSE 0,
                                                       !.ioprio = IF m = 1 THEN AcceptMultishot ELSE 0])))
                 : k \in Kinds, m \in {0, 1} }    \* the accepted descriptor has the kind of the listener; m: multishot
\* send(2): msg_flags = flags.  (io_uring itself ORs MSG_NOSIGNAL into the flags of every send request --
\* io_uring/net.c, io_sendmsg_prep -- which is what a10's documentation means by "always set".)
SendCases == { Case("send", k, A(Zero64, n, fl, zc, 0),
                    OnFd(k, [Blank EXCEPT !.opcode = IF zc = 1 THEN OpSEND_ZC ELSE OpSEND, !.addr = "BUF", !.len = n, !.opf = fl]))
               : k \in Kinds, n \in Lens, fl \in SendFlags, zc \in {0, 1} }
SendToCases == { Case("sendto", k, A(Zero64, n, fl, al, 0),
                      OnFd(k, [Blank EXCEPT !.opcode = OpSEND, !.addr = "BUF", !.len = n, !.opf = fl,
                                            !.off = "SOCKADDR", !.idx = "ADDRLEN", !.idxv = al]))
                 : k \in Kinds, n \in Lens, fl \in SendFlags, al \in AddrLens }
RecvCases == { Case("recv", k, A(Zero64, cap, fl, 0, 0),
                    OnFd(k, [Blank EXCEPT !.opcode = OpRECV, !.addr = "BUF", !.len = cap, !.opf = fl]))
               : k \in Kinds, cap \in Caps, fl \in RecvFlags }
\* sendmsg / recvmsg based operations: addr = msghdr, len = 1.
MsgCases == { Case("recvfrom", k, A(Zero64, fl, 0, 0, 0),
                   OnFd(k, [Blank EXCEPT !.opcode = OpRECVMSG, !.addr = "MSGHDR", !.len = 1, !.opf = fl]))
              : k \in Kinds, fl \in {0, 1, 2} }
            \cup
            { Case("sendv", k, A(Zero64, fl, 0, 0, 0),
                   OnFd(k, [Blank EXCEPT !.opcode = OpSENDMSG, !.addr = "MSGHDR", !.len = 1, !.opf = fl]))
              : k \in Kinds, fl \in {0, 1, 4} }
ShutdownCases == { Case("shutdown", k, A(Zero64, h, 0, 0, 0), OnFd(k, [Blank EXCEPT !.opcode = OpSHUTDOWN, !.len = h]))
                   : k \in Kinds, h \in Hows }
\* getsockopt / setsockopt through IORING_OP_URING_CMD: off = command, addr = level | optname << 32,
\* optlen in the file_index word, addr3 = optval.
SockOpts == { [n |-> 0, level |-> 1, name |-> 9, len |-> 4],     \* SOL_SOCKET, SO_KEEPALIVE, int
              [n |-> 1, level |-> 1, name |-> 13, len |-> 8],    \* SOL_SOCKET, SO_LINGER, struct linger
              [n |-> 2, level |-> 6, name |-> 1, len |-> 4] }    \* IPPROTO_TCP, TCP_NODELAY, int
SockoptCases == { Case(op, k, A(Zero64, so.n, 0, 0, 0),
                       OnFd(k, [Blank EXCEPT !.opcode = OpURING_CMD, !.offv = <<0, IF op = "getsockopt" THEN SockoptGet ELSE SockoptSet>>,
                                             !.addr = "NUM", !.addrv = <<so.name, so.level>>, !.idx = "NUM", !.idxv = so.len, !.addr3 = "OPTVAL"]))
                  : op \in {"getsockopt", "setsockopt"}, k \in Kinds, so \in SockOpts }
\* splice(fd_in, off_in, fd_out, off_out, len, flags): fd = fd_out, off = off_out, addr = off_in, the
\* file_index word = fd_in, opf = flags; an absent offset is -1.  IOSQE_FIXED_FILE describes fd_out;
\* a direct fd_in is announced with SPLICE_F_FD_IN_FIXED (bit 31 of the flags).
\* splice_to(target): this -> target (dir 0); splice_from(target): target -> this (dir 1).
\* d: 0 no offset, 1 .from(o) (off_in), 2 .at(o) (off_out).
SpliceCases == { Case("splice", k, A(o, n, fl, dir, d),
                      [Blank EXCEPT !.opcode = OpSPLICE, !.len = n,
                                    !.fd = IF dir = 0 THEN "OTHER" ELSE "TARGET",
                                    !.fixed = (dir = 1 /\ k = "direct"),
                                    !.idx = IF dir = 0 THEN "TARGET" ELSE "OTHER",
                                    !.off = IF d = 2 THEN "NUM" ELSE "CUR", !.offv = IF d = 2 THEN o ELSE Zero64,
                                    !.addr = IF d = 1 THEN "NUM" ELSE "MINUS1", !.addrv = IF d = 1 THEN o ELSE Zero64,
                                    !.opf = fl, !.opf31 = (dir = 0 /\ k = "direct")])
                 : k \in Kinds, o \in {<<0, 0>>, <<0, 7>>, <<1, 5>>}, n \in {1, 4096}, fl \in SpliceFlags, dir \in {0, 1}, d \in {0, 1, 2} }
\* madvise(2): fd = -1, addr, len, advice.
MadviseCases == { Case("madvise", "file", A(Zero64, n, adv, 0, 0),
                       [Blank EXCEPT !.opcode = OpMADVISE, !.fd = "NONE", !.addr = "MEM", !.len = n, !.opf = adv])
                  : n \in {4096, 8192}, adv \in {0, 1, 2, 3, 4} }
\* waitid(idtype, id, infop, options): fd = id, len = idtype, the file_index word = options, off = infop.
WaitidCases == { Case("waitid", "file", A(Zero64, idt, id, opt, 0),
                      [Blank EXCEPT !.opcode = OpWAITID, !.fd = "NUM", !.fdv = IF idt = 0 THEN 0 ELSE id, !.len = idt,
                                    !.idx = "NUM", !.idxv = opt, !.off = "SIGINFO"])
                 : idt \in {0, 1, 2}, id \in {1, 4242}, opt \in {4, 4 + 8, 4 + 16777216} }   \* P_ALL/P_PID/P_PGID; WEXITED [| WCONTINUED | WNOWAIT]

\* read / recv into a buffer the kernel selects from a ReadBufPool: no address, no length,
\* IOSQE_BUFFER_SELECT and the pool's group id; the multishot forms: IORING_OP_READ_MULTISHOT, and
\* IORING_OP_RECV with IORING_RECV_MULTISHOT in ioprio.
PoolCases == { Case("read_pool", k, A(o, 0, 0, 0, 0),
                    OnFd(k, [Blank EXCEPT !.opcode = OpREAD, !.off = Off(o).t, !.offv = Off(o).v, !.select = TRUE]))
               : k \in Kinds, o \in {<<0, -1>>, <<0, 7>>, <<1, 5>>} }
             \cup { Case("recv_pool", k, A(Zero64, 0, fl, 0, 0), OnFd(k, [Blank EXCEPT !.opcode = OpRECV, !.opf = fl, !.select = TRUE]))
                    : k \in Kinds, fl \in {0, 2, 256} }
             \cup { Case("read_multishot", k, NoArgs, OnFd(k, [Blank EXCEPT !.opcode = OpREAD_MULTISHOT, !.off = "ANY", !.select = TRUE]))   \* only non-seekable files: the offset is not used
                    : k \in Kinds }
             \cup { Case("recv_multishot", k, A(Zero64, 0, fl, 0, 0),
                         OnFd(k, [Blank EXCEPT !.opcode = OpRECV, !.opf = fl, !.ioprio = RecvMultishot, !.select = TRUE]))
                    : k \in Kinds, fl \in {0, 2} }
\* pipe2(fds, O_CLOEXEC): addr = the two descriptors to fill in; fd is unused (0).
PipeCases == { Case("pipe", k, NoArgs,
                    Creates(k, [Blank EXCEPT !.opcode = OpPIPE, !.fd = "NUM", !.fdv = 0, !.addr = "FDS", !.opf = IF k = "file" THEN OCloexec ELSE 0]))
               : k \in Kinds }
\* Registering a regular descriptor in a free slot (IORING_OP_FILES_UPDATE with offset
\* IORING_FILE_INDEX_ALLOC) and installing a direct descriptor as a regular one.
ConvertCases == { Case("to_direct", "file", NoArgs, [Blank EXCEPT !.opcode = OpFILES_UPDATE, !.fd = "NONE", !.off = "ALLOC", !.addr = "FDPTR", !.len = 1]),
                  Case("to_file", "direct", NoArgs, OnFd("direct", [Blank EXCEPT !.opcode = OpFIXED_FD_INSTALL])) }

\* Ring::pollable: poll(2) for readability on the *other* ring's descriptor, edge triggered,
\* exclusive, multishot: POLL_ADD fd = that ring, poll32_events = EPOLLIN | EPOLLERR | EPOLLHUP
\* | EPOLLEXCLUSIVE (bit 28) | EPOLLET (bit 31), len = IORING_POLL_ADD_MULTI.
PollableCases == { Case("pollable", "file", NoArgs,
                        [Blank EXCEPT !.opcode = OpPOLL_ADD, !.fd = "RING2", !.opf = 1 + 8 + 16 + 268435456, !.opf31 = TRUE, !.len = 1]) }

AllCases == PollableCases \cup ReadCases \cup WriteCases \cup ReadvCases \cup WritevCases \cup FsyncCases \cup StatxCases \cup FadviseCases
            \cup FallocateCases \cup FtruncateCases \cup CloseCases \cup OpenCases \cup TmpfileCases \cup PathCases
            \cup SocketCases \cup ConnectCases \cup ListenCases \cup AcceptCases \cup SendCases \cup SendToCases \cup RecvCases
            \cup MsgCases \cup ShutdownCases \cup SockoptCases \cup SpliceCases \cup MadviseCases \cup WaitidCases
            \cup PoolCases \cup PipeCases \cup ConvertCases

VARIABLES case
Init == case \in AllCases
Next == UNCHANGED case
Spec == Init /\ [][Next]_case

\* ---- sanity of the table itself -------------------------------------------------------
\* An operation on a direct descriptor is flagged, one on a regular descriptor is not;
\* only descriptor-creating operations ask for a slot.
WellFormed ==
    /\ case.e.opcode > 0
    /\ (case.e.fixed => case.kind = "direct")
    /\ (case.e.idx = "ALLOC" => case.op \in {"open", "open_tmpfile", "socket", "accept", "pipe"})
    /\ (case.e.select => case.e.addr = "ZERO" /\ case.e.len = 0)
    /\ (case.e.off = "CUR" => case.e.offv = Zero64)
=============================================================================

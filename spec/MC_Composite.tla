--------------------------- MODULE MC_Composite ---------------------------
EXTENDS Composite, Json

OffsetsDef == {-1, 5}

ExportCase ==
    Terminal =>
        PrintT(<<"CASE", ToJson([kind |-> kind, lens |-> lens, target |-> target, off |-> off, flags |-> flags,
                                 zc |-> zc, extract |-> extract, pool |-> pool, answers |-> answers, reqs |-> reqs,
                                 outcome |-> pc, done |-> done])>>)
=============================================================================

----------------------------- MODULE MC_BufLaws -----------------------------
EXTENDS BufLaws, Json

ExportCase ==
    PrintT(<<"CASE", ToJson([shape |-> shape, bufs |-> bufs, limited |-> limited, hi |-> hi, lo |-> lo, n |-> n,
                             pair_lens |-> PairLens, pair_offsets |-> PairOffsets, visible |-> Visible,
                             lens_after |-> LensAfterInit, lo_after |-> LimitLoAfter])>>)
=============================================================================

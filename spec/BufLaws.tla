------------------------------- MODULE BufLaws -------------------------------
(***************************************************************************)
(* The pointer / length / initialisation laws of a10's buffer traits       *)
(* (src/io/traits.rs): Buf, BufMut, BufSlice<N>, BufMutSlice<N> and the    *)
(* LimitedBuf wrapper, stated over abstract buffers.                       *)
(*                                                                         *)
(* A buffer is [cap, len]: `len` initialised bytes in an allocation of     *)
(* `cap` bytes.  A read-only buffer exposes (offset 0, len); a writable    *)
(* one exposes its spare capacity (offset len, cap - len) and grows by     *)
(* set_init(n).  Arrays / tuples expose one pair per element, in order;    *)
(* set_init(n) fills them front to back.  LimitedBuf(limit) clips what is  *)
(* exposed to `limit` bytes in total; the limit is a usize, represented    *)
(* here as hi * 2^32 + lo because TLC integers are 32 bit.                 *)
(*                                                                         *)
(* Every case (Init is nondeterministic) is exported with the lawful       *)
(* answers and replayed against all concrete buffer types.                 *)
(***************************************************************************)
EXTENDS Naturals, Sequences, FiniteSets, TLC

CONSTANTS MaxCap, MaxArity, LimitLos, LimitHis

Buffers == {b \in [cap : 0..MaxCap, len : 0..MaxCap] : b.len <= b.cap}
Shapes == {"buf", "bufmut", "slice", "mutslice"}

VARIABLES shape, bufs, limited, hi, lo, n

vars == <<shape, bufs, limited, hi, lo, n>>

RECURSIVE SumSpare(_), SumLen(_)
SumSpare(s) == IF s = <<>> THEN 0 ELSE (Head(s).cap - Head(s).len) + SumSpare(Tail(s))
SumLen(s) == IF s = <<>> THEN 0 ELSE Head(s).len + SumLen(Tail(s))

Min(a, b) == IF a <= b THEN a ELSE b

\* min(x, limit) for x < 2^32 and limit = hi * 2^32 + lo.
Clip(x) == IF ~limited \/ hi > 0 THEN x ELSE Min(x, lo)

\* What a (possibly limited) buffer exposes.
Visible == IF shape \in {"buf", "slice"} THEN Clip(SumLen(bufs)) ELSE Clip(SumSpare(bufs))

Init ==
    /\ shape \in Shapes
    /\ \E k \in 1..MaxArity : /\ (shape \in {"buf", "bufmut"} => k = 1)
                              /\ bufs \in [1..k -> Buffers]
    /\ limited \in BOOLEAN
    /\ hi \in (IF limited THEN LimitHis ELSE {0})
    /\ lo \in (IF limited THEN LimitLos ELSE {0})
    /\ n \in 0..(MaxCap * MaxArity)
    /\ n <= Visible
    /\ (shape \in {"buf", "slice"} => n = 0)

Next == UNCHANGED vars
Spec == Init /\ [][Next]_vars

\* ---- lawful answers ---------------------------------------------------------
\* Lengths of the pointer/length pairs, clipped cumulatively by the limit.
RECURSIVE ClipSeq(_, _)
ClipSeq(lens, left) ==
    IF lens = <<>> THEN <<>>
    ELSE IF Head(lens) <= left THEN <<Head(lens)>> \o ClipSeq(Tail(lens), left - Head(lens))
         ELSE <<left>> \o ClipSeq(Tail(lens), 0)

RawLens == IF shape \in {"buf", "slice"} THEN [i \in 1..Len(bufs) |-> bufs[i].len]
           ELSE [i \in 1..Len(bufs) |-> bufs[i].cap - bufs[i].len]

PairLens == IF ~limited \/ hi > 0 THEN RawLens ELSE ClipSeq(RawLens, lo)

\* Offsets of the pairs inside their allocations.
PairOffsets == IF shape \in {"buf", "slice"} THEN [i \in 1..Len(bufs) |-> 0]
               ELSE [i \in 1..Len(bufs) |-> bufs[i].len]

\* Lengths after set_init(n): n bytes appended front to back.
RECURSIVE Fill(_, _)
Fill(s, left) ==
    IF s = <<>> THEN <<>>
    ELSE LET spare == Head(s).cap - Head(s).len
             take == Min(spare, left)
         IN <<Head(s).len + take>> \o Fill(Tail(s), left - take)

LensAfterInit == Fill(bufs, n)

\* The limit left after set_init(n) (lo part; hi unchanged in the scope explored).
LimitLoAfter == IF limited /\ hi = 0 THEN lo - n ELSE lo

\* ---- laws (checked on the specification's own answers) ----------------------
\* Every pair lies inside its buffer's allocation.
PairsInside == \A i \in 1..Len(bufs) : PairOffsets[i] + PairLens[i] <= bufs[i].cap
\* Reported totals agree with the pairs.
RECURSIVE SumSeq(_)
SumSeq(s) == IF s = <<>> THEN 0 ELSE Head(s) + SumSeq(Tail(s))
TotalsAgree == SumSeq(PairLens) = Visible
\* Marking n bytes initialised appends exactly n bytes.
InitExact == SumSeq(LensAfterInit) = SumLen(bufs) + n
\* A limit is never exceeded.
LimitRespected == (limited /\ hi = 0) => SumSeq(PairLens) <= lo

=============================================================================

----------------------------- MODULE MC_SockAddr -----------------------------
EXTENDS SockAddr, Json

IpsDef == {0, 1, 255}
PortsDef == {0, 1, 65535}
WordsDef == {0, 1, 16909060}
LensDef == {0, 1, 2, 3, 15, 106, 107, 108}

ExportCase ==
    PrintT(<<"CASE", ToJson([addr |-> addr, name |-> IF IsUnix THEN Name(addr) ELSE <<>>,
                             to_kernel |-> ToKernelBytes, to_kernel_len |-> ToKernelLen, lawful_lens |-> LawfulLens,
                             reported |-> Reported, reported_len |-> ReportedLen])>>)
=============================================================================

----------------------------- MODULE MC_Inotify -----------------------------
EXTENDS Inotify, Json

WdsDef == {1, 2, 9}
WdsSmall == {1, 9}
KnownDef == {1, 2}
KnownSmall == {1}

ExportCase ==
    Terminal =>
        PrintT(<<"CASE", ToJson([recs |-> recs, cuts |-> cuts, final |-> final, retain |-> retain,
                                 yields |-> yields, watching |-> watching, held_invalid |-> HeldInvalid])>>)
=============================================================================

------------------------------- MODULE CqSteps -------------------------------
(***************************************************************************)
(* Completions::poll (src/io_uring/cq.rs 58-99) step by step against a     *)
(* kernel that publishes completions, and re-uses released slots, at any   *)
(* time.  Counters are free running modulo W.                              *)
(*                                                                         *)
(* Poller steps (pc): "head" load head; "tail" load tail; "enter" (only if *)
(* nothing is visible) system call, then reload tail; "read" read the slot *)
(* at head mod N and process it; "store" publish the new head.             *)
(* Kernel: KPost writes the slot at tail mod N then stores tail, only if   *)
(* the ring (as seen through the *published* head) has room; KScribble     *)
(* overwrites any slot outside [published head, tail).                     *)
(***************************************************************************)
EXTENDS Naturals, Sequences, FiniteSets, TLC

CONSTANTS N,        \* completion queue entries
          W,        \* counter modulus
          Start,    \* initial counter value
          Script,   \* sequence of completions the kernel will publish, each [ud, skip]
          MaxPolls, \* number of Ring::poll calls
          Dev       \* deviations: "StoreHeadEarly", "NonModular"

Deviations == {"StoreHeadEarly", "NonModular"}

Garbage == [ud |-> 0, id |-> 0, skip |-> FALSE]   \* what a re-used slot holds
Reserved == {0, 1, 2, 3}

VARIABLES khead,      \* head as published in shared memory
          ktail,      \* tail as published in shared memory
          slot,       \* the ring
          nextPost,   \* index into Script of the next completion to publish
          pc, lhead, ltail, polls,
          processed,  \* history: ids handed to process(), in order
          routed,     \* history: ids that reached an operation
          badRead,    \* a slot was read whose content is not what was published there
          startDist,  \* completions visible when the current / last poll loaded the tail
          startProc   \* Len(processed) at that moment

vars == <<khead, ktail, slot, nextPost, pc, lhead, ltail, polls, processed, routed, badRead, startDist, startProc>>

Dist(a, b) == (b - a + W) % W

Init ==
    /\ khead = Start /\ ktail = Start
    /\ slot = [i \in 0..(N - 1) |-> Garbage]
    /\ nextPost = 1
    /\ pc = "head" /\ lhead = 0 /\ ltail = 0 /\ polls = 0
    /\ processed = <<>> /\ routed = <<>> /\ badRead = FALSE
    /\ startDist = 0 /\ startProc = 0

\* ---- kernel -------------------------------------------------------------------
KPost ==
    /\ nextPost <= Len(Script)
    /\ Dist(khead, ktail) < N
    /\ slot' = [slot EXCEPT ![ktail % N] = [ud |-> Script[nextPost].ud, id |-> nextPost, skip |-> Script[nextPost].skip]]
    /\ ktail' = (ktail + 1) % W
    /\ nextPost' = nextPost + 1
    /\ UNCHANGED <<khead, pc, lhead, ltail, polls, processed, routed, badRead, startDist, startProc>>

\* Slots the application has released may be overwritten at any time.
KScribble(i) ==
    /\ i \in 0..(N - 1)
    /\ \A d \in 0..(Dist(khead, ktail) - 1) : (khead + d) % N # i     \* outside [khead, ktail)
    /\ slot[i] # Garbage
    /\ slot' = [slot EXCEPT ![i] = Garbage]
    /\ UNCHANGED <<khead, ktail, nextPost, pc, lhead, ltail, polls, processed, routed, badRead, startDist, startProc>>

\* ---- poller -------------------------------------------------------------------
Empty(hd, tl) == IF "NonModular" \in Dev THEN hd >= tl ELSE hd = tl
More(hd, tl)  == IF "NonModular" \in Dev THEN hd < tl ELSE hd # tl

LoadHead ==
    /\ pc = "head" /\ polls < MaxPolls
    /\ lhead' = khead /\ pc' = "tail"
    /\ UNCHANGED <<khead, ktail, slot, nextPost, ltail, polls, processed, routed, badRead, startDist, startProc>>

LoadTail ==
    /\ pc = "tail"
    /\ ltail' = ktail
    /\ pc' = IF Empty(lhead, ktail) THEN "enter" ELSE "read"
    /\ startDist' = Dist(lhead, ktail) /\ startProc' = Len(processed)
    \* Deviation: give the whole batch back to the kernel before reading it.
    /\ khead' = IF "StoreHeadEarly" \in Dev THEN ktail ELSE khead
    /\ UNCHANGED <<ktail, slot, nextPost, lhead, polls, processed, routed, badRead>>

\* io_uring_enter with a zero timeout, then the tail is loaded again.
Enter ==
    /\ pc = "enter"
    /\ ltail' = ktail /\ pc' = "read"
    /\ startDist' = Dist(lhead, ktail)
    /\ UNCHANGED <<khead, ktail, slot, nextPost, lhead, polls, processed, routed, badRead, startProc>>

Read ==
    /\ pc = "read"
    /\ IF More(lhead, ltail)
       THEN LET c == slot[lhead % N] IN
            /\ processed' = Append(processed, c.id)
            \* the entry at this position must be the one the kernel published there
            /\ badRead' = (badRead \/ c.id # Len(processed) + 1)
            /\ routed' = IF c.skip \/ c.ud \in Reserved THEN routed ELSE Append(routed, c.id)
            /\ lhead' = (lhead + 1) % W
            /\ pc' = "read"
       ELSE /\ pc' = "store"
            /\ UNCHANGED <<processed, routed, badRead, lhead>>
    /\ UNCHANGED <<khead, ktail, slot, nextPost, ltail, polls, startDist, startProc>>

StoreHead ==
    /\ pc = "store"
    /\ khead' = lhead
    /\ pc' = "head" /\ polls' = polls + 1
    /\ UNCHANGED <<ktail, slot, nextPost, lhead, ltail, processed, routed, badRead, startDist, startProc>>

Next == KPost \/ (\E i \in 0..(N - 1) : KScribble(i)) \/ LoadHead \/ LoadTail \/ Enter \/ Read \/ StoreHead

Spec == Init /\ [][Next]_vars

\* ---- properties (C05) -----------------------------------------------------------
\* Exactly once, in publication order: what was processed is 1, 2, 3, ...
InOrderOnce == \A i \in 1..Len(processed) : processed[i] = i
\* Never interprets an entry the kernel has not published (or has re-used).
NeverReadsUnpublished == ~badRead
\* Bookkeeping completions never reach an operation.
ReservedIgnored == \A i \in 1..Len(routed) : ~Script[routed[i]].skip /\ Script[routed[i]].ud \notin Reserved
\* Nothing is lost: once the kernel has published everything and the poller
\* has polled again with the ring empty, everything was processed.
AllProcessed == (nextPost > Len(Script) /\ khead = ktail /\ pc = "head") => Len(processed) = Len(Script)
\* The ghost counters of CqInd.tla (the Apalache module with W = 2^32) through the histories of
\* this module: completions ever published, and the position behind the poller's local head.
GhostPost == Start + nextPost - 1
GhostLocal == Start + Len(processed)
GhostAgrees == /\ ktail = GhostPost % W
               /\ (pc \in {"tail", "enter", "read", "store"} => lhead = GhostLocal % W)
               /\ (pc = "head" => khead = GhostLocal % W)
GhostNoOverrun == GhostPost - GhostLocal >= 0 /\ GhostPost - GhostLocal <= N

\* A poll that saw completions processes all of them.
PollMakesProgress == (pc = "head" /\ polls > 0) => Len(processed) >= startProc + startDist

=============================================================================

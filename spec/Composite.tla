----------------------------- MODULE Composite -----------------------------
(***************************************************************************)
(* The all-or-error composite I/O operations of a10:                       *)
(*   write_all, write_all_vectored      (src/io/mod.rs 547-693)            *)
(*   send_all, send_all_vectored        (src/net.rs 1309-1381, 1433-1525)  *)
(*   read_n, read_n_vectored            (src/io/mod.rs 435-545)            *)
(*   recv_n, recv_n_vectored            (src/net.rs 1258-1307, 1381-1431)  *)
(* as the reference state machine the implementation has to refine: the    *)
(* caller's buffers form one logical byte stream; every request handed to  *)
(* the kernel covers exactly the not-yet-transferred rest of it, the       *)
(* kernel answers with any short count, and the operation ends with        *)
(* success only when everything (or at least n bytes) went through.        *)
(*                                                                         *)
(* Init is nondeterministic over the input shapes; each behaviour is one   *)
(* (input, sequence of kernel answers) pair and is exported as a test case *)
(* carrying the requests the implementation must issue.                    *)
(***************************************************************************)
EXTENDS Naturals, Integers, Sequences, FiniteSets, TLC

CONSTANTS MaxBufs, MaxLen, Offsets, FlagVals

Kinds == {"write_all", "write_all_vectored", "send_all", "send_all_vectored",
          "read_n", "read_n_vectored", "recv_n", "recv_n_vectored"}
IsVectored(k) == k \in {"write_all_vectored", "send_all_vectored", "read_n_vectored", "recv_n_vectored"}
IsRead(k)     == k \in {"read_n", "read_n_vectored", "recv_n", "recv_n_vectored"}
IsSocket(k)   == k \in {"send_all", "send_all_vectored", "recv_n", "recv_n_vectored"}
Positional(k) == ~IsSocket(k)

VARIABLES
    kind,     \* which operation
    lens,     \* buffer lengths (writes) / spare capacities (reads), a sequence
    target,   \* reads: the n of read_n; writes: total length
    off,      \* positional kinds: starting offset, -1 = current position
    flags,    \* socket kinds: msg flags chosen by the caller
    zc,       \* sends: zero-copy mode
    extract,  \* writes/sends: the Extract variant (returns the buffers)
    pool,     \* read_n / recv_n: the buffer is a ReadBuf of a ReadBufPool (the kernel
              \* selects the buffer for the first request; lens = <<pool buffer size>>)
    done,     \* bytes transferred so far
    pc,       \* "req" | "ans" | "ok" | "zero"
    reqs,     \* history: requests issued, each [pos, len, foff]
    answers   \* history: kernel answers

vars == <<kind, lens, target, off, flags, zc, extract, pool, done, pc, reqs, answers>>

RECURSIVE Sum(_)
Sum(s) == IF s = <<>> THEN 0 ELSE Head(s) + Sum(Tail(s))
Total == Sum(lens)

Shapes(nb) == {l \in [1..nb -> 0..MaxLen] : Sum(l) >= 1}

Init ==
    /\ kind \in Kinds
    /\ \E nb \in 1..MaxBufs : /\ (~IsVectored(kind) => nb = 1)
                              /\ lens \in Shapes(nb)
    /\ target \in (IF IsRead(kind) THEN 1..Total ELSE {Total})
    /\ off \in (IF Positional(kind) THEN Offsets ELSE {-1})
    /\ flags \in (IF IsSocket(kind) THEN FlagVals ELSE {0})
    /\ zc \in (IF kind \in {"send_all", "send_all_vectored"} THEN BOOLEAN ELSE {FALSE})
    /\ extract \in (IF IsRead(kind) THEN {FALSE} ELSE BOOLEAN)
    /\ pool \in (IF kind \in {"read_n", "recv_n"} THEN BOOLEAN ELSE {FALSE})
    /\ done = 0
    /\ pc = "req"
    /\ reqs = <<>>
    /\ answers = <<>>

\* The operation hands the kernel the rest of the stream: position `done`,
\* everything up to the end, continuing at the right file offset, with the
\* caller's flags and mode.
Request ==
    /\ pc = "req"
    /\ reqs' = Append(reqs, [pos |-> done, len |-> Total - done,
                             foff |-> IF off = -1 THEN -1 ELSE off + done,
                             flags |-> flags, zc |-> zc,
                             \* the first request with a pool buffer lets the kernel pick the buffer
                             select |-> pool /\ done = 0])
    /\ pc' = "ans"
    /\ UNCHANGED <<kind, lens, target, off, flags, zc, extract, pool, done, answers>>

\* The kernel transfers any number of the requested bytes, possibly none.
Answer(k) ==
    /\ pc = "ans"
    /\ k \in 0..(Total - done)
    /\ answers' = Append(answers, k)
    /\ IF k = 0
       THEN /\ pc' = "zero"                  \* WriteZero / UnexpectedEof
            /\ done' = done
       ELSE /\ done' = done + k
            /\ pc' = IF done + k >= target THEN "ok" ELSE "req"
    /\ UNCHANGED <<kind, lens, target, off, flags, zc, extract, pool, reqs>>

Terminal == pc \in {"ok", "zero"}

Next == (\E k \in 0..(MaxBufs * MaxLen) : Answer(k)) \/ Request \/ (Terminal /\ UNCHANGED vars)

Spec == Init /\ [][Next]_vars

\* ---- properties -----------------------------------------------------------
\* C10: success only after every byte (writes) / at least n bytes (reads).
SuccessMeansAll == pc = "ok" => IF IsRead(kind) THEN done >= target ELSE done = Total

\* C10: the requests tile the stream: each starts where the previous answers
\* ended, so every byte is handed to the kernel exactly once and in order.
RECURSIVE Prefix(_, _)
Prefix(s, i) == IF i = 0 THEN 0 ELSE s[i] + Prefix(s, i - 1)
Tiled == \A i \in 1..Len(reqs) :
            /\ reqs[i].pos = Prefix(answers, i - 1)
            /\ reqs[i].len = Total - reqs[i].pos
            /\ reqs[i].foff = (IF off = -1 THEN -1 ELSE off + reqs[i].pos)
            /\ reqs[i].flags = flags /\ reqs[i].zc = zc

\* C10: failure exactly when the kernel transferred nothing.
ZeroMeansZero == pc = "zero" <=> (answers # <<>> /\ answers[Len(answers)] = 0)

=============================================================================

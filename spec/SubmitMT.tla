------------------------------- MODULE SubmitMT -------------------------------
(***************************************************************************)
(* Submissions::add (src/io_uring/sq.rs 25-80) at the granularity of its   *)
(* atomic accesses, with several submitting threads and a kernel that      *)
(* consumes entries at any time (IORING_SETUP_SQPOLL) -- the worst case    *)
(* for the submitters.  Counters are free running modulo W (the code: 2^32;*)
(* here small, so every wrap position is explored).                        *)
(*                                                                         *)
(* Steps of one add (pc values), each one segment between two scheduling   *)
(* points of the instrumented code:                                        *)
(*   h1    load head                    (load_kernel_shared)               *)
(*   t1    load tail, unlocked check    (load_kernel_shared, sq.add.checked)*)
(*   lock  acquire submissions_lock     (lock / lock.wait)                 *)
(*   h2    load head                                                       *)
(*   t2    load tail, locked check                                         *)
(*   zero  reset the slot               (sq.add.reset)                     *)
(*   fill  fill the slot                (sq.add.filled)                    *)
(*   pub   fence; store tail = t2 + 1                                      *)
(*   unl   release the lock                                                *)
(***************************************************************************)
EXTENDS Naturals, Sequences, FiniteSets, TLC

CONSTANTS Threads,      \* submitting threads
          Adds,         \* adds per thread
          N,            \* queue entries (power of two)
          W,            \* counter modulus (multiple of N, > N)
          Start,        \* initial value of head and tail
          Dev           \* deviations: "LockedCheckOffByOne" (the code before the fix),
                        \* "StaleTailRecheck" (the locked check compares the fresh head
                        \* with the tail loaded *before* the lock was taken)

Deviations == {"LockedCheckOffByOne", "StaleTailRecheck"}
Stale == "StaleTailRecheck" \in Dev

VARIABLES head, tail, slot, lockHolder, pc, h, t, k, accepted, consumed, rejected

vars == <<head, tail, slot, lockHolder, pc, h, t, k, accepted, consumed, rejected>>

Dist(a, b) == (b - a + W) % W       \* entries published and not consumed
Payload(th, i) == th * 10 + i
Zeroed == 0                         \* content of a slot between reset and fill
NoThread == 0

Init ==
    /\ head = Start /\ tail = Start
    /\ slot = [i \in 0..(N - 1) |-> Zeroed]
    /\ lockHolder = NoThread
    /\ pc = [th \in Threads |-> "h1"]
    /\ h = [th \in Threads |-> 0] /\ t = [th \in Threads |-> 0]
    /\ k = [th \in Threads |-> 1]            \* index of the add in progress
    /\ accepted = {} /\ consumed = <<>> /\ rejected = {}

\* The add of thread th ends (Ok or QueueFull): go on with the next one.
NextAdd(th, pcs) == [pcs EXCEPT ![th] = IF k[th] < Adds THEN "h1" ELSE "done"]

LoadHead1(th) ==
    /\ pc[th] = "h1"
    /\ h' = [h EXCEPT ![th] = head]
    /\ pc' = [pc EXCEPT ![th] = "t1"]
    /\ UNCHANGED <<head, tail, slot, lockHolder, t, k, accepted, consumed, rejected>>

\* Unlocked check: give up early when the queue looks full.
LoadTail1(th) ==
    /\ pc[th] = "t1"
    /\ IF Dist(h[th], tail) >= N
       THEN /\ rejected' = rejected \cup {Payload(th, k[th])}
            /\ pc' = NextAdd(th, pc) /\ k' = [k EXCEPT ![th] = @ + 1]
       ELSE /\ pc' = [pc EXCEPT ![th] = "lock"] /\ UNCHANGED <<rejected, k>>
    /\ t' = IF Stale THEN [t EXCEPT ![th] = tail] ELSE t     \* remembered only by the deviation
    /\ UNCHANGED <<head, tail, slot, lockHolder, h, accepted, consumed>>

Lock(th) ==
    /\ pc[th] = "lock" /\ lockHolder = NoThread
    /\ lockHolder' = th
    /\ pc' = [pc EXCEPT ![th] = "h2"]
    /\ UNCHANGED <<head, tail, slot, h, t, k, accepted, consumed, rejected>>

LoadHead2(th) ==
    /\ pc[th] = "h2"
    /\ h' = [h EXCEPT ![th] = head]
    /\ pc' = [pc EXCEPT ![th] = "t2"]
    /\ UNCHANGED <<head, tail, slot, lockHolder, t, k, accepted, consumed, rejected>>

\* Locked check.  Contract: full when Dist >= N.  Before the fix: > N.
LockedFull(d) == IF "LockedCheckOffByOne" \in Dev THEN d > N ELSE d >= N

LoadTail2(th) ==
    /\ pc[th] = "t2"
    /\ t' = [t EXCEPT ![th] = tail]
    /\ IF LockedFull(Dist(h[th], IF Stale THEN t[th] ELSE tail))
       THEN /\ rejected' = rejected \cup {Payload(th, k[th])}
            /\ lockHolder' = NoThread
            /\ pc' = NextAdd(th, pc) /\ k' = [k EXCEPT ![th] = @ + 1]
       ELSE /\ pc' = [pc EXCEPT ![th] = "zero"] /\ UNCHANGED <<rejected, lockHolder, k>>
    /\ UNCHANGED <<head, tail, slot, h, accepted, consumed>>

Zero(th) ==
    /\ pc[th] = "zero"
    /\ slot' = [slot EXCEPT ![t[th] % N] = Zeroed]
    /\ pc' = [pc EXCEPT ![th] = "fill"]
    /\ UNCHANGED <<head, tail, lockHolder, h, t, k, accepted, consumed, rejected>>

Fill(th) ==
    /\ pc[th] = "fill"
    /\ slot' = [slot EXCEPT ![t[th] % N] = Payload(th, k[th])]
    /\ pc' = [pc EXCEPT ![th] = "pub"]
    /\ UNCHANGED <<head, tail, lockHolder, h, t, k, accepted, consumed, rejected>>

Publish(th) ==
    /\ pc[th] = "pub"
    /\ tail' = (t[th] + 1) % W
    /\ accepted' = accepted \cup {Payload(th, k[th])}
    /\ pc' = [pc EXCEPT ![th] = "unl"]
    /\ UNCHANGED <<head, slot, lockHolder, h, t, k, consumed, rejected>>

Unlock(th) ==
    /\ pc[th] = "unl"
    /\ lockHolder' = NoThread
    /\ pc' = NextAdd(th, pc) /\ k' = [k EXCEPT ![th] = @ + 1]
    /\ UNCHANGED <<head, tail, slot, h, t, accepted, consumed, rejected>>

\* The kernel reads the entry at head and advances head.
KConsume ==
    /\ head # tail
    /\ consumed' = Append(consumed, slot[head % N])
    /\ head' = (head + 1) % W
    /\ UNCHANGED <<tail, slot, lockHolder, pc, h, t, k, accepted, rejected>>

Step(th) == LoadHead1(th) \/ LoadTail1(th) \/ Lock(th) \/ LoadHead2(th) \/ LoadTail2(th)
            \/ Zero(th) \/ Fill(th) \/ Publish(th) \/ Unlock(th)

Next == (\E th \in Threads : Step(th)) \/ KConsume

Spec == Init /\ [][Next]_vars

\* ---- properties (C04) -------------------------------------------------------
\* The queue never holds more unconsumed entries than it has slots.
NoOverrun == Dist(head, tail) <= N

\* The kernel never sees a partially written or overwritten entry, and never
\* the same entry twice.
SeqToSet(s) == {s[i] : i \in 1..Len(s)}
NoTornOrForeign == \A i \in 1..Len(consumed) : consumed[i] \in accepted
ExactlyOnceSoFar == \A i, j \in 1..Len(consumed) : i # j => consumed[i] # consumed[j]

\* At quiescence everything accepted has been consumed exactly once.
Quiescent == (\A th \in Threads : pc[th] = "done") /\ head = tail
AllDelivered == Quiescent => SeqToSet(consumed) = accepted /\ Len(consumed) = Cardinality(accepted)

\* The ghost counters of SqInd.tla (the Apalache module with W = 2^32), expressed through the
\* histories of this module: entries ever published / ever consumed.  Checking them here ties the
\* inductive invariant proved there to the model that is bound to the code.
GhostPub == Start + Cardinality(accepted)
GhostCons == Start + Len(consumed)
GhostAgrees == tail = GhostPub % W /\ head = GhostCons % W
GhostNoOverrun == GhostPub - GhostCons >= 0 /\ GhostPub - GhostCons <= N
GhostWriterSafe == \A th \in Threads : pc[th] \in {"zero", "fill", "pub"} =>
                       lockHolder = th /\ t[th] = tail /\ GhostPub - GhostCons < N

\* An add reports QueueFull only if the queue was full at some point of the
\* call: (weaker, checkable form) never when nothing at all is pending and the
\* lock is held by the caller.  -- stated as: a rejected add never leaves the
\* queue empty with N >= 1 and no other thread active; covered by liveness of
\* the parked-future path (C03).

=============================================================================

------------------------------- MODULE ParkMT -------------------------------
(***************************************************************************)
(* Futures that find the submission queue full park their waker            *)
(* (Submissions::wait_for_submission, src/io_uring/sq.rs) while other      *)
(* threads call Ring::poll, whose io_uring_enter makes room and then runs  *)
(* Shared::wake_blocked_futures (src/io_uring/mod.rs 229-275).  Steps, at  *)
(* the granularity of the lock operations of the code:                     *)
(*                                                                         *)
(* future f:  try   Submissions::add: Ok if room, else QueueFull           *)
(*            park  lock(blocked); push(waker); unlock  (one step)         *)
(* poller:    enter      the kernel consumes every queued entry            *)
(*            avail      available := free slots; nothing to do if 0       *)
(*            take       try_lock(blocked): give up if held; take the list *)
(*            wake1      wake the first min(available, n) of them          *)
(*            swap       lock; the list the others filled meanwhile is     *)
(*                       swapped out, the unwoken rest swapped in; of the  *)
(*                       swapped-out ones min(available - woken, m) are    *)
(*                       put back, the others are woken                    *)
(* A woken future polls again (try).                                       *)
(***************************************************************************)
EXTENDS Naturals, Sequences, FiniteSets, TLC

CONSTANTS Futures,   \* futures that want to submit one entry each
          SQN,       \* submission queue entries
          MaxPolls   \* Ring::poll calls, 0 = unbounded (liveness)

VARIABLES sq,        \* queued, unconsumed entries
          blocked,   \* the shared list of parked wakers (a sequence of futures)
          fpc,       \* per future: "try", "park", "parked", "woken", "done"
          ppc, polls, avail, mineList, woken1,
          wakes      \* wake-ups delivered to each future since it last polled

vars == <<sq, blocked, fpc, ppc, polls, avail, mineList, woken1, wakes>>

Init ==
    /\ sq = SQN                         \* the queue starts full (earlier submissions)
    /\ blocked = <<>>
    /\ fpc = [f \in Futures |-> "try"]
    /\ ppc = "enter" /\ polls = 0 /\ avail = 0 /\ mineList = <<>> /\ woken1 = 0
    /\ wakes = [f \in Futures |-> 0]

Min(a, b) == IF a < b THEN a ELSE b
SeqSet(s) == {s[i] : i \in 1..Len(s)}
WakeAll(s) == [f \in Futures |-> IF f \in SeqSet(s) THEN wakes[f] + 1 ELSE wakes[f]]

\* ---- futures ----------------------------------------------------------------------
Try(f) ==
    /\ fpc[f] \in {"try", "woken"}
    /\ IF sq < SQN
       THEN sq' = sq + 1 /\ fpc' = [fpc EXCEPT ![f] = "done"]
       ELSE sq' = sq /\ fpc' = [fpc EXCEPT ![f] = "park"]
    /\ wakes' = [wakes EXCEPT ![f] = 0]
    /\ UNCHANGED <<blocked, ppc, polls, avail, mineList, woken1>>

Park(f) ==
    /\ fpc[f] = "park"
    /\ ppc # "locked"                   \* the list's lock is free
    /\ blocked' = Append(blocked, f)
    /\ fpc' = [fpc EXCEPT ![f] = "parked"]
    /\ UNCHANGED <<sq, ppc, polls, avail, mineList, woken1, wakes>>

\* The executor runs a woken future again.
Resume(f) ==
    /\ fpc[f] = "parked" /\ wakes[f] > 0
    /\ fpc' = [fpc EXCEPT ![f] = "woken"]
    /\ UNCHANGED <<sq, blocked, ppc, polls, avail, mineList, woken1, wakes>>

\* ---- poller -----------------------------------------------------------------------
Enter ==
    /\ ppc = "enter" /\ (MaxPolls = 0 \/ polls < MaxPolls)
    /\ sq' = 0
    /\ ppc' = "avail"
    /\ UNCHANGED <<blocked, fpc, polls, avail, mineList, woken1, wakes>>

Avail ==
    /\ ppc = "avail"
    /\ avail' = SQN - sq
    /\ ppc' = IF SQN - sq = 0 THEN "end" ELSE "take"
    /\ UNCHANGED <<sq, blocked, fpc, polls, mineList, woken1, wakes>>

\* try_lock succeeds (Park is one step, so the lock is never held by a future here).
Take ==
    /\ ppc = "take"
    /\ IF blocked = <<>>
       THEN ppc' = "end" /\ UNCHANGED <<blocked, mineList>>
       ELSE mineList' = blocked /\ blocked' = <<>> /\ ppc' = "wake1"
    /\ UNCHANGED <<sq, fpc, polls, avail, woken1, wakes>>

Wake1 ==
    /\ ppc = "wake1"
    /\ LET k == Min(avail, Len(mineList)) IN
       /\ wakes' = WakeAll(SubSeq(mineList, 1, k))
       /\ mineList' = SubSeq(mineList, k + 1, Len(mineList))
       /\ woken1' = k
    /\ ppc' = "swap"
    /\ UNCHANGED <<sq, blocked, fpc, polls, avail>>

\* lock; swap(blocked, mine); put back min(available - woken, m) of the swapped-out ones (from the
\* end), wake the others; unlock.
Swap ==
    /\ ppc = "swap"
    /\ LET others == blocked                      \* parked while the poller was waking
           k == Min(avail - woken1, Len(others))
           back == SubSeq(others, Len(others) - k + 1, Len(others))
           rest == SubSeq(others, 1, Len(others) - k) IN
       /\ blocked' = mineList \o back
       /\ wakes' = WakeAll(rest)
    /\ mineList' = <<>>
    /\ ppc' = "end"
    /\ UNCHANGED <<sq, fpc, polls, avail, woken1>>

End ==
    /\ ppc = "end"
    /\ polls' = (IF MaxPolls = 0 THEN 0 ELSE polls + 1) /\ ppc' = "enter"
    /\ UNCHANGED <<sq, blocked, fpc, avail, mineList, woken1, wakes>>

Next == (\E f \in Futures : Try(f) \/ Park(f) \/ Resume(f)) \/ Enter \/ Avail \/ Take \/ Wake1 \/ Swap \/ End

Spec == Init /\ [][Next]_vars
FairSpec == Spec /\ WF_vars(Enter \/ Avail \/ Take \/ Wake1 \/ Swap \/ End) /\ \A f \in Futures : WF_vars(Try(f) \/ Park(f) \/ Resume(f))

\* ---- properties (C03, submission-slot part) -----------------------------------------
\* No waker is ever lost: a parked future is in the shared list, in the poller's hands, or has
\* been woken.
NoLostWaker == \A f \in Futures : fpc[f] = "parked" => (f \in SeqSet(blocked) \/ f \in SeqSet(mineList) \/ wakes[f] > 0)
\* With the poller polling for ever, every future eventually submits.
AllSubmit == <>(\A f \in Futures : fpc[f] = "done")
=============================================================================

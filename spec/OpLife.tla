------------------------------- MODULE OpLife -------------------------------
(***************************************************************************)
(* The life of one operation's shared state (src/io_uring/op.rs), as seen  *)
(* through the hook events, for any number of operations at once.  It is   *)
(* the projection of Ring.tla onto a single operation, written so that     *)
(* executions recorded from the repository's own test suite running on the *)
(* *real* kernel can be validated against it (Trace_OpLife.tla): the       *)
(* simulated kernel plays no part in that check.                           *)
(*                                                                         *)
(* status: none (no such operation / freed), NotStarted, Running, Done,    *)
(* Dropped, Complete, Dead (the future is gone and the state is about to   *)
(* be freed).  held: the kernel has accepted a submission carrying this    *)
(* operation's user_data and has not yet posted its final completion.      *)
(***************************************************************************)
EXTENDS Naturals, FiniteSets, TLC

CONSTANTS Ids      \* operation slots (the trace pre-processing renames pointers to slots)

VARIABLES st, held, queued, ms, routed

vars == <<st, held, queued, ms, routed>>

Statuses == {"none", "NotStarted", "Running", "Done", "Dropped", "Complete", "Dead"}

Init ==
    /\ st = [i \in Ids |-> "none"]
    /\ held = [i \in Ids |-> FALSE]
    /\ queued = [i \in Ids |-> 0]
    /\ ms = [i \in Ids |-> FALSE]
    /\ routed = [i \in Ids |-> FALSE]

\* State::new
New(i, multishot) ==
    /\ st[i] = "none"
    /\ st' = [st EXCEPT ![i] = "NotStarted"]
    /\ ms' = [ms EXCEPT ![i] = multishot]
    /\ queued' = [queued EXCEPT ![i] = 0]
    /\ UNCHANGED <<held, routed>>

\* Submissions::add published an entry carrying this operation's user_data.
Publish(i) ==
    /\ st[i] = "NotStarted" /\ ~held[i]
    /\ held' = [held EXCEPT ![i] = TRUE]
    /\ UNCHANGED <<st, queued, ms, routed>>

\* The submitting thread records Running after the entry was published; by then another thread may
\* already have read the completion (its handler then waits for the operation's lock).
Submitted(i) ==
    /\ st[i] = "NotStarted" /\ (held[i] \/ routed[i])
    /\ st' = [st EXCEPT ![i] = "Running"]
    /\ UNCHANGED <<held, queued, ms, routed>>

QueueFull(i) ==
    /\ st[i] = "NotStarted" /\ ~held[i]
    /\ UNCHANGED vars

\* Completions::poll read a completion carrying this operation's user_data; `more`: not the last one.
Route(i, more) ==
    /\ held[i] /\ ~routed[i]
    /\ routed' = [routed EXCEPT ![i] = TRUE]
    /\ held' = [held EXCEPT ![i] = more]
    /\ UNCHANGED <<st, queued, ms>>

\* Shared::update, the handler of that completion (held[i] still tells whether more will follow).
Update(i, more) ==
    /\ routed[i] /\ more = held[i]
    /\ routed' = [routed EXCEPT ![i] = FALSE]
    /\ \/ /\ st[i] = "Running"
          \* single-shot operations keep one result slot (a zero-copy notification does not replace it)
          /\ queued' = [queued EXCEPT ![i] = IF ms[i] THEN @ + 1 ELSE 1]
          /\ st' = [st EXCEPT ![i] = IF more THEN "Running" ELSE "Done"]
       \/ /\ st[i] = "Dropped"
          /\ st' = [st EXCEPT ![i] = IF more THEN "Dropped" ELSE "Dead"]
          /\ UNCHANGED queued
    /\ UNCHANGED <<held, ms>>

Pending(i) ==
    /\ st[i] = "Running"
    /\ (ms[i] => queued[i] = 0)
    /\ UNCHANGED vars

\* A queued result is handed to the future.
ResultWhileRunning(i) ==
    /\ st[i] = "Running" /\ ms[i] /\ queued[i] > 0
    /\ queued' = [queued EXCEPT ![i] = @ - 1]
    /\ UNCHANGED <<st, held, ms, routed>>

ResultWhenDone(i) ==
    /\ st[i] = "Done" /\ queued[i] > 0
    /\ queued' = [queued EXCEPT ![i] = IF ms[i] THEN @ - 1 ELSE 0]
    /\ st' = [st EXCEPT ![i] = IF ms[i] THEN "Done" ELSE "Complete"]
    /\ UNCHANGED <<held, ms, routed>>

End(i) ==
    /\ st[i] = "Done" /\ ms[i] /\ queued[i] = 0
    /\ st' = [st EXCEPT ![i] = "Complete"]
    /\ UNCHANGED <<held, queued, ms, routed>>

\* EINTR / ECANCELED: the operation starts over.
Restart(i) ==
    /\ \/ st[i] = "Complete" /\ ~ms[i]
       \/ st[i] = "Done" /\ ms[i] /\ queued[i] = 0
    /\ ~held[i]
    /\ st' = [st EXCEPT ![i] = "NotStarted"]
    /\ UNCHANGED <<held, queued, ms, routed>>

\* State::reset: a finished operation is reused for the next request of a composite one.
Reset(i) ==
    /\ st[i] = "Complete" /\ ~held[i]
    /\ st' = [st EXCEPT ![i] = "NotStarted"]
    /\ queued' = [queued EXCEPT ![i] = 0]
    /\ UNCHANGED <<held, ms, routed>>

\* Dropping the future while the kernel still owns the operation: a cancel is queued and the state
\* lives on until the final completion.
DropRunning(i) ==
    /\ st[i] = "Running"
    /\ st' = [st EXCEPT ![i] = "Dropped"]
    /\ UNCHANGED <<held, queued, ms, routed>>

\* (Publishing and recording Running happen inside one poll of the future, so the future cannot be
\* dropped in between.)
DropIdle(i) ==
    /\ st[i] \in {"NotStarted", "Done", "Complete"}
    /\ ~held[i] /\ ~routed[i]
    /\ st' = [st EXCEPT ![i] = "Dead"]
    /\ UNCHANGED <<held, queued, ms, routed>>

Free(i) ==
    /\ st[i] = "Dead"
    /\ st' = [st EXCEPT ![i] = "none"]
    /\ queued' = [queued EXCEPT ![i] = 0]
    /\ UNCHANGED <<held, ms, routed>>

Next == \E i \in Ids :
    \/ New(i, TRUE) \/ New(i, FALSE) \/ Publish(i) \/ Submitted(i) \/ QueueFull(i)
    \/ Route(i, TRUE) \/ Route(i, FALSE) \/ Update(i, TRUE) \/ Update(i, FALSE)
    \/ Pending(i) \/ ResultWhileRunning(i) \/ ResultWhenDone(i) \/ End(i) \/ Restart(i) \/ Reset(i)
    \/ DropRunning(i) \/ DropIdle(i) \/ Free(i)

Spec == Init /\ [][Next]_vars

\* ---- properties -------------------------------------------------------------------
TypeOK == /\ \A i \in Ids : st[i] \in Statuses /\ queued[i] \in Nat

\* C01: the state of an operation (and the buffers it owns) is never freed, nor is the future
\* gone without the state staying behind, while the kernel holds a request for it.
MemSafe == \A i \in Ids : (held[i] \/ routed[i]) => st[i] \in {"NotStarted", "Running", "Dropped"}

\* C02: results are handed out only if they were delivered (enforced by the guards of the Result
\* actions: queued > 0), and a completion reaches an operation only while the kernel holds it
\* (guard of Route).

\* C06: an abandoned operation is reclaimed only by its final completion.
DeadIsFinal == \A i \in Ids : st[i] = "Dead" => ~held[i]
=============================================================================

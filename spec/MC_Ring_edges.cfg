SPECIFICATION Spec
CONSTANTS
    Ops = {1, 2}
    Kind <- K_sm
    SQN = 2
    CQN = 2
    Wakers = {1, 2}
    MaxPost = 1
    MaxRestart = 1
    Dev = {}
    MaxBlocked = 2
CONSTRAINT Bounded
VIEW viewNH
CHECK_DEADLOCK FALSE
ACTION_CONSTRAINT LogEdge

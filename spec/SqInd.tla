-------------------------------- MODULE SqInd --------------------------------
(***************************************************************************)
(* The counter arithmetic of Submissions::add (src/io_uring/sq.rs) with    *)
(* the real modulus W = 2^32, for EVERY queue size N that io_uring allows  *)
(* (a power of two up to 32768) and for runs of ANY length: an inductive   *)
(* invariant, discharged by Apalache (SMT), where SubmitMT.tla is checked  *)
(* by TLC for a small W only.                                              *)
(*                                                                         *)
(* The actions are those of SubmitMT.tla (same names, same granularity:    *)
(* one per atomic access); what is dropped is the content of the slots     *)
(* and the histories, what is added are two ghost counters that do not     *)
(* wrap: pub (entries ever published) and cons (entries ever consumed),    *)
(* and per thread the ghost hc behind its possibly stale copy h of head.   *)
(* The code only ever sees head = cons mod W, tail = pub mod W.            *)
(*                                                                         *)
(* What the invariant gives (C04):                                         *)
(*   NoOverrun    0 <= pub - cons <= N at all times, so the N slots        *)
(*                never hold more than N unconsumed entries;               *)
(*   WriterSafe   whoever resets / fills / publishes a slot holds the      *)
(*                lock, writes position pub, and pub - cons < N: position  *)
(*                pub differs from every unconsumed position c in          *)
(*                [cons, pub) by 0 < pub - c < N, hence lies in another    *)
(*                slot (N divides W, so (x mod W) mod N = x mod N).        *)
(* NextOffByOne is the code before fix 29a478a (locked check `> N`): the   *)
(* same invariant is NOT inductive for it, which the check confirms.       *)
(*                                                                         *)
(* Threads never stop (no bound on adds), the kernel consumes at any time  *)
(* (SQPOLL, the worst case).  The unlocked early check may use an          *)
(* arbitrarily stale head (even one that is 2^32 entries old): it can only *)
(* reject, never accept, so it needs no invariant.                         *)
(***************************************************************************)
EXTENDS Integers

CONSTANT
    \* @type: Int;
    N

W == 4294967296
Threads == {1, 2, 3}
NoThread == 0

VARIABLES
    \* @type: Int;
    head,
    \* @type: Int;
    tail,
    \* @type: Int;
    pub,
    \* @type: Int;
    cons,
    \* @type: Int;
    lockHolder,
    \* @type: Int -> Str;
    pc,
    \* @type: Int -> Int;
    h,
    \* @type: Int -> Int;
    hc,
    \* @type: Int -> Int;
    t

vars == <<head, tail, pub, cons, lockHolder, pc, h, hc, t>>

ConstInit == N \in {1, 2, 4, 8, 16, 32, 64, 128, 256, 512, 1024, 2048, 4096, 8192, 16384, 32768}

Dist(a, b) == (b - a + W) % W

PCs == {"h1", "t1", "lock", "h2", "t2", "zero", "fill", "pub", "unl"}
Locked == {"h2", "t2", "zero", "fill", "pub", "unl"}
Writing == {"zero", "fill", "pub"}

Init ==
    /\ \E s \in Int : s >= 0 /\ s < W /\ head = s /\ tail = s /\ pub = s /\ cons = s
    /\ lockHolder = NoThread
    /\ pc = [th \in Threads |-> "h1"]
    /\ h = [th \in Threads |-> 0] /\ hc = [th \in Threads |-> 0]
    /\ t = [th \in Threads |-> 0]

LoadHead1(th) ==
    /\ pc[th] = "h1"
    /\ h' = [h EXCEPT ![th] = head] /\ hc' = [hc EXCEPT ![th] = cons]
    /\ pc' = [pc EXCEPT ![th] = "t1"]
    /\ UNCHANGED <<head, tail, pub, cons, lockHolder, t>>

LoadTail1(th) ==
    /\ pc[th] = "t1"
    /\ pc' = [pc EXCEPT ![th] = IF Dist(h[th], tail) >= N THEN "h1" ELSE "lock"]
    /\ t' = [t EXCEPT ![th] = tail]       \* overwritten at t2; used by the stale-tail deviation only
    /\ UNCHANGED <<head, tail, pub, cons, lockHolder, h, hc>>

Lock(th) ==
    /\ pc[th] = "lock" /\ lockHolder = NoThread
    /\ lockHolder' = th
    /\ pc' = [pc EXCEPT ![th] = "h2"]
    /\ UNCHANGED <<head, tail, pub, cons, h, hc, t>>

LoadHead2(th) ==
    /\ pc[th] = "h2"
    /\ h' = [h EXCEPT ![th] = head] /\ hc' = [hc EXCEPT ![th] = cons]
    /\ pc' = [pc EXCEPT ![th] = "t2"]
    /\ UNCHANGED <<head, tail, pub, cons, lockHolder, t>>

LoadTail2G(th, offByOne, stale) ==
    /\ pc[th] = "t2"
    /\ t' = [t EXCEPT ![th] = tail]
    /\ LET d == Dist(h[th], IF stale THEN t[th] ELSE tail)
           full == IF offByOne THEN d > N ELSE d >= N IN
       IF full
       THEN /\ lockHolder' = NoThread
            /\ pc' = [pc EXCEPT ![th] = "h1"]
       ELSE /\ pc' = [pc EXCEPT ![th] = "zero"]
            /\ UNCHANGED lockHolder
    /\ UNCHANGED <<head, tail, pub, cons, h, hc>>

Zero(th) ==
    /\ pc[th] = "zero"
    /\ pc' = [pc EXCEPT ![th] = "fill"]
    /\ UNCHANGED <<head, tail, pub, cons, lockHolder, h, hc, t>>

Fill(th) ==
    /\ pc[th] = "fill"
    /\ pc' = [pc EXCEPT ![th] = "pub"]
    /\ UNCHANGED <<head, tail, pub, cons, lockHolder, h, hc, t>>

Publish(th) ==
    /\ pc[th] = "pub"
    /\ tail' = (t[th] + 1) % W
    /\ pub' = pub + 1
    /\ pc' = [pc EXCEPT ![th] = "unl"]
    /\ UNCHANGED <<head, cons, lockHolder, h, hc, t>>

Unlock(th) ==
    /\ pc[th] = "unl"
    /\ lockHolder' = NoThread
    /\ pc' = [pc EXCEPT ![th] = "h1"]
    /\ UNCHANGED <<head, tail, pub, cons, h, hc, t>>

KConsume ==
    /\ head # tail
    /\ head' = (head + 1) % W
    /\ cons' = cons + 1
    /\ UNCHANGED <<tail, pub, lockHolder, pc, h, hc, t>>

StepG(th, o, st) == LoadHead1(th) \/ LoadTail1(th) \/ Lock(th) \/ LoadHead2(th) \/ LoadTail2G(th, o, st)
                \/ Zero(th) \/ Fill(th) \/ Publish(th) \/ Unlock(th)

Next == (\E th \in Threads : StepG(th, FALSE, FALSE)) \/ KConsume
NextOffByOne == (\E th \in Threads : StepG(th, TRUE, FALSE)) \/ KConsume
\* The locked check compares the fresh head with the tail loaded before the lock.
NextStaleTail == (\E th \in Threads : StepG(th, FALSE, TRUE)) \/ KConsume

\* ---- the inductive invariant ------------------------------------------------
InW(x) == 0 <= x /\ x < W
TypeOK ==
    /\ InW(head) /\ InW(tail)
    /\ pub >= 0 /\ cons >= 0
    /\ lockHolder \in Threads \cup {NoThread}
    /\ DOMAIN pc = Threads /\ DOMAIN h = Threads /\ DOMAIN hc = Threads /\ DOMAIN t = Threads
    /\ \A th \in Threads : pc[th] \in PCs /\ InW(h[th]) /\ hc[th] >= 0 /\ InW(t[th])

Ghost == head = cons % W /\ tail = pub % W

NoOverrun == 0 <= pub - cons /\ pub - cons <= N

LockInv == \A th \in Threads : (pc[th] \in Locked) <=> (lockHolder = th)

CheckInv == \A th \in Threads :
    pc[th] = "t2" => /\ h[th] = hc[th] % W
                     /\ hc[th] <= cons
                     /\ pub - hc[th] <= N

WriterSafe == \A th \in Threads :
    pc[th] \in Writing => /\ lockHolder = th
                          /\ t[th] = tail
                          /\ pub - cons < N

IndInv == TypeOK /\ Ghost /\ NoOverrun /\ LockInv /\ CheckInv /\ WriterSafe

\* What the code can observe of NoOverrun.
VisibleNoOverrun == Dist(head, tail) <= N

\* Apalache: IndInit is "any state satisfying IndInv".
IndInit ==
    /\ head \in Int /\ tail \in Int
    /\ pub \in Int /\ cons \in Int
    /\ lockHolder \in Threads \cup {NoThread}
    /\ pc \in [Threads -> PCs]
    /\ h \in [Threads -> Int]
    /\ hc \in [Threads -> Int]
    /\ t \in [Threads -> Int]
    /\ IndInv

Safety == IndInv /\ VisibleNoOverrun

\* Vacuity probe: must be violated from IndInit (some thread is writing a slot).
NoWriter == \A th \in Threads : pc[th] \notin Writing
=============================================================================

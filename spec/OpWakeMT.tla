------------------------------ MODULE OpWakeMT ------------------------------
(***************************************************************************)
(* C03, completion part, with the future and the Ring on different threads:*)
(* one thread polls the future of an operation in flight (each poll with a *)
(* new waker) while another thread's Ring::poll processes its completions. *)
(* Both sides take the operation's lock (src/io_uring/op.rs: poll_inner    *)
(* and Shared::update), so each is one atomic step here.                   *)
(*                                                                         *)
(* Multi = FALSE: a single-shot operation, one final completion.           *)
(* Multi = TRUE: a multishot operation, Results completions, the last one  *)
(* final; every completion wakes.                                          *)
(***************************************************************************)
EXTENDS Naturals, FiniteSets, TLC

CONSTANTS MaxPolls,   \* polls of the future (waker i is used by poll i)
          Results,    \* completions the kernel posts
          Multi

VARIABLES stored,     \* waker stored in the operation (0 = none)
          queued,     \* results delivered and not yet handed out
          done,       \* the final completion has been processed
          posted,     \* completions processed by the Ring so far
          npolls,     \* polls of the future so far
          woken,      \* set of wakers that have been invoked
          ready       \* results / end the future has returned so far

vars == <<stored, queued, done, posted, npolls, woken, ready>>

Init ==
    /\ stored = 0 /\ queued = 0 /\ done = FALSE /\ posted = 0 /\ npolls = 0 /\ woken = {} /\ ready = 0

\* Future::poll with waker npolls + 1.
Poll ==
    /\ npolls < MaxPolls
    /\ npolls' = npolls + 1
    /\ IF queued > 0 /\ (Multi \/ done)
       THEN \* a result is available
            /\ queued' = queued - 1 /\ ready' = ready + 1
            /\ UNCHANGED stored
       ELSE IF done
       THEN ready' = ready + 1 /\ UNCHANGED <<queued, stored>>     \* end of a multishot stream
       ELSE stored' = npolls + 1 /\ UNCHANGED <<queued, ready>>    \* Pending: remember the waker
    /\ UNCHANGED <<done, posted, woken>>

\* Ring::poll processes the next completion of the operation.
Complete ==
    /\ posted < Results
    /\ posted' = posted + 1
    /\ queued' = IF Multi THEN queued + 1 ELSE 1
    /\ done' = (posted + 1 = Results)
    /\ IF (Multi \/ posted + 1 = Results) /\ stored # 0
       THEN woken' = woken \cup {stored} /\ stored' = 0
       ELSE UNCHANGED <<woken, stored>>
    /\ UNCHANGED <<npolls, ready>>

Next == Poll \/ Complete
Spec == Init /\ [][Next]_vars

\* Whenever a result is available to the future, no waker of an earlier Pending poll is left stored
\* without having been invoked: the last Pending poll's waker has been woken.
NoLostWake == (queued > 0 /\ (Multi \/ done) /\ npolls > 0) => (stored = 0)
\* ... and the waker invoked is never a replaced one that hides the newest: the newest waker of a
\* pending poll is the stored one.
NewestStored == stored # 0 => stored <= npolls
=============================================================================

SPECIFICATION Spec
CONSTANTS
    MaxBufs = 3
    MaxLen = 2
    Offsets <- OffsetsDef
    FlagVals = {0, 16384}
INVARIANTS
    SuccessMeansAll
    Tiled
    ZeroMeansZero
    ExportCase
CHECK_DEADLOCK FALSE

---------------------------- MODULE Trace_WakeMT ----------------------------
(***************************************************************************)
(* Trace validation for WakeMT: executions of the real Ring::poll(None) /  *)
(* SubmissionQueue::wake under the baton scheduler, recorded in their      *)
(* exact global order, must be behaviours of WakeMT.  Logged events:       *)
(*   PollCall, PollBegin(visible), SetPolling(on, previous state byte),    *)
(*   PollerEnter (return of the blocking system call), Reload(visible),    *)
(*   PollReturn,                                                           *)
(*   RingDrop, WakeCall, Fetch(previous state byte), Queued, QueueFull,    *)
(*   SentSync, WakerEnter, WakeReturn, KConsume, KFiller, Reset.           *)
(* The previous values of the PollingState byte that the code observed     *)
(* (atomic swap / fetch_or) are bound to the model's two bits.  The only   *)
(* silent step is PEnter (the submission half of the poller's system call).*)
(***************************************************************************)
EXTENDS WakeMT, Json, IOUtils, Sequences

Rec == ndJsonDeserialize(IOEnv.TRACE)

VARIABLE l
tvars == <<vars, l>>

TraceInit == Init /\ l = 1

IsEvent(e) == l <= Len(Rec) /\ Rec[l].ev = e /\ l' = l + 1

Byte == (IF polling THEN 1 ELSE 0) + (IF awoken THEN 2 ELSE 0)

TPollCall == IsEvent("PollCall") /\ ppc = "start" /\ UNCHANGED vars
TPollBegin == IsEvent("PollBegin") /\ ((Rec[l].a > 0) <=> (cq > 0)) /\ PStart
TSetPolling ==
    /\ IsEvent("SetPolling")
    /\ Rec[l].b = Byte
    /\ IF Rec[l].a = 1 THEN PAnnounce ELSE PClear
TPollerEnter == IsEvent("PollerEnter") /\ PWake
TReload == IsEvent("Reload") /\ ((Rec[l].a > 0) <=> (cq > 0)) /\ PReload
TPollReturn == IsEvent("PollReturn") /\ PProcess
TRingDrop == IsEvent("RingDrop") /\ PDrop

TWakeCall == IsEvent("WakeCall") /\ Rec[l].th \in Wakers /\ WBegin(Rec[l].th)
TFetch == IsEvent("Fetch") /\ Rec[l].th \in Wakers /\ Rec[l].a = Byte /\ WFetch(Rec[l].th)
TQueued == IsEvent("Queued") /\ Rec[l].th \in Wakers /\ WSendOk(Rec[l].th)
TQueueFull == IsEvent("QueueFull") /\ Rec[l].th \in Wakers /\ WSendFull(Rec[l].th)
TSentSync == IsEvent("SentSync") /\ Rec[l].th \in Wakers /\ WSendSync(Rec[l].th)
TWakerEnter == IsEvent("WakerEnter") /\ Rec[l].th \in Wakers /\ WSubmit(Rec[l].th)
TWakeReturn == IsEvent("WakeReturn") /\ Rec[l].th \in Wakers /\ wpc[Rec[l].th] \in {"begin", "done"} /\ UNCHANGED vars
TKConsume == IsEvent("KConsume") /\ filler = 0 /\ KConsume
TKFiller == IsEvent("KFiller") /\ filler > 0 /\ KConsume

TReset ==
    /\ IsEvent("Reset")
    /\ polling' = FALSE /\ awoken' = FALSE
    /\ ppc' = "start" /\ short' = FALSE /\ polls' = 0
    /\ wpc' = [w \in Wakers |-> "begin"] /\ wk' = [w \in Wakers |-> 1] /\ wok' = [w \in Wakers |-> FALSE]
    /\ sq' = 0 /\ filler' = Fill /\ cq' = 0 /\ seen' = 0 /\ owed' = FALSE /\ dropped' = FALSE
    /\ late' = [w \in Wakers |-> FALSE]
    /\ stale' = [w \in Wakers |-> FALSE]

TraceNext ==
    \/ TPollCall \/ TPollBegin \/ TSetPolling \/ TPollerEnter \/ TReload \/ TPollReturn \/ TRingDrop
    \/ TWakeCall \/ TFetch \/ TQueued \/ TQueueFull \/ TSentSync \/ TWakerEnter \/ TWakeReturn
    \/ TKConsume \/ TKFiller \/ TReset
    \/ (PEnter /\ UNCHANGED l)

TraceSpec == TraceInit /\ [][TraceNext]_tvars

NotAtEnd == l <= Len(Rec)
TraceInvariants == TypeOK /\ NoLostWake /\ DroppedHarmless /\ PollingBit
=============================================================================

---------------------------- MODULE ReadBufEdit ----------------------------
(***************************************************************************)
(* A ReadBuf after the kernel filled it (src/io/read_buf.rs): a byte       *)
(* vector whose capacity is fixed at the pool's buffer size, living in one *)
(* slot of the pool's allocation.  Reference semantics: plain sequence     *)
(* operations.  The editing calls are truncate, clear, remove (all range   *)
(* forms), set_len, extend_from_slice, spare_capacity_mut, a second read   *)
(* into the spare capacity, and release.                                   *)
(*                                                                         *)
(* State: `owned` (the ReadBuf holds a slot) and `contents`.  A behaviour  *)
(* is: the kernel fills the slot with the initial contents, then Depth     *)
(* editing calls.  Each behaviour is exported with the expected contents   *)
(* after every call and replayed against a real ReadBuf sitting in the     *)
(* middle slot of a pool whose neighbour slots hold canaries.              *)
(***************************************************************************)
EXTENDS Naturals, Integers, Sequences, FiniteSets, TLC

CONSTANTS C,        \* capacity of a pool buffer
          Bytes,    \* byte alphabet
          Depth     \* number of editing calls per behaviour

VARIABLES owned, contents, hist, init

vars == <<owned, contents, hist, init>>

SeqsUpTo(n) == UNION {[1..k -> Bytes] : k \in 0..n}

\* Range bounds as in std::ops::Bound.
BoundKinds == {"unbounded", "included", "excluded"}
Idx == 0..(C + 1)

Init ==
    /\ owned = TRUE
    /\ contents \in SeqsUpTo(C)
    /\ init = contents
    /\ hist = <<>>

Start(kind, a)     == IF kind = "unbounded" THEN 0 ELSE IF kind = "included" THEN a ELSE a + 1
End(kind, b, len)  == IF kind = "unbounded" THEN len ELSE IF kind = "included" THEN b + 1 ELSE b

NoArgs == [k |-> 0, sk |-> "", a |-> 0, ek |-> "", b |-> 0, bytes |-> <<>>]
Rec(name, args, result, after) == [name |-> name, args |-> args, result |-> result, after |-> after,
                                   owned |-> owned']

\* ---- the calls -------------------------------------------------------------
Truncate(k) ==
    /\ contents' = IF owned /\ k <= Len(contents) THEN SubSeq(contents, 1, k) ELSE contents
    /\ owned' = owned
    /\ hist' = Append(hist, Rec("truncate", [NoArgs EXCEPT !.k = k], "ok", contents'))

Clear ==
    /\ contents' = <<>>
    /\ owned' = owned
    /\ hist' = Append(hist, Rec("clear", NoArgs, "ok", contents'))

Remove(sk, a, ek, b) ==
    LET len == Len(contents)
        s == Start(sk, a)
        e == End(ek, b, len)
        valid == IF owned THEN s <= e /\ e <= len
                 \* an unowned (empty) buffer accepts only ranges starting or ending at 0
                 ELSE s = 0 \/ e = 0
    IN /\ owned' = owned
       /\ IF valid
          THEN /\ contents' = IF owned THEN SubSeq(contents, 1, s) \o SubSeq(contents, e + 1, len) ELSE contents
               /\ hist' = Append(hist, Rec("remove", [NoArgs EXCEPT !.sk = sk, !.a = a, !.ek = ek, !.b = b], "ok", contents'))
          ELSE \* invalid range: rejected (panic) without modifying anything
               /\ contents' = contents
               /\ hist' = Append(hist, Rec("remove", [NoArgs EXCEPT !.sk = sk, !.a = a, !.ek = ek, !.b = b], "panic", contents'))

\* unsafe fn set_len: only lengths within the capacity are legal; growing
\* exposes bytes whose values the specification does not fix (result "grown").
SetLen(k) ==
    /\ k <= C
    /\ owned' = owned
    /\ IF ~owned THEN contents' = contents /\ hist' = Append(hist, Rec("set_len", [NoArgs EXCEPT !.k = k], "ok", contents'))
       ELSE IF k <= Len(contents)
       THEN /\ contents' = SubSeq(contents, 1, k)
            /\ hist' = Append(hist, Rec("set_len", [NoArgs EXCEPT !.k = k], "ok", contents'))
       ELSE \* keep the model deterministic: the harness pre-fills the spare bytes with 0
            /\ contents' = contents \o [i \in 1..(k - Len(contents)) |-> 0]
            /\ hist' = Append(hist, Rec("set_len", [NoArgs EXCEPT !.k = k], "grown", contents'))

Extend(bytes) ==
    /\ owned' = owned
    /\ IF owned /\ Len(contents) + Len(bytes) <= C
       THEN /\ contents' = contents \o bytes
            /\ hist' = Append(hist, Rec("extend", [NoArgs EXCEPT !.bytes = bytes], "ok", contents'))
       ELSE \* growth beyond the capacity (or without a slot) is refused, nothing appended
            /\ contents' = contents
            /\ hist' = Append(hist, Rec("extend", [NoArgs EXCEPT !.bytes = bytes], "err", contents'))

\* spare_capacity_mut().len()
Spare ==
    /\ UNCHANGED <<owned, contents>>
    /\ hist' = Append(hist, Rec("spare", [NoArgs EXCEPT !.k = IF owned THEN C - Len(contents) ELSE 0], "ok", contents))

\* A second read with the same ReadBuf: the kernel appends k bytes to the
\* spare capacity of the same slot.
ReadAgain(bytes) ==
    /\ owned
    /\ Len(bytes) <= C - Len(contents)
    /\ owned' = owned
    /\ contents' = contents \o bytes
    /\ hist' = Append(hist, Rec("read_again", [NoArgs EXCEPT !.bytes = bytes], "ok", contents'))

\* release(): gives exactly this slot back; the ReadBuf is empty afterwards.
Release ==
    /\ owned' = FALSE
    /\ contents' = <<>>
    /\ hist' = Append(hist, Rec("release", NoArgs, IF owned THEN "slot" ELSE "nothing", contents'))

Call ==
    \/ \E k \in Idx : Truncate(k)
    \/ Clear
    \/ \E sk \in BoundKinds, ek \in BoundKinds, a \in Idx, b \in Idx :
          /\ (sk = "unbounded" => a = 0) /\ (ek = "unbounded" => b = 0)
          /\ Remove(sk, a, ek, b)
    \/ \E k \in 0..C : SetLen(k)
    \/ \E bytes \in SeqsUpTo(2) : Extend(bytes)
    \/ Spare
    \/ \E bytes \in SeqsUpTo(2) : ReadAgain(bytes)
    \/ Release

Next == (Len(hist) < Depth /\ Call /\ UNCHANGED init) \/ (Len(hist) >= Depth /\ UNCHANGED vars)

Spec == Init /\ [][Next]_vars

\* ---- properties -------------------------------------------------------------
\* C15: never longer than the capacity.
WithinCapacity == Len(contents) <= C

\* C15: rejected calls change nothing.
RejectedUnchanged ==
    \A i \in 1..Len(hist) : hist[i].result \in {"panic", "err"} =>
        hist[i].after = (IF i = 1 THEN init ELSE hist[i - 1].after)

\* C15: an unowned buffer is empty.
UnownedEmpty == ~owned => contents = <<>>

=============================================================================

---------------------------- MODULE Trace_OpLife ----------------------------
(***************************************************************************)
(* Trace validation for OpLife: hook events recorded while the repository's*)
(* own functional test suite runs on the real kernel (A10_VERIF_TRACE),    *)
(* with operation pointers renamed to slots by tools/oplife_trace.py (a    *)
(* renaming only: a slot is taken at OpNew and given back after OpFree).   *)
(* Every event is one action; there are no silent steps.                   *)
(***************************************************************************)
EXTENDS OpLife, Json, IOUtils, Sequences

Rec == ndJsonDeserialize(IOEnv.TRACE)

VARIABLE l
tvars == <<vars, l>>

TraceInit == Init /\ l = 1

IsEvent(e) == l <= Len(Rec) /\ Rec[l].ev = e /\ l' = l + 1 /\ Rec[l].i \in Ids

StatusCode(s) == CASE s = "NotStarted" -> 0 [] s = "Running" -> 1 [] s = "Done" -> 2 [] s = "Dropped" -> 3 [] s = "Complete" -> 4 [] OTHER -> 9

TraceNext ==
    \/ IsEvent("New") /\ New(Rec[l].i, Rec[l].a = 1)
    \/ IsEvent("Publish") /\ Publish(Rec[l].i)
    \/ IsEvent("Submitted") /\ Submitted(Rec[l].i)
    \/ IsEvent("QueueFull") /\ QueueFull(Rec[l].i)
    \/ IsEvent("Route") /\ Route(Rec[l].i, Rec[l].a = 1)
    \/ IsEvent("Update") /\ StatusCode(st[Rec[l].i]) = Rec[l].b /\ Update(Rec[l].i, Rec[l].a = 1)
    \/ IsEvent("Pending") /\ Pending(Rec[l].i)
    \/ IsEvent("Result") /\ (IF Rec[l].a = 1 THEN ResultWhileRunning(Rec[l].i) ELSE ResultWhenDone(Rec[l].i))
    \/ IsEvent("End") /\ End(Rec[l].i)
    \/ IsEvent("Restart") /\ Restart(Rec[l].i)
    \/ IsEvent("Reset") /\ Reset(Rec[l].i)
    \/ IsEvent("Drop") /\ (IF Rec[l].a = 1 THEN DropRunning(Rec[l].i) ELSE DropIdle(Rec[l].i))
    \/ IsEvent("Free") /\ Free(Rec[l].i)

TraceSpec == TraceInit /\ [][TraceNext]_tvars

NotAtEnd == l <= Len(Rec)
TraceInvariants == TypeOK /\ MemSafe /\ DeadIsFinal
=============================================================================

----------------------------- MODULE MC_Build -----------------------------
EXTENDS Build, Json

\* One line per terminal state: the test case for the conformance harness.
ExportCase ==
    Terminal =>
        PrintT(<<"CASE", ToJson([cfg |-> cfg, fault |-> fault, flags |-> Flags(cfg),
                                 outcome |-> pc, sq |-> granted[1], cq |-> granted[2],
                                 accepts |-> KernelAccepts(cfg)])>>)
=============================================================================

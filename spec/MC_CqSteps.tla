----------------------------- MODULE MC_CqSteps -----------------------------
EXTENDS CqSteps

\* op, wake, cancel-ack, op with SKIP flag, op, zero
Script6 == << [ud |-> 100, skip |-> FALSE], [ud |-> 1, skip |-> FALSE], [ud |-> 2, skip |-> FALSE],
              [ud |-> 200, skip |-> TRUE], [ud |-> 300, skip |-> FALSE], [ud |-> 0, skip |-> FALSE] >>
Script4 == << [ud |-> 100, skip |-> FALSE], [ud |-> 3, skip |-> FALSE], [ud |-> 200, skip |-> TRUE], [ud |-> 300, skip |-> FALSE] >>
=============================================================================

//! io_uring ABI: submission entry accessors and a decoder that lists every
//! region of user memory the kernel reads or writes for a request.
//!
//! Transcribed from the io_uring ABI (`io_uring_enter(2)`, `linux/io_uring.h`),
//! not from a10.

use serde::Serialize;

pub const OP_NOP: u8 = 0;
pub const OP_READV: u8 = 1;
pub const OP_WRITEV: u8 = 2;
pub const OP_FSYNC: u8 = 3;
pub const OP_POLL_ADD: u8 = 6;
pub const OP_POLL_REMOVE: u8 = 7;
pub const OP_SENDMSG: u8 = 9;
pub const OP_RECVMSG: u8 = 10;
pub const OP_ACCEPT: u8 = 13;
pub const OP_ASYNC_CANCEL: u8 = 14;
pub const OP_CONNECT: u8 = 16;
pub const OP_FALLOCATE: u8 = 17;
pub const OP_OPENAT: u8 = 18;
pub const OP_CLOSE: u8 = 19;
pub const OP_FILES_UPDATE: u8 = 20;
pub const OP_STATX: u8 = 21;
pub const OP_READ: u8 = 22;
pub const OP_WRITE: u8 = 23;
pub const OP_FADVISE: u8 = 24;
pub const OP_MADVISE: u8 = 25;
pub const OP_SEND: u8 = 26;
pub const OP_RECV: u8 = 27;
pub const OP_SPLICE: u8 = 30;
pub const OP_SHUTDOWN: u8 = 34;
pub const OP_RENAMEAT: u8 = 35;
pub const OP_UNLINKAT: u8 = 36;
pub const OP_MKDIRAT: u8 = 37;
pub const OP_MSG_RING: u8 = 40;
pub const OP_SOCKET: u8 = 45;
pub const OP_URING_CMD: u8 = 46;
pub const OP_SEND_ZC: u8 = 47;
pub const OP_SENDMSG_ZC: u8 = 48;
pub const OP_READ_MULTISHOT: u8 = 49;
pub const OP_WAITID: u8 = 50;
pub const OP_FIXED_FD_INSTALL: u8 = 54;
pub const OP_FTRUNCATE: u8 = 55;
pub const OP_BIND: u8 = 56;
pub const OP_LISTEN: u8 = 57;
pub const OP_PIPE: u8 = 62;

pub const SOCKET_URING_OP_GETSOCKOPT: u32 = 2;
pub const SOCKET_URING_OP_SETSOCKOPT: u32 = 3;
pub const SOCKET_URING_OP_GETSOCKNAME: u32 = 6;

/// A raw 64 byte submission queue entry.
#[derive(Copy, Clone, PartialEq, Eq)]
pub struct Sqe(pub [u8; 64]);

impl std::fmt::Debug for Sqe {
    fn fmt(&self, f: &mut std::fmt::Formatter<'_>) -> std::fmt::Result {
        write!(
            f,
            "Sqe{{op:{} flags:{:#x} ioprio:{} fd:{} off:{:#x} addr:{:#x} len:{} opflags:{:#x} ud:{:#x} buf:{} fidx:{} addr3:{:#x}}}",
            self.opcode(), self.flags(), self.ioprio(), self.fd(), self.off(), self.addr(), self.len(),
            self.op_flags(), self.user_data(), self.buf_group(), self.file_index(), self.addr3()
        )
    }
}

impl Sqe {
    fn u16_at(&self, o: usize) -> u16 {
        u16::from_ne_bytes(self.0[o..o + 2].try_into().unwrap())
    }
    fn u32_at(&self, o: usize) -> u32 {
        u32::from_ne_bytes(self.0[o..o + 4].try_into().unwrap())
    }
    fn u64_at(&self, o: usize) -> u64 {
        u64::from_ne_bytes(self.0[o..o + 8].try_into().unwrap())
    }
    pub fn opcode(&self) -> u8 {
        self.0[0]
    }
    pub fn flags(&self) -> u8 {
        self.0[1]
    }
    pub fn ioprio(&self) -> u16 {
        self.u16_at(2)
    }
    pub fn fd(&self) -> i32 {
        self.u32_at(4) as i32
    }
    /// `off` / `addr2` / `cmd_op`.
    pub fn off(&self) -> u64 {
        self.u64_at(8)
    }
    /// `addr` / `splice_off_in` / `level+optname`.
    pub fn addr(&self) -> u64 {
        self.u64_at(16)
    }
    pub fn len(&self) -> u32 {
        self.u32_at(24)
    }
    /// The operation specific 32 bit flags word (`rw_flags`, `msg_flags`, ...).
    pub fn op_flags(&self) -> u32 {
        self.u32_at(28)
    }
    pub fn user_data(&self) -> u64 {
        self.u64_at(32)
    }
    /// `buf_index` / `buf_group`.
    pub fn buf_group(&self) -> u16 {
        self.u16_at(40)
    }
    pub fn personality(&self) -> u16 {
        self.u16_at(42)
    }
    /// `splice_fd_in` / `file_index` / `optlen` / `addr_len`.
    pub fn file_index(&self) -> u32 {
        self.u32_at(44)
    }
    /// `addr3` / `optval`.
    pub fn addr3(&self) -> u64 {
        self.u64_at(48)
    }
    pub fn pad2(&self) -> u64 {
        self.u64_at(56)
    }

    pub fn to_hex(&self) -> String {
        self.0.iter().map(|b| format!("{b:02x}")).collect()
    }
}

#[derive(Copy, Clone, Debug, PartialEq, Eq, Serialize)]
pub struct Region {
    pub addr: usize,
    pub len: usize,
    /// The kernel writes to it (otherwise it only reads).
    pub write: bool,
    pub what: &'static str,
}

#[derive(Clone, Debug, Default, PartialEq, Eq)]
pub struct Decoded {
    /// The opcode (and sub command) is one the decoder knows.
    pub known: bool,
    pub name: &'static str,
    pub regions: Vec<Region>,
    /// For data transfers: the (addr, len) pieces in order.
    pub data: Vec<(usize, usize)>,
}

fn region(out: &mut Decoded, addr: u64, len: usize, write: bool, what: &'static str) {
    if addr != 0 && len != 0 {
        out.regions.push(Region { addr: addr as usize, len, write, what });
    }
}

unsafe fn cstr_len(addr: u64) -> usize {
    if addr == 0 {
        return 0;
    }
    // Do not read from freed memory: the allocator quarantine keeps the bytes
    // mapped, so this is safe even for a dangling pointer.
    let mut n = 0;
    unsafe {
        while n < 4096 && *(addr as *const u8).add(n) != 0 {
            n += 1;
        }
    }
    n + 1
}

unsafe fn iovecs(out: &mut Decoded, addr: u64, count: usize, write: bool) {
    region(out, addr, count * 16, false, "iovec array");
    if addr == 0 {
        return;
    }
    for i in 0..count.min(1024) {
        let (base, len) = unsafe {
            let p = (addr as *const u64).add(i * 2);
            (p.read_unaligned(), p.add(1).read_unaligned() as usize)
        };
        region(out, base, len, write, "iovec target");
        out.data.push((base as usize, len));
    }
}

unsafe fn msghdr(out: &mut Decoded, addr: u64, write: bool, buffer_select: bool) {
    // struct msghdr { void *name; socklen_t namelen; iovec *iov; size_t iovlen;
    //                 void *control; size_t controllen; int flags; }  (56 bytes)
    region(out, addr, 56, write, "msghdr");
    if addr == 0 {
        return;
    }
    let p = addr as *const u8;
    let (name, namelen, iov, iovlen, control, controllen) = unsafe {
        (
            p.cast::<u64>().read_unaligned(),
            p.add(8).cast::<u32>().read_unaligned() as usize,
            p.add(16).cast::<u64>().read_unaligned(),
            p.add(24).cast::<u64>().read_unaligned() as usize,
            p.add(32).cast::<u64>().read_unaligned(),
            p.add(40).cast::<u64>().read_unaligned() as usize,
        )
    };
    region(out, name, namelen, write, "msg_name");
    region(out, control, controllen, write, "msg_control");
    if buffer_select {
        region(out, iov, iovlen * 16, false, "iovec array");
    } else {
        unsafe { iovecs(out, iov, iovlen, write) };
    }
}

/// Decode a submission: which user memory does the kernel touch for it?
pub fn decode(sqe: &Sqe) -> Decoded {
    let mut out = Decoded { known: true, ..Decoded::default() };
    let buffer_select = sqe.flags() & (1 << 5) != 0;
    unsafe {
        match sqe.opcode() {
            OP_NOP => out.name = "nop",
            OP_READ => {
                out.name = "read";
                if !buffer_select {
                    region(&mut out, sqe.addr(), sqe.len() as usize, true, "read buffer");
                    out.data.push((sqe.addr() as usize, sqe.len() as usize));
                }
            }
            OP_READ_MULTISHOT => out.name = "read_multishot",
            OP_WRITE => {
                out.name = "write";
                region(&mut out, sqe.addr(), sqe.len() as usize, false, "write buffer");
                out.data.push((sqe.addr() as usize, sqe.len() as usize));
            }
            OP_READV => {
                out.name = "readv";
                iovecs(&mut out, sqe.addr(), sqe.len() as usize, true);
            }
            OP_WRITEV => {
                out.name = "writev";
                iovecs(&mut out, sqe.addr(), sqe.len() as usize, false);
            }
            OP_SEND | OP_SEND_ZC => {
                out.name = if sqe.opcode() == OP_SEND { "send" } else { "send_zc" };
                region(&mut out, sqe.addr(), sqe.len() as usize, false, "send buffer");
                out.data.push((sqe.addr() as usize, sqe.len() as usize));
                // addr2 + addr_len: destination address.
                region(&mut out, sqe.off(), (sqe.file_index() & 0xffff) as usize, false, "send address");
            }
            OP_RECV => {
                out.name = "recv";
                if !buffer_select {
                    region(&mut out, sqe.addr(), sqe.len() as usize, true, "recv buffer");
                    out.data.push((sqe.addr() as usize, sqe.len() as usize));
                }
            }
            OP_SENDMSG | OP_SENDMSG_ZC => {
                out.name = if sqe.opcode() == OP_SENDMSG { "sendmsg" } else { "sendmsg_zc" };
                msghdr(&mut out, sqe.addr(), false, false);
            }
            OP_RECVMSG => {
                out.name = "recvmsg";
                msghdr(&mut out, sqe.addr(), true, buffer_select);
            }
            OP_ACCEPT => {
                out.name = "accept";
                let addrlen_ptr = sqe.off();
                region(&mut out, addrlen_ptr, 4, true, "accept addrlen");
                if addrlen_ptr != 0 && sqe.addr() != 0 {
                    let len = (addrlen_ptr as *const u32).read_unaligned() as usize;
                    region(&mut out, sqe.addr(), len, true, "accept address");
                }
            }
            OP_CONNECT => {
                out.name = "connect";
                region(&mut out, sqe.addr(), sqe.off() as usize, false, "connect address");
            }
            OP_BIND => {
                out.name = "bind";
                region(&mut out, sqe.addr(), sqe.off() as usize, false, "bind address");
            }
            OP_LISTEN => out.name = "listen",
            OP_SHUTDOWN => out.name = "shutdown",
            OP_SOCKET => out.name = "socket",
            OP_OPENAT => {
                out.name = "openat";
                region(&mut out, sqe.addr(), cstr_len(sqe.addr()), false, "path");
            }
            OP_MKDIRAT => {
                out.name = "mkdirat";
                region(&mut out, sqe.addr(), cstr_len(sqe.addr()), false, "path");
            }
            OP_UNLINKAT => {
                out.name = "unlinkat";
                region(&mut out, sqe.addr(), cstr_len(sqe.addr()), false, "path");
            }
            OP_RENAMEAT => {
                out.name = "renameat";
                region(&mut out, sqe.addr(), cstr_len(sqe.addr()), false, "old path");
                region(&mut out, sqe.off(), cstr_len(sqe.off()), false, "new path");
            }
            OP_STATX => {
                out.name = "statx";
                region(&mut out, sqe.addr(), cstr_len(sqe.addr()), false, "path");
                region(&mut out, sqe.off(), 256, true, "statx buffer");
            }
            OP_FSYNC => out.name = "fsync",
            OP_FADVISE => out.name = "fadvise",
            OP_MADVISE => out.name = "madvise",
            OP_FALLOCATE => out.name = "fallocate",
            OP_FTRUNCATE => out.name = "ftruncate",
            OP_SPLICE => out.name = "splice",
            OP_CLOSE => out.name = "close",
            OP_ASYNC_CANCEL => out.name = "async_cancel",
            OP_MSG_RING => out.name = "msg_ring",
            OP_POLL_ADD => out.name = "poll_add",
            OP_POLL_REMOVE => out.name = "poll_remove",
            OP_FILES_UPDATE => {
                out.name = "files_update";
                region(&mut out, sqe.addr(), sqe.len() as usize * 4, true, "fds array");
            }
            OP_FIXED_FD_INSTALL => out.name = "fixed_fd_install",
            OP_WAITID => {
                out.name = "waitid";
                // siginfo_t is 128 bytes.
                region(&mut out, sqe.off(), 128, true, "siginfo");
            }
            OP_PIPE => {
                out.name = "pipe";
                region(&mut out, sqe.addr(), 8, true, "pipe fds");
            }
            OP_URING_CMD => match sqe.off() as u32 {
                SOCKET_URING_OP_GETSOCKOPT => {
                    out.name = "getsockopt";
                    region(&mut out, sqe.addr3(), sqe.file_index() as usize, true, "optval");
                }
                SOCKET_URING_OP_SETSOCKOPT => {
                    out.name = "setsockopt";
                    region(&mut out, sqe.addr3(), sqe.file_index() as usize, false, "optval");
                }
                SOCKET_URING_OP_GETSOCKNAME => {
                    out.name = "getsockname";
                    let addrlen_ptr = sqe.addr3();
                    region(&mut out, addrlen_ptr, 4, true, "addrlen");
                    if addrlen_ptr != 0 {
                        let len = (addrlen_ptr as *const u32).read_unaligned() as usize;
                        region(&mut out, sqe.addr(), len, true, "address");
                    }
                }
                _ => {
                    out.known = false;
                    out.name = "uring_cmd?";
                }
            },
            _ => {
                out.known = false;
                out.name = "?";
            }
        }
    }
    out
}

//! Collects the events a10 emits through `a10::verif::emit`.

use std::sync::Mutex;

use crate::alloc;

#[derive(Clone, Debug, PartialEq, Eq)]
pub struct Ev {
    pub seq: u64,
    pub name: &'static str,
    pub f: [u64; 6],
    pub raw: Vec<u8>,
    /// Logical thread (baton scheduler) that emitted the event, -1 outside a scheduled run.
    pub thread: i64,
}

static EVENTS: Mutex<Vec<Ev>> = Mutex::new(Vec::new());

/// Optional observer called synchronously for every event (while a10 is still
/// inside the code that emitted it).
static OBSERVER: Mutex<Option<fn(&Ev)>> = Mutex::new(None);

pub fn set_observer(f: Option<fn(&Ev)>) {
    *OBSERVER.lock().unwrap_or_else(|e| e.into_inner()) = f;
}

fn sink(seq: u64, ev: &a10::verif::Event<'_>) {
    alloc::untracked(|| {
        let record = Ev { seq, name: ev.name, f: ev.f, raw: ev.raw.to_vec(), thread: crate::sched::me().map_or(-1, |t| t as i64) };
        let observer = *OBSERVER.lock().unwrap_or_else(|e| e.into_inner());
        if let Some(observer) = observer {
            observer(&record);
        }
        let mut events = EVENTS.lock().unwrap_or_else(|e| e.into_inner());
        events.push(record);
    });
}

/// Insert a harness-side marker into the event stream (scheduled runs are
/// serialised, so the position is the global order).
pub fn push(name: &'static str, f: [u64; 6]) {
    alloc::untracked(|| {
        let mut events = EVENTS.lock().unwrap_or_else(|e| e.into_inner());
        let seq = events.last().map_or(0, |e| e.seq);
        events.push(Ev { seq, name, f, raw: Vec::new(), thread: crate::sched::me().map_or(-1, |t| t as i64) });
    });
}

pub fn install() {
    a10::verif::install_sink(Some(sink));
}

pub fn uninstall() {
    a10::verif::install_sink(None);
}

/// Take all events collected so far.
pub fn take() -> Vec<Ev> {
    std::mem::take(&mut *EVENTS.lock().unwrap_or_else(|e| e.into_inner()))
}

/// Look at the events collected so far without taking them.
pub fn peek<R>(f: impl FnOnce(&[Ev]) -> R) -> R {
    alloc::untracked(|| f(&EVENTS.lock().unwrap_or_else(|e| e.into_inner())))
}

pub fn clear() {
    EVENTS.lock().unwrap_or_else(|e| e.into_inner()).clear();
}

//! In-process simulated io_uring kernel.
//!
//! a10 (built with `--cfg a10_verif`) calls `io_uring_setup/enter/register`
//! through `a10::verif::SysTable`. This module answers them: the rings live in a
//! `memfd` that a10 maps itself with its unmodified `mmap` calls, requests are
//! held in flight until the driver posts their completions, and every memory
//! region a request hands to the kernel is pinned in the tracking allocator.

use std::collections::{BTreeMap, BTreeSet, VecDeque};
use std::ffi::c_void;
use std::sync::atomic::{AtomicU16, AtomicU32, Ordering};
use std::sync::{Mutex, MutexGuard};

use crate::abi::{self, Decoded, Sqe};
use crate::alloc;

pub const OFF_SQ_RING: i64 = 0;
pub const OFF_CQ_RING: i64 = 0x800_0000;
pub const OFF_SQES: i64 = 0x1000_0000;

pub const FEAT_NODROP: u32 = 2;
pub const FEAT_SUBMIT_STABLE: u32 = 4;
pub const FEAT_RW_CUR_POS: u32 = 8;
pub const FEAT_SQPOLL_NONFIXED: u32 = 128;
pub const ALL_FEATURES: u32 = 1 | 2 | 4 | 8 | 16 | 32 | 64 | 128 | 256 | 512 | 1024 | 2048 | 4096 | 8192;

pub const SETUP_SQPOLL: u32 = 2;
pub const SETUP_CQSIZE: u32 = 8;
pub const SETUP_CLAMP: u32 = 16;
pub const SETUP_R_DISABLED: u32 = 64;
pub const SETUP_SINGLE_ISSUER: u32 = 4096;
pub const SETUP_NO_SQARRAY: u32 = 1 << 16;

pub const ENTER_GETEVENTS: u32 = 1;
pub const ENTER_EXT_ARG: u32 = 8;

pub const CQE_F_BUFFER: u32 = 1;
pub const CQE_F_MORE: u32 = 2;
pub const CQE_F_NOTIF: u32 = 8;
pub const CQE_F_SKIP: u32 = 32;

pub const SQE_FIXED_FILE: u8 = 1;
pub const SQE_BUFFER_SELECT: u8 = 1 << 5;
pub const SQE_CQE_SKIP_SUCCESS: u8 = 1 << 6;

pub const EINTR: i32 = 4;
pub const EBADF: i32 = 9;
pub const ENOMEM: i32 = 12;
pub const EFAULT: i32 = 14;
pub const EINVAL: i32 = 22;
pub const ENOENT: i32 = 2;
pub const ETIME: i32 = 62;
pub const EALREADY: i32 = 114;
pub const ECANCELED: i32 = 125;
pub const ENOBUFS: i32 = 105;
pub const EBADFD: i32 = 77;
pub const ENXIO: i32 = 6;
pub const EDEADLK: i32 = 35;
pub const EEXIST: i32 = 17;

/// First fake descriptor number the simulated kernel hands out. Far above any
/// real descriptor, so a stray real `close(2)` on one is harmless.
pub const FAKE_FD_BASE: i32 = 1 << 20;

#[repr(C)]
#[derive(Copy, Clone, Debug, Default)]
pub struct SqOffsets {
    pub head: u32,
    pub tail: u32,
    pub ring_mask: u32,
    pub ring_entries: u32,
    pub flags: u32,
    pub dropped: u32,
    pub array: u32,
    pub resv1: u32,
    pub user_addr: u64,
}

#[repr(C)]
#[derive(Copy, Clone, Debug, Default)]
pub struct CqOffsets {
    pub head: u32,
    pub tail: u32,
    pub ring_mask: u32,
    pub ring_entries: u32,
    pub overflow: u32,
    pub cqes: u32,
    pub flags: u32,
    pub resv1: u32,
    pub user_addr: u64,
}

#[repr(C)]
#[derive(Copy, Clone, Debug, Default)]
pub struct Params {
    pub sq_entries: u32,
    pub cq_entries: u32,
    pub flags: u32,
    pub sq_thread_cpu: u32,
    pub sq_thread_idle: u32,
    pub features: u32,
    pub wq_fd: u32,
    pub resv: [u32; 3],
    pub sq_off: SqOffsets,
    pub cq_off: CqOffsets,
}

#[repr(C)]
#[derive(Copy, Clone, Debug, Default, PartialEq, Eq)]
pub struct Cqe {
    pub user_data: u64,
    pub res: i32,
    pub flags: u32,
}

/// How the next `io_uring_setup` calls are answered.
#[derive(Clone, Debug)]
pub struct SetupPlan {
    /// `Some(errno)`: fail the call.
    pub fail: Option<i32>,
    /// Feature bits reported.
    pub features: u32,
    /// Initial value of the submission head/tail counters.
    pub sq_init: u32,
    /// Initial value of the completion head/tail counters.
    pub cq_init: u32,
}

impl Default for SetupPlan {
    fn default() -> SetupPlan {
        SetupPlan { fail: None, features: ALL_FEATURES, sq_init: 0, cq_init: 0 }
    }
}

/// A request consumed from the submission queue and not yet finally completed.
#[derive(Clone, Debug)]
pub struct Request {
    /// Unique id of this request (also the pin owner in the allocator).
    pub id: u64,
    pub sqe: Sqe,
    pub decoded: Decoded,
    /// Number of completions posted so far.
    pub posted: u32,
    /// A cancel for it was accepted: the next completion is `-ECANCELED`.
    pub cancelled: bool,
}

/// Something the kernel noticed that the driver wants to know about.
#[derive(Clone, Debug, PartialEq, Eq)]
pub enum Note {
    /// A submission was consumed (in order).
    Consumed { ring: i32, index: u32, sqe: Sqe },
    /// Asynchronous cancel request and what became of it.
    Cancel { ring: i32, target: u64, outcome: i32 },
    /// Close of a descriptor the kernel issued. `direct`: fixed-file slot.
    Close { ring: i32, fd: i32, direct: bool, via: &'static str, ok: bool },
    /// A ring message was delivered.
    MsgRing { from: i32, to: i32 },
    /// The kernel was handed a pointer into memory that has been freed.
    Dangling { ring: i32, request: u64, user_data: u64, addr: usize, len: usize, block: (usize, usize), when: &'static str },
    /// `enter` would block forever (single threaded histories).
    Deadlock { ring: i32 },
    /// Submission with an opcode/shape the decoder does not know.
    Unknown { ring: i32, opcode: u8 },
    /// The ring descriptor was used after it was closed / a register on a dead ring.
    BadRing { fd: i32, what: &'static str },
    /// Completion ring overflowed into the backlog.
    Overflow { ring: i32 },
    /// Number of entries passed to enter.
    Enter { ring: i32, to_submit: u32, consumed: u32, min_complete: u32, flags: u32, ret: i64, timeout: Option<(i64, i64)> },
    Register { ring: i32, opcode: u32, ret: i64 },
}

pub struct PbufRing {
    pub addr: usize,
    pub entries: u32,
    pub khead: u16,
}

pub struct SimRing {
    pub fd: i32,
    pub setup_flags: u32,
    pub sq_entries: u32,
    pub cq_entries: u32,
    sq_ring: *mut u8,
    cq_ring: *mut u8,
    sqes: *mut u8,
    sq_ring_len: usize,
    cq_ring_len: usize,
    sqes_len: usize,
    pub sq_init: u32,
    pub cq_init: u32,
    pub enabled: bool,
    pub inflight: Vec<Request>,
    pub backlog: VecDeque<Cqe>,
    pub pbuf: BTreeMap<u16, PbufRing>,
    /// Fixed file table: `None` = not registered.
    pub files: Option<Vec<bool>>,
    /// Every completion published into the ring, in order (position = count).
    pub published: Vec<Cqe>,
    /// Number of submissions consumed.
    pub consumed: u32,
    /// Scribble over completion slots a10 has released.
    pub scribble: bool,
    last_seen_cq_head: u32,
}

unsafe impl Send for SimRing {}

#[derive(Default)]
pub struct Kernel {
    pub rings: BTreeMap<i32, SimRing>,
    pub plan: SetupPlan,
    /// Parameters of every setup call seen (in, out).
    pub setups: Vec<(Params, i64)>,
    pub notes: Vec<Note>,
    pub next_request: u64,
    /// Fake regular descriptors issued and still open.
    pub open_fds: BTreeSet<i32>,
    pub next_fd: i32,
    /// Decisions for asynchronous cancels, consumed front to back; `true` = the
    /// cancel finds and cancels its target. Default when empty: `true`.
    pub cancel_decisions: VecDeque<bool>,
    /// mmap failure injection: fail the k-th (0-based) mmap call from now.
    pub fail_mmap_at: Option<(u32, i32)>,
    pub mmap_calls: u32,
    pub maps: Vec<(usize, usize, i32, i64)>,
    pub unmaps: Vec<(usize, usize)>,
    pub closes: Vec<i32>,
    /// Register failure injection: opcode -> errno.
    pub fail_register: BTreeMap<u32, i32>,
}

static KERNEL: Mutex<Option<Kernel>> = Mutex::new(None);

pub fn kernel() -> KernelGuard {
    let mut guard = match KERNEL.lock() {
        Ok(g) => g,
        Err(e) => e.into_inner(),
    };
    if guard.is_none() {
        *guard = Some(Kernel { next_fd: FAKE_FD_BASE, next_request: 1, ..Kernel::default() });
    }
    KernelGuard(guard)
}

pub struct KernelGuard(MutexGuard<'static, Option<Kernel>>);

impl std::ops::Deref for KernelGuard {
    type Target = Kernel;
    fn deref(&self) -> &Kernel {
        self.0.as_ref().unwrap()
    }
}

impl std::ops::DerefMut for KernelGuard {
    fn deref_mut(&mut self) -> &mut Kernel {
        self.0.as_mut().unwrap()
    }
}

/// What to do when `enter` has to wait for completions.
pub enum BlockAction {
    /// The callback changed something (posted completions): re-check.
    Retry,
    /// The timeout fired.
    Timeout,
    /// A signal interrupted the wait.
    Interrupt,
    /// Nothing can ever happen: report a deadlock.
    Deadlock,
}

pub struct BlockInfo {
    pub ring: i32,
    /// `Some((sec, nsec))` if a timeout was passed.
    pub timeout: Option<(i64, i64)>,
    pub min_complete: u32,
}

type BlockFn = Box<dyn FnMut(&BlockInfo) -> BlockAction + Send>;
static ON_BLOCK: Mutex<Option<BlockFn>> = Mutex::new(None);

/// Install the callback that decides what happens when `enter` must wait.
/// Without one: a finite timeout fires at once, an infinite one deadlocks.
pub fn set_on_block(f: Option<BlockFn>) {
    *ON_BLOCK.lock().unwrap_or_else(|e| e.into_inner()) = f;
}

pub static SYS_TABLE: a10::verif::SysTable = a10::verif::SysTable {
    setup: sys_setup,
    enter: sys_enter,
    register: sys_register,
    mmap: sys_mmap,
    munmap: sys_munmap,
    close: sys_close,
    mapped: sys_mapped,
};

/// Install the simulated kernel: from now on every `io_uring_setup` in this
/// process is answered by it.
pub fn install() {
    a10::verif::install_sys_table(Some(&SYS_TABLE));
}

pub fn uninstall() {
    a10::verif::install_sys_table(None);
}

/// Reset the simulated kernel between histories. Rings that still exist are
/// forgotten (their memfds are closed by a10 when it drops them).
pub fn reset() {
    let mut k = kernel();
    let rings = std::mem::take(&mut k.rings);
    for (_, ring) in rings {
        ring.unmap_self();
    }
    *k = Kernel { next_fd: FAKE_FD_BASE, next_request: 1, ..Kernel::default() };
}

fn round_up_pow2(n: u32) -> u32 {
    n.max(1).next_power_of_two()
}

unsafe fn sys_setup(entries: u32, params: *mut c_void) -> Option<i64> {
    alloc::untracked(|| {
        let p = unsafe { &mut *params.cast::<Params>() };
        let input = *p;
        let ret = do_setup(entries, p);
        kernel().setups.push((input, ret));
        Some(ret)
    })
}

fn do_setup(entries: u32, p: &mut Params) -> i64 {
    let plan = kernel().plan.clone();
    if let Some(errno) = plan.fail {
        return -i64::from(errno);
    }
    // Parameter combinations the kernel rejects (io_uring_setup(2)).
    const SETUP_SQ_AFF: u32 = 4;
    const SETUP_ATTACH_WQ: u32 = 32;
    const SETUP_DEFER_TASKRUN: u32 = 8192;
    if p.flags & SETUP_DEFER_TASKRUN != 0 && (p.flags & SETUP_SINGLE_ISSUER == 0 || p.flags & SETUP_SQPOLL != 0) {
        return -i64::from(EINVAL);
    }
    if p.flags & SETUP_SQ_AFF != 0 && p.flags & SETUP_SQPOLL == 0 {
        return -i64::from(EINVAL);
    }
    if p.flags & SETUP_ATTACH_WQ != 0 && !kernel().rings.contains_key(&(p.wq_fd as i32)) {
        return -i64::from(EBADF);
    }
    let clamp = p.flags & SETUP_CLAMP != 0;
    let mut sq_entries = entries;
    if sq_entries == 0 {
        return -i64::from(EINVAL);
    }
    if sq_entries > 32768 {
        if !clamp {
            return -i64::from(EINVAL);
        }
        sq_entries = 32768;
    }
    let sq_entries = round_up_pow2(sq_entries);
    let cq_entries = if p.flags & SETUP_CQSIZE != 0 {
        let mut cq = p.cq_entries;
        if cq == 0 {
            return -i64::from(EINVAL);
        }
        if cq > 65536 {
            if !clamp {
                return -i64::from(EINVAL);
            }
            cq = 65536;
        }
        let cq = round_up_pow2(cq);
        if cq < sq_entries {
            return -i64::from(EINVAL);
        }
        cq
    } else {
        2 * sq_entries
    };

    let fd = unsafe { libc::memfd_create(c"a10-sim-ring".as_ptr(), libc::MFD_CLOEXEC) };
    if fd < 0 {
        return -i64::from(ENOMEM);
    }
    let sqes_len = sq_entries as usize * 64;
    let total = OFF_SQES + sqes_len as i64 + 4096;
    if unsafe { libc::ftruncate(fd, total) } != 0 {
        unsafe { libc::close(fd) };
        return -i64::from(ENOMEM);
    }
    let sq_ring_len = 4096usize;
    let cq_ring_len = (64 + cq_entries as usize * 16 + 4095) & !4095;
    let map = |len: usize, off: i64| -> *mut u8 {
        let ptr = unsafe {
            libc::mmap(std::ptr::null_mut(), len, libc::PROT_READ | libc::PROT_WRITE, libc::MAP_SHARED, fd, off)
        };
        assert!(ptr != libc::MAP_FAILED, "simulated kernel: mmap failed");
        ptr.cast()
    };
    let sq_ring = map(sq_ring_len, OFF_SQ_RING);
    let cq_ring = map(cq_ring_len, OFF_CQ_RING);
    let sqes = map((sqes_len + 4095) & !4095, OFF_SQES);

    p.sq_entries = sq_entries;
    p.cq_entries = cq_entries;
    p.features = plan.features;
    p.sq_off = SqOffsets { head: 0, tail: 4, ring_mask: 8, ring_entries: 12, flags: 16, dropped: 20, array: 64, resv1: 0, user_addr: 0 };
    p.cq_off = CqOffsets { head: 0, tail: 4, ring_mask: 8, ring_entries: 12, overflow: 16, cqes: 64, flags: 20, resv1: 0, user_addr: 0 };

    let ring = SimRing {
        fd,
        setup_flags: p.flags,
        sq_entries,
        cq_entries,
        sq_ring,
        cq_ring,
        sqes,
        sq_ring_len,
        cq_ring_len,
        sqes_len: (sqes_len + 4095) & !4095,
        sq_init: plan.sq_init,
        cq_init: plan.cq_init,
        enabled: p.flags & SETUP_R_DISABLED == 0,
        inflight: Vec::new(),
        backlog: VecDeque::new(),
        pbuf: BTreeMap::new(),
        files: None,
        published: Vec::new(),
        consumed: 0,
        scribble: true,
        last_seen_cq_head: plan.cq_init,
    };
    ring.word(ring.sq_ring, 0).store(plan.sq_init, Ordering::SeqCst);
    ring.word(ring.sq_ring, 4).store(plan.sq_init, Ordering::SeqCst);
    ring.word(ring.sq_ring, 8).store(sq_entries - 1, Ordering::SeqCst);
    ring.word(ring.sq_ring, 12).store(sq_entries, Ordering::SeqCst);
    ring.word(ring.cq_ring, 0).store(plan.cq_init, Ordering::SeqCst);
    ring.word(ring.cq_ring, 4).store(plan.cq_init, Ordering::SeqCst);
    ring.word(ring.cq_ring, 8).store(cq_entries - 1, Ordering::SeqCst);
    ring.word(ring.cq_ring, 12).store(cq_entries, Ordering::SeqCst);
    // Fill the completion slots with recognisable garbage.
    for i in 0..cq_entries {
        ring.write_cqe_slot(i, garbage(i));
    }
    kernel().rings.insert(fd, ring);
    i64::from(fd)
}

/// What the kernel leaves in slots it does not own: a reserved `user_data` so a
/// stray read is harmless, and a recognisable result.
pub fn garbage(i: u32) -> Cqe {
    Cqe { user_data: 0, res: 0x0BAD_0000 | (i as i32 & 0xffff), flags: 0 }
}

impl SimRing {
    fn word(&self, base: *mut u8, off: usize) -> &AtomicU32 {
        unsafe { AtomicU32::from_ptr(base.add(off).cast()) }
    }

    pub fn sq_head(&self) -> u32 {
        self.word(self.sq_ring, 0).load(Ordering::SeqCst)
    }
    pub fn sq_tail(&self) -> u32 {
        self.word(self.sq_ring, 4).load(Ordering::SeqCst)
    }
    pub fn cq_head(&self) -> u32 {
        self.word(self.cq_ring, 0).load(Ordering::SeqCst)
    }
    pub fn cq_tail(&self) -> u32 {
        self.word(self.cq_ring, 4).load(Ordering::SeqCst)
    }
    pub fn set_sq_flags(&self, flags: u32) {
        self.word(self.sq_ring, 16).store(flags, Ordering::SeqCst);
    }

    /// Entries published by a10 and not yet consumed.
    pub fn sq_pending(&self) -> u32 {
        self.sq_tail().wrapping_sub(self.sq_head())
    }

    /// Completions published and not yet released by a10.
    pub fn cq_ready(&self) -> u32 {
        self.cq_tail().wrapping_sub(self.cq_head())
    }

    pub fn read_sqe(&self, index: u32) -> Sqe {
        let mut raw = [0u8; 64];
        unsafe {
            raw.as_mut_ptr()
                .copy_from_nonoverlapping(self.sqes.add((index & (self.sq_entries - 1)) as usize * 64), 64);
        }
        Sqe(raw)
    }

    fn write_cqe_slot(&self, index: u32, cqe: Cqe) {
        unsafe {
            self.cq_ring
                .add(64 + (index & (self.cq_entries - 1)) as usize * 16)
                .cast::<Cqe>()
                .write_volatile(cqe);
        }
    }

    pub fn read_cqe_slot(&self, index: u32) -> Cqe {
        unsafe {
            self.cq_ring
                .add(64 + (index & (self.cq_entries - 1)) as usize * 16)
                .cast::<Cqe>()
                .read_volatile()
        }
    }

    /// Overwrite every slot a10 has given back (those not in `[head, tail)`).
    pub fn scribble_released(&mut self) {
        if !self.scribble {
            return;
        }
        let head = self.cq_head();
        let tail = self.cq_tail();
        let used = tail.wrapping_sub(head).min(self.cq_entries);
        for k in used..self.cq_entries {
            let pos = head.wrapping_add(k);
            self.write_cqe_slot(pos, garbage(pos & (self.cq_entries - 1)));
        }
        self.last_seen_cq_head = head;
    }

    /// Publish a completion (or queue it if the ring is full).
    fn publish(&mut self, cqe: Cqe) -> bool {
        self.scribble_released();
        if !self.backlog.is_empty() || self.cq_ready() >= self.cq_entries {
            self.backlog.push_back(cqe);
            return false;
        }
        self.publish_now(cqe);
        true
    }

    fn publish_now(&mut self, cqe: Cqe) {
        let tail = self.cq_tail();
        self.write_cqe_slot(tail, cqe);
        std::sync::atomic::fence(Ordering::SeqCst);
        self.word(self.cq_ring, 4).store(tail.wrapping_add(1), Ordering::SeqCst);
        self.published.push(cqe);
    }

    /// Move queued completions into the ring while there is room.
    pub fn flush_backlog(&mut self) {
        self.scribble_released();
        while !self.backlog.is_empty() && self.cq_ready() < self.cq_entries {
            let cqe = self.backlog.pop_front().unwrap();
            self.publish_now(cqe);
        }
    }

    fn unmap_self(&self) {
        unsafe {
            libc::munmap(self.sq_ring.cast(), self.sq_ring_len);
            libc::munmap(self.cq_ring.cast(), self.cq_ring_len);
            libc::munmap(self.sqes.cast(), self.sqes_len);
        }
    }

    pub fn find_inflight(&self, user_data: u64) -> Option<usize> {
        self.inflight.iter().position(|r| r.sqe.user_data() == user_data)
    }
}

impl Kernel {
    pub fn note(&mut self, note: Note) {
        self.notes.push(note);
    }

    pub fn take_notes(&mut self) -> Vec<Note> {
        std::mem::take(&mut self.notes)
    }

    pub fn alloc_fd(&mut self) -> i32 {
        let fd = self.next_fd;
        self.next_fd += 1;
        self.open_fds.insert(fd);
        fd
    }

    /// Allocate a slot in the fixed file table of `ring`.
    pub fn alloc_direct(&mut self, ring: i32) -> Option<u32> {
        let files = self.rings.get_mut(&ring)?.files.as_mut()?;
        let slot = files.iter().position(|used| !used)?;
        files[slot] = true;
        Some(slot as u32)
    }

    /// Check that every region of `req` is still allocated.
    fn check_regions(&mut self, ring: i32, req: &Request, when: &'static str) {
        for region in &req.decoded.regions {
            if let Some(block) = alloc::is_quarantined(region.addr, region.len) {
                self.notes.push(Note::Dangling {
                    ring,
                    request: req.id,
                    user_data: req.sqe.user_data(),
                    addr: region.addr,
                    len: region.len,
                    block,
                    when,
                });
            }
        }
    }

    /// Consume up to `max` submissions of `ring`.
    pub fn consume(&mut self, fd: i32, max: u32) -> u32 {
        let mut n = 0;
        loop {
            let Some(ring) = self.rings.get_mut(&fd) else { return n };
            if n >= max || ring.sq_pending() == 0 {
                return n;
            }
            let head = ring.sq_head();
            // Without IORING_SETUP_NO_SQARRAY the kernel finds the entry through the
            // index array of the submission ring (which the application must fill).
            let slot = if ring.setup_flags & SETUP_NO_SQARRAY != 0 {
                head
            } else {
                ring.word(ring.sq_ring, 64 + (head & (ring.sq_entries - 1)) as usize * 4).load(Ordering::SeqCst)
            };
            let sqe = if slot >= ring.sq_entries && ring.setup_flags & SETUP_NO_SQARRAY == 0 {
                // Out of range index: the kernel drops the entry.
                ring.word(ring.sq_ring, 0).store(head.wrapping_add(1), Ordering::SeqCst);
                ring.word(ring.sq_ring, 20).fetch_add(1, Ordering::SeqCst);
                n += 1;
                continue;
            } else {
                ring.read_sqe(slot)
            };
            ring.word(ring.sq_ring, 0).store(head.wrapping_add(1), Ordering::SeqCst);
            ring.consumed += 1;
            n += 1;
            self.notes.push(Note::Consumed { ring: fd, index: head & (self.rings[&fd].sq_entries - 1), sqe });
            self.execute(fd, sqe);
        }
    }

    /// Start executing one consumed submission.
    fn execute(&mut self, fd: i32, sqe: Sqe) {
        let decoded = abi::decode(&sqe);
        let id = self.next_request;
        self.next_request += 1;
        let req = Request { id, sqe, decoded, posted: 0, cancelled: false };
        // The user_data block itself is kernel visible state of a10 (the
        // completion handler dereferences it), pin it together with the regions.
        for region in &req.decoded.regions {
            alloc::pin(region.addr, region.len, id);
        }
        self.check_regions(fd, &req, "consume");
        let skip_success = sqe.flags() & SQE_CQE_SKIP_SUCCESS != 0;
        match sqe.opcode() {
            abi::OP_ASYNC_CANCEL => {
                let target = sqe.addr();
                let found = self.rings.get(&fd).and_then(|r| r.find_inflight(target));
                // One decision per cancel request consumed, used or not.
                let win = self.cancel_decisions.pop_front().unwrap_or(true);
                let res = match found {
                    None => -ENOENT,
                    Some(idx) => {
                        if win {
                            let ring = self.rings.get_mut(&fd).unwrap();
                            ring.inflight[idx].cancelled = true;
                            0
                        } else {
                            -EALREADY
                        }
                    }
                };
                self.notes.push(Note::Cancel { ring: fd, target, outcome: res });
                alloc::unpin(id);
                if res == 0 {
                    // The target completes with -ECANCELED.
                    self.complete(fd, target, -ECANCELED, 0);
                }
                if !(res == 0 && skip_success) {
                    self.post_raw(fd, Cqe { user_data: sqe.user_data(), res, flags: 0 });
                }
            }
            abi::OP_CLOSE if sqe.user_data() <= 3 => {
                let res = self.do_close(fd, &sqe, "ring");
                alloc::unpin(id);
                if !(res == 0 && skip_success) {
                    self.post_raw(fd, Cqe { user_data: sqe.user_data(), res, flags: 0 });
                }
            }
            abi::OP_MSG_RING => {
                let target = sqe.fd();
                alloc::unpin(id);
                let res = if self.rings.contains_key(&target) {
                    // IORING_MSG_DATA: user_data = off, res = len.
                    self.post_raw(target, Cqe { user_data: sqe.off(), res: sqe.len() as i32, flags: 0 });
                    self.notes.push(Note::MsgRing { from: fd, to: target });
                    crate::events::push("KMsgRing", [fd as u64, target as u64, 0, 0, 0, 0]);
                    0
                } else {
                    -EBADFD
                };
                if !(res == 0 && skip_success) {
                    self.post_raw(fd, Cqe { user_data: sqe.user_data(), res, flags: 0 });
                }
            }
            _ => {
                if !req.decoded.known {
                    self.notes.push(Note::Unknown { ring: fd, opcode: sqe.opcode() });
                }
                if let Some(ring) = self.rings.get_mut(&fd) {
                    ring.inflight.push(req);
                }
            }
        }
    }

    /// Close as requested by a CLOSE submission; returns the result.
    fn do_close(&mut self, ring: i32, sqe: &Sqe, via: &'static str) -> i32 {
        let file_index = sqe.file_index();
        if file_index != 0 {
            let slot = (file_index - 1) as usize;
            let ok = match self.rings.get_mut(&ring).and_then(|r| r.files.as_mut()) {
                Some(files) if slot < files.len() && files[slot] => {
                    files[slot] = false;
                    true
                }
                _ => false,
            };
            self.notes.push(Note::Close { ring, fd: slot as i32, direct: true, via, ok });
            if ok { 0 } else { -EBADF }
        } else {
            let fd = sqe.fd();
            if (0..FAKE_FD_BASE).contains(&fd) {
                // A real descriptor of this process (e.g. an inotify instance used
                // with a simulated ring): really close it.
                let ok = unsafe { libc::close(fd) } == 0;
                self.notes.push(Note::Close { ring, fd, direct: false, via, ok });
                return if ok { 0 } else { -EBADF };
            }
            let ok = self.open_fds.remove(&fd);
            self.notes.push(Note::Close { ring, fd, direct: false, via, ok });
            if ok { 0 } else { -EBADF }
        }
    }

    /// Publish a raw completion on `ring`.
    pub fn post_raw(&mut self, fd: i32, cqe: Cqe) {
        if let Some(ring) = self.rings.get_mut(&fd) {
            if !ring.publish(cqe) {
                self.notes.push(Note::Overflow { ring: fd });
            }
        }
    }

    /// Post a completion for the in-flight request with `user_data`. If
    /// `flags` has no `F_MORE` the request is finished and its memory unpinned.
    /// A request whose cancel was accepted gets `-ECANCELED` instead.
    /// Returns false if there is no such request.
    pub fn complete(&mut self, fd: i32, user_data: u64, res: i32, flags: u32) -> bool {
        let Some(ring) = self.rings.get_mut(&fd) else { return false };
        let Some(idx) = ring.find_inflight(user_data) else { return false };
        let (res, flags) = if ring.inflight[idx].cancelled { (-ECANCELED, 0) } else { (res, flags) };
        ring.inflight[idx].posted += 1;
        let req = ring.inflight[idx].clone();
        // The kernel touches the request's memory when it completes it.
        self.check_regions(fd, &req, "complete");
        let ring = self.rings.get_mut(&fd).unwrap();
        if flags & CQE_F_MORE == 0 {
            ring.inflight.remove(idx);
            alloc::unpin(req.id);
        }
        self.post_raw(fd, Cqe { user_data, res, flags });
        true
    }

    /// Pick the next provided buffer of `group`; writes `data` into it.
    /// Returns the flags word (`F_BUFFER | bid << 16`) and the length, or
    /// `Err(-ENOBUFS)`.
    pub fn take_buffer(&mut self, fd: i32, group: u16, data: &[u8]) -> Result<(u32, i32), i32> {
        let ring = self.rings.get_mut(&fd).ok_or(-EBADF)?;
        let pbuf = ring.pbuf.get_mut(&group).ok_or(-ENOBUFS)?;
        let tail = unsafe { AtomicU16::from_ptr((pbuf.addr + 14) as *mut u16).load(Ordering::SeqCst) };
        if pbuf.khead == tail {
            return Err(-ENOBUFS);
        }
        let idx = (pbuf.khead as u32 & (pbuf.entries - 1)) as usize;
        let entry = (pbuf.addr + idx * 16) as *const u8;
        let (addr, len, bid) = unsafe {
            (
                entry.cast::<u64>().read_volatile() as usize,
                entry.add(8).cast::<u32>().read_volatile() as usize,
                entry.add(12).cast::<u16>().read_volatile(),
            )
        };
        pbuf.khead = pbuf.khead.wrapping_add(1);
        let n = data.len().min(len);
        unsafe { (addr as *mut u8).copy_from_nonoverlapping(data.as_ptr(), n) };
        Ok((CQE_F_BUFFER | (u32::from(bid) << 16), n as i32))
    }

    /// Buffer ids currently offered to the kernel in `group`, in ring order.
    pub fn offered_buffers(&self, fd: i32, group: u16) -> Vec<(u16, usize)> {
        let Some(pbuf) = self.rings.get(&fd).and_then(|r| r.pbuf.get(&group)) else { return Vec::new() };
        let tail = unsafe { AtomicU16::from_ptr((pbuf.addr + 14) as *mut u16).load(Ordering::SeqCst) };
        let mut out = Vec::new();
        let mut h = pbuf.khead;
        while h != tail {
            let idx = (h as u32 & (pbuf.entries - 1)) as usize;
            let entry = (pbuf.addr + idx * 16) as *const u8;
            let (addr, bid) = unsafe {
                (entry.cast::<u64>().read_volatile() as usize, entry.add(12).cast::<u16>().read_volatile())
            };
            out.push((bid, addr));
            h = h.wrapping_add(1);
        }
        out
    }
}

fn parse_timeout(flags: u32, arg: *const c_void, size: usize) -> Option<(i64, i64)> {
    if flags & ENTER_EXT_ARG == 0 || arg.is_null() || size < 24 {
        return None;
    }
    // struct io_uring_getevents_arg { u64 sigmask; u32 sigmask_sz; u32 min_wait_usec; u64 ts; }
    let ts = unsafe { arg.cast::<u8>().add(16).cast::<u64>().read_unaligned() };
    if ts == 0 {
        return None;
    }
    let sec = unsafe { (ts as *const i64).read_unaligned() };
    let nsec = unsafe { (ts as *const i64).add(1).read_unaligned() };
    Some((sec, nsec))
}

unsafe fn sys_enter(fd: i32, to_submit: u32, min_complete: u32, flags: u32, arg: *const c_void, size: usize) -> Option<i64> {
    alloc::untracked(|| {
        let timeout = parse_timeout(flags, arg, size);
        let consumed;
        {
            let mut k = kernel();
            if !k.rings.contains_key(&fd) {
                if fd >= 0 && unsafe { libc::fcntl(fd, libc::F_GETFD) } == -1 {
                    k.note(Note::BadRing { fd, what: "enter" });
                    return Some(-i64::from(EBADF));
                }
                return None;
            }
            if !k.rings[&fd].enabled {
                return Some(-i64::from(EBADFD));
            }
            let sqpoll = k.rings[&fd].setup_flags & SETUP_SQPOLL != 0;
            consumed = if sqpoll { 0 } else { k.consume(fd, to_submit) };
            k.rings.get_mut(&fd).unwrap().flush_backlog();
        }
        if consumed > 0 {
            crate::sched::note_progress();
        }
        let mut wait_result: i64 = 0;
        if flags & ENTER_GETEVENTS != 0 {
            loop {
                {
                    let mut k = kernel();
                    let Some(ring) = k.rings.get_mut(&fd) else { break };
                    ring.flush_backlog();
                    let want = min_complete.min(ring.cq_entries);
                    if ring.cq_ready() >= want {
                        break;
                    }
                }
                let info = BlockInfo { ring: fd, timeout, min_complete };
                let mut callback = ON_BLOCK.lock().unwrap_or_else(|e| e.into_inner()).take();
                let action = match callback.as_mut() {
                    Some(f) => f(&info),
                    None => match timeout {
                        Some(_) => BlockAction::Timeout,
                        None => BlockAction::Deadlock,
                    },
                };
                if let Some(f) = callback {
                    let mut slot = ON_BLOCK.lock().unwrap_or_else(|e| e.into_inner());
                    if slot.is_none() {
                        *slot = Some(f);
                    }
                }
                match action {
                    BlockAction::Retry => continue,
                    BlockAction::Timeout => {
                        wait_result = -i64::from(ETIME);
                        break;
                    }
                    BlockAction::Interrupt => {
                        wait_result = -i64::from(EINTR);
                        break;
                    }
                    BlockAction::Deadlock => {
                        kernel().note(Note::Deadlock { ring: fd });
                        wait_result = -i64::from(EDEADLK);
                        break;
                    }
                }
            }
        }
        // A real kernel reports the number of submissions if there were any, else
        // the outcome of the wait.  A wait that can never end is reported as
        // -EDEADLK in any case (the real call would simply never return).
        let ret = if wait_result == -i64::from(EDEADLK) {
            wait_result
        } else if consumed > 0 {
            i64::from(consumed)
        } else {
            wait_result
        };
        kernel().note(Note::Enter { ring: fd, to_submit, consumed, min_complete, flags, ret, timeout });
        Some(ret)
    })
}

unsafe fn sys_register(fd: i32, opcode: u32, arg: *const c_void, nr_args: u32) -> Option<i64> {
    alloc::untracked(|| {
        let mut k = kernel();
        // IORING_REGISTER_SEND_MSG_RING is called without a ring.
        if fd == -1 && opcode == 31 {
            let sqe = unsafe { Sqe(arg.cast::<[u8; 64]>().read_unaligned()) };
            let target = sqe.fd();
            if !k.rings.contains_key(&target) {
                return None;
            }
            k.post_raw(target, Cqe { user_data: sqe.off(), res: sqe.len() as i32, flags: 0 });
            k.note(Note::MsgRing { from: -1, to: target });
            crate::events::push("KMsgRing", [u64::MAX, target as u64, 1, 0, 0, 0]);
            k.note(Note::Register { ring: target, opcode, ret: 0 });
            return Some(0);
        }
        if !k.rings.contains_key(&fd) {
            if fd >= 0 && unsafe { libc::fcntl(fd, libc::F_GETFD) } == -1 {
                k.note(Note::BadRing { fd, what: "register" });
                return Some(-i64::from(EBADF));
            }
            return None;
        }
        let ret = k.do_register(fd, opcode, arg, nr_args);
        k.note(Note::Register { ring: fd, opcode, ret });
        Some(ret)
    })
}

impl Kernel {
    fn do_register(&mut self, fd: i32, opcode: u32, arg: *const c_void, _nr_args: u32) -> i64 {
        if let Some(errno) = self.fail_register.get(&opcode) {
            return -i64::from(*errno);
        }
        match opcode {
            // IORING_REGISTER_ENABLE_RINGS
            12 => {
                let ring = self.rings.get_mut(&fd).unwrap();
                if ring.enabled {
                    return -i64::from(EBADFD);
                }
                ring.enabled = true;
                0
            }
            // IORING_REGISTER_FILES2 (sparse)
            13 => {
                // struct io_uring_rsrc_register { u32 nr; u32 flags; u64 resv2; u64 data; u64 tags; }
                let nr = unsafe { arg.cast::<u32>().read_unaligned() } as usize;
                let ring = self.rings.get_mut(&fd).unwrap();
                if ring.files.is_some() {
                    return -i64::from(EBADF);
                }
                ring.files = Some(vec![false; nr]);
                0
            }
            // IORING_REGISTER_FILES_UPDATE
            6 => {
                // struct io_uring_files_update { u32 offset; u32 resv; u64 fds; }
                let offset = unsafe { arg.cast::<u32>().read_unaligned() } as usize;
                let fds = unsafe { arg.cast::<u8>().add(8).cast::<u64>().read_unaligned() } as *const i32;
                let value = unsafe { fds.read_unaligned() };
                let ok = match self.rings.get_mut(&fd).and_then(|r| r.files.as_mut()) {
                    Some(files) if offset < files.len() => {
                        if value == -1 {
                            let was = files[offset];
                            files[offset] = false;
                            was
                        } else {
                            files[offset] = true;
                            true
                        }
                    }
                    _ => false,
                };
                if value == -1 {
                    self.notes.push(Note::Close { ring: fd, fd: offset as i32, direct: true, via: "register", ok });
                }
                if ok { 1 } else { -i64::from(EBADF) }
            }
            // IORING_REGISTER_PBUF_RING
            22 => {
                // struct io_uring_buf_reg { u64 ring_addr; u32 ring_entries; u16 bgid; u16 flags; u64 resv[3]; }
                let addr = unsafe { arg.cast::<u64>().read_unaligned() } as usize;
                let entries = unsafe { arg.cast::<u8>().add(8).cast::<u32>().read_unaligned() };
                let bgid = unsafe { arg.cast::<u8>().add(12).cast::<u16>().read_unaligned() };
                let ring = self.rings.get_mut(&fd).unwrap();
                if ring.pbuf.contains_key(&bgid) {
                    return -i64::from(EEXIST);
                }
                if !entries.is_power_of_two() || entries > 32768 {
                    return -i64::from(EINVAL);
                }
                ring.pbuf.insert(bgid, PbufRing { addr, entries, khead: 0 });
                0
            }
            // IORING_UNREGISTER_PBUF_RING
            23 => {
                let bgid = unsafe { arg.cast::<u8>().add(12).cast::<u16>().read_unaligned() };
                let ring = self.rings.get_mut(&fd).unwrap();
                if ring.pbuf.remove(&bgid).is_some() { 0 } else { -i64::from(ENOENT) }
            }
            // IORING_REGISTER_SYNC_CANCEL: a10 only uses cancel-any/all.
            24 => {
                let pending: Vec<u64> = self.rings[&fd].inflight.iter().map(|r| r.sqe.user_data()).collect();
                let n = pending.len();
                for user_data in pending {
                    self.complete(fd, user_data, -ECANCELED, 0);
                }
                if n == 0 { -i64::from(ENOENT) } else { n as i64 }
            }
            _ => -i64::from(EINVAL),
        }
    }
}

unsafe fn sys_mmap(_len: usize, _prot: i32, _flags: i32, fd: i32, _offset: i64) -> Option<i64> {
    alloc::untracked(|| {
        let mut k = kernel();
        if !k.rings.contains_key(&fd) {
            return None;
        }
        let call = k.mmap_calls;
        k.mmap_calls += 1;
        if let Some((at, errno)) = k.fail_mmap_at {
            if at == call {
                return Some(-i64::from(errno));
            }
        }
        None
    })
}

unsafe fn sys_mapped(addr: *mut c_void, len: usize, fd: i32, offset: i64) {
    alloc::untracked(|| {
        let mut k = kernel();
        if k.rings.contains_key(&fd) {
            k.maps.push((addr as usize, len, fd, offset));
        }
    });
}

unsafe fn sys_munmap(addr: *mut c_void, len: usize) -> Option<i64> {
    alloc::untracked(|| {
        kernel().unmaps.push((addr as usize, len));
        None
    })
}

unsafe fn sys_close(fd: i32) -> Option<i64> {
    alloc::untracked(|| {
        let mut k = kernel();
        k.closes.push(fd);
        if fd >= FAKE_FD_BASE {
            let ok = k.open_fds.remove(&fd);
            k.note(Note::Close { ring: -1, fd, direct: false, via: "close(2)", ok });
            return Some(if ok { 0 } else { -i64::from(EBADF) });
        }
        None
    })
}

/// Forget a ring whose descriptor a10 has closed (called by drivers after the
/// last handle is gone).
pub fn forget_closed_rings() -> Vec<i32> {
    let mut k = kernel();
    let fds: Vec<i32> = k.rings.keys().copied().collect();
    let mut gone = Vec::new();
    for fd in fds {
        if unsafe { libc::fcntl(fd, libc::F_GETFD) } == -1 {
            let ring = k.rings.remove(&fd).unwrap();
            for req in &ring.inflight {
                alloc::unpin(req.id);
            }
            ring.unmap_self();
            gone.push(fd);
        }
    }
    gone
}

//! Tracking allocator.
//!
//! Wraps `System`. While a history is `ACTIVE`:
//!  * every `dealloc` is checked against the regions the simulated kernel has
//!    pinned (memory of in-flight requests) -> `Incident::FreePinned`,
//!  * freed blocks are poisoned and kept in a quarantine instead of being
//!    returned to the system, so a dangling pointer handed to the kernel is
//!    recognisable (`is_quarantined`) and a double free is detected,
//!  * blocks allocated while `TRACK` is on (i.e. inside calls into a10) are
//!    remembered so a leak census can be taken at the end of the history.
//!
//! All side tables are fixed-size statics; nothing in here allocates.

use std::alloc::{GlobalAlloc, Layout, System};
use std::cell::UnsafeCell;
use std::sync::atomic::{AtomicBool, AtomicUsize, Ordering};

pub struct Tracking;

const LIVE_CAP: usize = 1 << 16; // open addressed table of tracked live blocks.
const QUAR_CAP: usize = 1 << 16;
const QSET_CAP: usize = 1 << 18;
const PIN_CAP: usize = 256;
const INC_CAP: usize = 256;

#[derive(Copy, Clone)]
struct Block {
    ptr: usize, // 0 = empty, 1 = tombstone.
    size: usize,
    align: usize,
    serial: usize,
}

#[derive(Copy, Clone, Debug)]
pub struct Pin {
    pub addr: usize,
    pub len: usize,
    /// Owner tag (request id in the simulated kernel).
    pub owner: u64,
}

#[derive(Copy, Clone, Debug)]
pub enum Incident {
    /// A block overlapping a pinned region was freed.
    FreePinned { ptr: usize, size: usize, pin: Pin },
    /// A block that is already in quarantine was freed again.
    DoubleFree { ptr: usize, size: usize },
}

struct Tables {
    live: [Block; LIVE_CAP],
    live_count: usize,
    quarantine: [Block; QUAR_CAP],
    quar_len: usize,
    pins: [Pin; PIN_CAP],
    pin_len: usize,
    incidents: [Option<Incident>; INC_CAP],
    inc_len: usize,
    serial: usize,
    quarantined_bytes: usize,
    /// Open addressed set of quarantined block addresses (0 = empty).
    qset: [usize; QSET_CAP],
}

struct Global(UnsafeCell<Tables>);
unsafe impl Sync for Global {}

static TABLES: Global = Global(UnsafeCell::new(Tables {
    live: [Block { ptr: 0, size: 0, align: 0, serial: 0 }; LIVE_CAP],
    live_count: 0,
    quarantine: [Block { ptr: 0, size: 0, align: 0, serial: 0 }; QUAR_CAP],
    quar_len: 0,
    pins: [Pin { addr: 0, len: 0, owner: 0 }; PIN_CAP],
    pin_len: 0,
    incidents: [None; INC_CAP],
    inc_len: 0,
    serial: 0,
    quarantined_bytes: 0,
    qset: [0; QSET_CAP],
}));

/// Spin lock protecting `TABLES` (the allocator may be called from several
/// threads in scheduled runs).
static LOCK: AtomicBool = AtomicBool::new(false);
/// A history is running: quarantine + pin checks are on.
static ACTIVE: AtomicBool = AtomicBool::new(false);
/// Number of nested "inside a10" scopes (allocations are tracked for leaks).
static TRACK: AtomicUsize = AtomicUsize::new(0);

struct Guard;

fn lock() -> Guard {
    while LOCK
        .compare_exchange_weak(false, true, Ordering::Acquire, Ordering::Relaxed)
        .is_err()
    {
        std::hint::spin_loop();
    }
    Guard
}

impl Drop for Guard {
    fn drop(&mut self) {
        LOCK.store(false, Ordering::Release);
    }
}

#[allow(clippy::mut_from_ref)]
fn tables(_: &Guard) -> &mut Tables {
    unsafe { &mut *TABLES.0.get() }
}

fn hash(ptr: usize) -> usize {
    (ptr >> 4).wrapping_mul(0x9E37_79B9_7F4A_7C15) >> (64 - 20)
}

impl Tables {
    fn live_insert(&mut self, block: Block) {
        if self.live_count * 2 >= LIVE_CAP {
            return; // Table full: stop tracking new blocks (reported by census()).
        }
        let mut i = hash(block.ptr) & (LIVE_CAP - 1);
        loop {
            if self.live[i].ptr <= 1 {
                self.live[i] = block;
                self.live_count += 1;
                return;
            }
            i = (i + 1) & (LIVE_CAP - 1);
        }
    }

    fn live_remove(&mut self, ptr: usize) -> Option<Block> {
        let mut i = hash(ptr) & (LIVE_CAP - 1);
        for _ in 0..LIVE_CAP {
            match self.live[i].ptr {
                0 => return None,
                p if p == ptr => {
                    let block = self.live[i];
                    self.live[i].ptr = 1;
                    self.live_count -= 1;
                    return Some(block);
                }
                _ => i = (i + 1) & (LIVE_CAP - 1),
            }
        }
        None
    }

    fn qset_insert(&mut self, ptr: usize) {
        let mut i = hash(ptr) & (QSET_CAP - 1);
        while self.qset[i] != 0 {
            i = (i + 1) & (QSET_CAP - 1);
        }
        self.qset[i] = ptr;
    }

    fn qset_contains(&self, ptr: usize) -> bool {
        let mut i = hash(ptr) & (QSET_CAP - 1);
        while self.qset[i] != 0 {
            if self.qset[i] == ptr {
                return true;
            }
            i = (i + 1) & (QSET_CAP - 1);
        }
        false
    }

    fn incident(&mut self, incident: Incident) {
        if self.inc_len < INC_CAP {
            self.incidents[self.inc_len] = Some(incident);
            self.inc_len += 1;
        }
    }
}

fn overlaps(a: usize, alen: usize, b: usize, blen: usize) -> bool {
    alen != 0 && blen != 0 && a < b + blen && b < a + alen
}

unsafe impl GlobalAlloc for Tracking {
    unsafe fn alloc(&self, layout: Layout) -> *mut u8 {
        let ptr = unsafe { System.alloc(layout) };
        if !ptr.is_null() && ACTIVE.load(Ordering::Relaxed) && TRACK.load(Ordering::Relaxed) > 0 {
            let guard = lock();
            let t = tables(&guard);
            t.serial += 1;
            let serial = t.serial;
            t.live_insert(Block { ptr: ptr as usize, size: layout.size(), align: layout.align(), serial });
        }
        ptr
    }

    unsafe fn alloc_zeroed(&self, layout: Layout) -> *mut u8 {
        let ptr = unsafe { self.alloc(layout) };
        if !ptr.is_null() {
            unsafe { ptr.write_bytes(0, layout.size()) };
        }
        ptr
    }

    unsafe fn dealloc(&self, ptr: *mut u8, layout: Layout) {
        if !ACTIVE.load(Ordering::Relaxed) {
            unsafe { System.dealloc(ptr, layout) };
            return;
        }
        let addr = ptr as usize;
        let guard = lock();
        let t = tables(&guard);
        // Double free?
        if t.qset_contains(addr) {
            t.incident(Incident::DoubleFree { ptr: addr, size: layout.size() });
            return;
        }
        for i in 0..t.pin_len {
            let pin = t.pins[i];
            if overlaps(addr, layout.size(), pin.addr, pin.len) {
                t.incident(Incident::FreePinned { ptr: addr, size: layout.size(), pin });
                break;
            }
        }
        t.live_remove(addr);
        if t.quar_len < QUAR_CAP && t.quarantined_bytes < (1 << 30) {
            t.serial += 1;
            let serial = t.serial;
            t.quarantine[t.quar_len] = Block { ptr: addr, size: layout.size(), align: layout.align(), serial };
            t.quar_len += 1;
            t.qset_insert(addr);
            t.quarantined_bytes += layout.size();
            // Poison, so stale reads are recognisable.
            unsafe { ptr.write_bytes(0xDE, layout.size()) };
        } else {
            drop(guard);
            unsafe { System.dealloc(ptr, layout) };
        }
    }

    unsafe fn realloc(&self, ptr: *mut u8, layout: Layout, new_size: usize) -> *mut u8 {
        if !ACTIVE.load(Ordering::Relaxed) {
            return unsafe { System.realloc(ptr, layout, new_size) };
        }
        // Always move, so the old block goes through the checks in `dealloc`.
        let new_layout = unsafe { Layout::from_size_align_unchecked(new_size, layout.align()) };
        let new = unsafe { self.alloc(new_layout) };
        if !new.is_null() {
            unsafe {
                new.copy_from_nonoverlapping(ptr, layout.size().min(new_size));
                self.dealloc(ptr, layout);
            }
        }
        new
    }
}

/// Start a history: turn on quarantine and pin checking.
pub fn begin() {
    let guard = lock();
    let t = tables(&guard);
    t.pin_len = 0;
    t.inc_len = 0;
    drop(guard);
    ACTIVE.store(true, Ordering::SeqCst);
}

/// Run `f` with leak tracking of allocations on ("inside a10").
pub fn tracked<T>(f: impl FnOnce() -> T) -> T {
    TRACK.fetch_add(1, Ordering::SeqCst);
    let result = f();
    TRACK.fetch_sub(1, Ordering::SeqCst);
    result
}

/// Run `f` with leak tracking off (harness-internal work nested inside a
/// tracked scope, e.g. the simulated kernel called from within a10).
pub fn untracked<T>(f: impl FnOnce() -> T) -> T {
    let old = TRACK.swap(0, Ordering::SeqCst);
    let result = f();
    TRACK.store(old, Ordering::SeqCst);
    result
}

/// End a history: returns (leaked blocks as (ptr, size, serial), incidents) and
/// releases the quarantine.
pub fn end() -> (Vec<(usize, usize, usize)>, Vec<Incident>) {
    ACTIVE.store(false, Ordering::SeqCst);
    let mut to_free = Vec::new();
    let mut leaks = Vec::new();
    let mut incidents = Vec::new();
    {
        let guard = lock();
        let t = tables(&guard);
        for i in 0..t.quar_len {
            to_free.push(t.quarantine[i]);
            // Remove from the address set (the set is rebuilt empty for the next history).
            let mut j = hash(t.quarantine[i].ptr) & (QSET_CAP - 1);
            while t.qset[j] != 0 {
                t.qset[j] = 0;
                j = (j + 1) & (QSET_CAP - 1);
            }
        }
        t.quar_len = 0;
        t.quarantined_bytes = 0;
        for i in 0..LIVE_CAP {
            if t.live[i].ptr > 1 {
                leaks.push((t.live[i].ptr, t.live[i].size, t.live[i].serial));
            }
            t.live[i].ptr = 0;
        }
        t.live_count = 0;
        for i in 0..t.inc_len {
            incidents.extend(t.incidents[i]);
        }
        t.inc_len = 0;
        t.pin_len = 0;
    }
    for block in to_free {
        unsafe {
            System.dealloc(
                block.ptr as *mut u8,
                Layout::from_size_align_unchecked(block.size, block.align),
            );
        }
    }
    leaks.sort_by_key(|l| l.2);
    (leaks, incidents)
}

/// Incidents so far (without ending the history).
pub fn incidents() -> Vec<Incident> {
    let mut out = Vec::new();
    untracked(|| {
        let mut copy = [None; INC_CAP];
        let n;
        {
            let guard = lock();
            let t = tables(&guard);
            n = t.inc_len;
            copy[..n].copy_from_slice(&t.incidents[..n]);
        }
        out.extend(copy[..n].iter().flatten().copied());
    });
    out
}

/// Serial number of the most recent tracked allocation / free.
pub fn current_serial() -> usize {
    let guard = lock();
    tables(&guard).serial
}

/// Number of tracked live blocks right now.
pub fn live_tracked() -> usize {
    let guard = lock();
    tables(&guard).live_count
}

/// Snapshot of the tracked live blocks (ptr, size, serial).
pub fn live_blocks() -> Vec<(usize, usize, usize)> {
    let mut copy: Vec<(usize, usize, usize)> = Vec::with_capacity(LIVE_CAP / 2);
    let guard = lock();
    let t = tables(&guard);
    for i in 0..LIVE_CAP {
        if t.live[i].ptr > 1 && copy.len() < copy.capacity() {
            copy.push((t.live[i].ptr, t.live[i].size, t.live[i].serial));
        }
    }
    drop(guard);
    copy.sort_by_key(|l| l.2);
    copy
}

/// Pin a region on behalf of `owner`.
pub fn pin(addr: usize, len: usize, owner: u64) {
    if len == 0 {
        return;
    }
    let guard = lock();
    let t = tables(&guard);
    if t.pin_len < PIN_CAP {
        t.pins[t.pin_len] = Pin { addr, len, owner };
        t.pin_len += 1;
    }
}

/// Remove all pins of `owner`.
pub fn unpin(owner: u64) {
    let guard = lock();
    let t = tables(&guard);
    let mut i = 0;
    while i < t.pin_len {
        if t.pins[i].owner == owner {
            t.pins[i] = t.pins[t.pin_len - 1];
            t.pin_len -= 1;
        } else {
            i += 1;
        }
    }
}

/// If `[addr, addr+len)` intersects a block that was freed during this history
/// return that block's (ptr, size).
pub fn is_quarantined(addr: usize, len: usize) -> Option<(usize, usize)> {
    let guard = lock();
    let t = tables(&guard);
    for i in 0..t.quar_len {
        let b = t.quarantine[i];
        if overlaps(addr, len.max(1), b.ptr, b.size) {
            return Some((b.ptr, b.size));
        }
    }
    None
}

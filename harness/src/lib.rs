//! Verification harness for a10: simulated kernel, tracking allocator,
//! counting wakers and the drivers that replay TLA+ behaviours.

pub mod abi;
pub mod alloc;
pub mod events;
pub mod sched;
pub mod simk;
pub mod wakers;

#[global_allocator]
static GLOBAL: alloc::Tracking = alloc::Tracking;

//! Counting wakers with identities, allocation free.

use std::sync::atomic::{AtomicU64, Ordering};
use std::task::{RawWaker, RawWakerVTable, Waker};

pub const MAX_WAKERS: usize = 16;

static COUNTS: [AtomicU64; MAX_WAKERS] = [const { AtomicU64::new(0) }; MAX_WAKERS];
static CLONES: [AtomicU64; MAX_WAKERS] = [const { AtomicU64::new(0) }; MAX_WAKERS];
static DROPS: [AtomicU64; MAX_WAKERS] = [const { AtomicU64::new(0) }; MAX_WAKERS];

/// Optional observer called with the waker's id whenever a waker is invoked.
static ON_WAKE: std::sync::atomic::AtomicUsize = std::sync::atomic::AtomicUsize::new(0);

pub fn set_on_wake(f: Option<fn(usize)>) {
    ON_WAKE.store(f.map_or(0, |f| f as usize), Ordering::SeqCst);
}

fn notify(id: usize) {
    let f = ON_WAKE.load(Ordering::SeqCst);
    if f != 0 {
        let f: fn(usize) = unsafe { std::mem::transmute::<usize, fn(usize)>(f) };
        f(id);
    }
}

static VTABLE: RawWakerVTable = RawWakerVTable::new(clone, wake, wake_by_ref, drop_waker);

unsafe fn clone(data: *const ()) -> RawWaker {
    CLONES[data as usize].fetch_add(1, Ordering::SeqCst);
    RawWaker::new(data, &VTABLE)
}

unsafe fn wake(data: *const ()) {
    COUNTS[data as usize].fetch_add(1, Ordering::SeqCst);
    DROPS[data as usize].fetch_add(1, Ordering::SeqCst);
    notify(data as usize);
}

unsafe fn wake_by_ref(data: *const ()) {
    COUNTS[data as usize].fetch_add(1, Ordering::SeqCst);
    notify(data as usize);
}

unsafe fn drop_waker(data: *const ()) {
    DROPS[data as usize].fetch_add(1, Ordering::SeqCst);
}

/// Waker number `id` (0-based, `< MAX_WAKERS`).
pub fn waker(id: usize) -> Waker {
    assert!(id < MAX_WAKERS);
    CLONES[id].fetch_add(1, Ordering::SeqCst);
    unsafe { Waker::from_raw(RawWaker::new(id as *const (), &VTABLE)) }
}

/// Number of times waker `id` was invoked.
pub fn count(id: usize) -> u64 {
    COUNTS[id].load(Ordering::SeqCst)
}

pub fn counts() -> [u64; MAX_WAKERS] {
    std::array::from_fn(|i| COUNTS[i].load(Ordering::SeqCst))
}

/// Clones minus drops: number of live `Waker` values for `id`.
pub fn live(id: usize) -> i64 {
    CLONES[id].load(Ordering::SeqCst) as i64 - DROPS[id].load(Ordering::SeqCst) as i64
}

pub fn reset() {
    for i in 0..MAX_WAKERS {
        COUNTS[i].store(0, Ordering::SeqCst);
        CLONES[i].store(0, Ordering::SeqCst);
        DROPS[i].store(0, Ordering::SeqCst);
    }
}

//! C03, completion part, with the future and the Ring on different threads
//! (OpWakeMT.tla): one logical thread polls the future of an operation in flight,
//! each time with a new waker, while another posts the operation's completions
//! and calls Ring::poll, under the baton scheduler.
//!
//! Oracle: results are handed out once each and in order; at the end, if results
//! are still undelivered and the future's last poll returned Pending, the waker of
//! that poll has been invoked.
//!
//! usage: sched_opwake --kind single|multi --polls P --results R --preemptions B [--max-exec K] [--out FILE] [--replay-file FILE]

use std::future::Future;
use std::io::Write as _;
use std::pin::Pin;
use std::sync::{Arc, Mutex};
use std::task::{Context, Poll};
use std::time::Duration;

use a10_verif_harness::sched::{self, Body, Execution};
use a10_verif_harness::simk;
use a10_verif_harness::{alloc, events, wakers};
use serde_json::{Value, json};

#[derive(Clone)]
struct Params {
    multi: bool,
    polls: usize,
    results: usize,
}

struct Outcome {
    exec: Execution,
    problems: Vec<Value>,
}

#[derive(Clone, Debug, PartialEq)]
enum Got {
    Pending,
    Value(i64),
    End,
}

fn run_once(p: &Params, prefix: Vec<usize>, random: Option<u64>) -> Outcome {
    simk::reset();
    wakers::reset();
    events::clear();
    alloc::begin();
    let mut ring = a10::Ring::config().with_submission_queue_size(4).build().expect("ring");
    let rfd = *simk::kernel().rings.keys().next().unwrap();
    let fdn = simk::kernel().alloc_fd();
    let fd_ptr = Box::into_raw(Box::new(unsafe { a10::AsyncFd::from_raw_fd(fdn, ring.sq()) }));
    let fd: &'static a10::AsyncFd = unsafe { &*fd_ptr };
    let results = if p.multi { p.results } else { 1 };
    // The operation, started and in flight.
    let single: Arc<Mutex<Option<Pin<Box<dyn Future<Output = std::io::Result<usize>> + Send>>>>> = Arc::new(Mutex::new(None));
    let multi = Arc::new(Mutex::new(None));
    {
        let waker = wakers::waker(0);
        let mut ctx = Context::from_waker(&waker);
        if p.multi {
            let mut s = fd.multishot_accept();
            assert!(Pin::new(&mut s).poll_next(&mut ctx).is_pending());
            *multi.lock().unwrap() = Some(s);
        } else {
            let mut f: Pin<Box<dyn Future<Output = std::io::Result<usize>> + Send>> = Box::pin(fd.write(vec![7u8; 8]));
            assert!(f.as_mut().poll(&mut ctx).is_pending());
            *single.lock().unwrap() = Some(f);
        }
    }
    ring.poll(Some(Duration::ZERO)).expect("submit");
    let ud = simk::kernel().rings[&rfd].inflight.first().map(|r| r.sqe.user_data()).expect("in flight");
    events::clear();
    let ring = Arc::new(Mutex::new(Some(ring)));
    let got: Arc<Mutex<Vec<(usize, Got)>>> = Arc::new(Mutex::new(Vec::new()));
    let marks: Arc<Mutex<Vec<(usize, [u64; wakers::MAX_WAKERS])>>> = Arc::new(Mutex::new(Vec::new()));
    let mut bodies: Vec<Body> = Vec::new();
    {
        let (single, multi, got) = (single.clone(), multi.clone(), got.clone());
        let (polls, is_multi) = (p.polls, p.multi);
        bodies.push(Box::new(move || {
            for i in 1..=polls {
                sched::yield_now("future.poll");
                let waker = wakers::waker(i);
                let mut ctx = Context::from_waker(&waker);
                events::push("MPollStart", [i as u64, 0, 0, 0, 0, 0]);
                let g = alloc::tracked(|| {
                    if is_multi {
                        match Pin::new(multi.lock().unwrap().as_mut().unwrap()).poll_next(&mut ctx) {
                            Poll::Pending => Got::Pending,
                            Poll::Ready(None) => Got::End,
                            Poll::Ready(Some(Ok(f))) => {
                                let v = i64::from(std::os::fd::AsRawFd::as_raw_fd(&f.as_fd().expect("regular descriptor")));
                                std::mem::forget(f);
                                Got::Value(v)
                            }
                            Poll::Ready(Some(Err(e))) => Got::Value(-i64::from(e.raw_os_error().unwrap_or(0))),
                        }
                    } else {
                        match single.lock().unwrap().as_mut().unwrap().as_mut().poll(&mut ctx) {
                            Poll::Pending => Got::Pending,
                            Poll::Ready(Ok(n)) => Got::Value(n as i64),
                            Poll::Ready(Err(e)) => Got::Value(-i64::from(e.raw_os_error().unwrap_or(0))),
                        }
                    }
                });
                let stop = !is_multi && g != Got::Pending || g == Got::End;
                events::push("MPollEnd", [i as u64, u64::from(g == Got::Pending), 0, 0, 0, 0]);
                got.lock().unwrap().push((i, g));
                if stop {
                    break;
                }
            }
        }));
    }
    let values: Vec<i32> = (0..results).map(|k| if p.multi { simk::FAKE_FD_BASE + 500 + k as i32 } else { 5 }).collect();
    {
        let ring = ring.clone();
        let values = values.clone();
        let is_multi = p.multi;
        let marks = marks.clone();
        bodies.push(Box::new(move || {
            for (k, v) in values.iter().enumerate() {
                sched::yield_now("kernel.complete");
                let more = is_multi && k + 1 < values.len();
                simk::kernel().complete(rfd, ud, *v, if more { simk::CQE_F_MORE } else { 0 });
                sched::note_progress();
                sched::yield_now("ring.poll");
                if let Some(r) = ring.lock().unwrap().as_mut() {
                    let _ = alloc::tracked(|| r.poll(Some(Duration::ZERO)));
                }
                // This completion makes the future ready if it is final or the operation is multishot.
                if is_multi || k + 1 == values.len() {
                    marks.lock().unwrap().push((k, wakers::counts()));
                }
            }
        }));
    }
    let exec = sched::execute(bodies, prefix, random, 0, 20_000);
    let mut problems = Vec::new();
    for (t, msg) in &exec.panics {
        problems.push(json!({"field": "panic", "expected": null, "observed": {"thread": t, "message": msg}}));
    }
    if exec.deadlock {
        problems.push(json!({"field": "deadlock", "expected": null, "observed": exec.stuck}));
    }
    let got = got.lock().unwrap().clone();
    // Results in order, each once.
    let handed: Vec<i64> = got.iter().filter_map(|(_, g)| if let Got::Value(v) = g { Some(*v) } else { None }).collect();
    let want: Vec<i64> = values.iter().take(handed.len()).map(|v| i64::from(*v)).collect();
    if handed != want {
        problems.push(json!({"field": "results handed to the future", "expected": want, "observed": handed}));
    }
    // C03: the waker given to the most recent poll is invoked no later than the Ring::poll that consumes
    // the completion making the future ready.  A poll in progress at that moment either stored its
    // waker in time (then it is the one invoked) or sees the result itself.
    if problems.is_empty() {
        let snapshots = marks.lock().unwrap().clone();
        let evs = events::take();
        // The k-th completion is handled by the k-th OpUpdate event (emitted under the operation's lock).
        let mut k = 0;
        for (pos, e) in evs.iter().enumerate() {
            if e.name != "OpUpdate" {
                continue;
            }
            let this = k;
            k += 1;
            let makes_ready = p.multi || this + 1 == values.len();
            let Some((_, counts)) = snapshots.iter().find(|(kk, _)| *kk == this) else { continue };
            if !makes_ready {
                continue;
            }
            let before = &evs[..pos];
            let Some((i, pending)) = before.iter().rev().find_map(|m| if m.name == "MPollEnd" { Some((m.f[0] as usize, m.f[1] == 1)) } else { None }) else { continue };
            if !pending {
                continue; // the future is not waiting: it has a result in hand or has finished
            }
            let woken = counts[i] > 0;
            let next_started = before.iter().any(|m| m.name == "MPollStart" && m.f[0] as usize == i + 1);
            let next_ok = next_started
                && (counts[i + 1] > 0 || evs.iter().any(|m| m.name == "MPollEnd" && m.f[0] as usize == i + 1 && m.f[1] == 0));
            if !woken && !next_ok {
                let story: Vec<String> = evs.iter().filter(|m| m.name.starts_with('M') || m.name == "OpUpdate").map(|m| format!("{}({},{})", m.name, m.f[0], m.f[1])).collect();
                problems.push(json!({"field": "Ring::poll processed a completion that makes the future ready, the future's most recent poll had returned Pending, and its waker was not invoked by the time Ring::poll returned",
                    "expected": "woken", "observed": {"completion": this, "most recent poll": i, "events": story, "wake counts": counts[..=p.polls].to_vec()}}));
                break;
            }
        }
    }
    if problems.is_empty() {
        drop(single.lock().unwrap().take());
        drop(multi.lock().unwrap().take());
        drop(unsafe { Box::from_raw(fd_ptr) });
        drop(ring.lock().unwrap().take());
    } else {
        std::mem::forget(single.lock().unwrap().take());
        std::mem::forget(multi.lock().unwrap().take());
        std::mem::forget(ring.lock().unwrap().take());
    }
    simk::forget_closed_rings();
    let _ = alloc::end();
    Outcome { exec, problems }
}

fn main() {
    let args: Vec<String> = std::env::args().collect();
    let mut p = Params { multi: false, polls: 2, results: 1 };
    let mut preemptions = 2usize;
    let mut max_exec = 200_000u64;
    let mut out_path = String::new();
    let mut replay_file = String::new();
    let mut i = 1;
    while i < args.len() {
        let v = args.get(i + 1).cloned().unwrap_or_default();
        match args[i].as_str() {
            "--kind" => p.multi = v == "multi",
            "--polls" => p.polls = v.parse().unwrap(),
            "--results" => p.results = v.parse().unwrap(),
            "--preemptions" => preemptions = v.parse().unwrap(),
            "--max-exec" => max_exec = v.parse().unwrap(),
            "--out" => out_path = v,
            "--replay-file" => replay_file = v,
            other => {
                eprintln!("unknown argument {other}");
                std::process::exit(2);
            }
        }
        i += 2;
    }
    if std::env::var_os("VERIF_PANIC_MSG").is_none() {
        std::panic::set_hook(Box::new(|_| {}));
    }
    simk::install();
    events::install();
    let mut out: Box<dyn std::io::Write> =
        if out_path.is_empty() { Box::new(std::io::stdout()) } else { Box::new(std::fs::File::create(&out_path).unwrap()) };
    let config = |p: &Params| json!({"kind": if p.multi { "multi" } else { "single" }, "polls": p.polls, "results": p.results});
    if !replay_file.is_empty() {
        let v: Value = serde_json::from_str(&std::fs::read_to_string(&replay_file).expect("replay file")).unwrap();
        let c = &v["config"];
        p = Params { multi: c["kind"] == "multi", polls: c["polls"].as_u64().unwrap() as usize, results: c["results"].as_u64().unwrap() as usize };
        let prefix: Vec<usize> = v["schedule"].as_array().map(|a| a.iter().filter_map(Value::as_u64).map(|x| x as usize).collect()).unwrap_or_default();
        let o = run_once(&p, prefix, None);
        for pr in &o.problems {
            writeln!(out, "{}", json!({"tag": "C03", "field": pr["field"], "expected": pr["expected"], "observed": pr["observed"]})).unwrap();
        }
        writeln!(out, "{}", json!({"summary": true, "paths": 1, "steps": o.exec.steps, "diverged_paths": usize::from(!o.problems.is_empty())})).unwrap();
        return;
    }
    let mut bad = 0u64;
    let mut steps = 0u64;
    let (executions, complete) = sched::explore(preemptions, max_exec, |prefix| {
        let o = run_once(&p, prefix, None);
        steps += o.exec.steps;
        if let Some(pr) = o.problems.first() {
            bad += 1;
            if bad <= 20 {
                let schedule: Vec<usize> = o.exec.trace.iter().map(|c| c.chosen).collect();
                let tag = if pr["field"].as_str().is_some_and(|f| f.starts_with("results handed")) { "C02" } else { "C03" };
                writeln!(out, "{}", json!({"path": bad, "step": 0, "tag": tag, "field": pr["field"], "expected": pr["expected"], "observed": pr["observed"],
                    "config": config(&p), "schedule": schedule, "model": "OpWakeMT",
                    "log": o.exec.log.iter().map(|(t, l)| format!("{t}:{l}")).collect::<Vec<_>>()})).unwrap();
            }
        }
        (o.exec.trace.clone(), true)
    });
    writeln!(out, "{}", json!({"summary": true, "paths": executions, "steps": steps, "diverged_paths": bad, "complete": complete,
        "config": config(&p), "preemption_bound": preemptions})).unwrap();
}

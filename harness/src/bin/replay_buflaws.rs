//! Replays the cases enumerated by `spec/BufLaws.tla` against every concrete
//! buffer type of a10 (`Buf`, `BufMut`, `BufSlice`, `BufMutSlice`, `LimitedBuf`).
//!
//! usage: replay_buflaws --cases FILE [--from N] [--to M] [--out FILE] [--progress FILE]

use std::borrow::Cow;
use std::future::Future;
use std::io::Write as _;
use std::pin::Pin;
use std::task::{Context, Poll};
use std::time::Duration;
use std::panic::{AssertUnwindSafe, catch_unwind};
use std::sync::Arc;

use a10::io::{Buf, BufMut, BufMutSlice, BufSlice, IoMutSlice, IoSlice, LimitedBuf, StaticBuf};
use a10_verif_harness::abi::Sqe;
use a10_verif_harness::{simk, wakers};
use serde_json::{Value, json};

#[derive(Clone, Copy, Debug)]
struct Spec1 {
    cap: usize,
    len: usize,
}

struct Expect {
    pair_lens: Vec<usize>,
    pair_offsets: Vec<usize>,
    visible: usize,
    lens_after: Vec<usize>,
    n: usize,
    limit: Option<usize>,
    lo_after: usize,
    hi: usize,
}

type Problems = Vec<Value>;

// ---- the view of the kernel: what an operation using the buffer puts into its
// submission (the crate-private `parts()` paths) must be what the public
// accessors promise.
struct Fixture {
    ring: a10::Ring,
    fd: &'static a10::AsyncFd,
    rfd: i32,
}

thread_local! {
    static FIXTURE: std::cell::RefCell<Option<Fixture>> = const { std::cell::RefCell::new(None) };
}

fn with_fixture<R>(f: impl FnOnce(&mut Fixture) -> R) -> R {
    FIXTURE.with(|c| {
        let mut c = c.borrow_mut();
        if c.is_none() {
            simk::install();
            let ring = a10::Ring::config().with_submission_queue_size(8).build().expect("ring");
            let rfd = *simk::kernel().rings.keys().next().unwrap();
            let fdn = simk::kernel().alloc_fd();
            let fd: &'static a10::AsyncFd = Box::leak(Box::new(unsafe { a10::AsyncFd::from_raw_fd(fdn, ring.sq()) }));
            *c = Some(Fixture { ring, fd, rfd });
        }
        f(c.as_mut().unwrap())
    })
}

/// Poll `fut` once, submit, and return the submission the kernel received.
fn submit_one<F: Future + Unpin>(fx: &mut Fixture, fut: &mut F) -> Option<Sqe> {
    let waker = wakers::waker(0);
    let mut ctx = Context::from_waker(&waker);
    if Pin::new(&mut *fut).poll(&mut ctx).is_ready() {
        return None;
    }
    fx.ring.poll(Some(Duration::ZERO)).ok()?;
    simk::kernel().rings.get(&fx.rfd).and_then(|r| r.inflight.last().map(|q| q.sqe))
}

/// Complete the operation with `res` and return the future's result.
fn finish_one<F: Future + Unpin>(fx: &mut Fixture, fut: &mut F, sqe: &Sqe, res: i32) -> Option<F::Output> {
    simk::kernel().complete(fx.rfd, sqe.user_data(), res, 0);
    fx.ring.poll(Some(Duration::ZERO)).ok()?;
    let waker = wakers::waker(0);
    let mut ctx = Context::from_waker(&waker);
    match Pin::new(&mut *fut).poll(&mut ctx) {
        Poll::Ready(out) => Some(out),
        Poll::Pending => None,
    }
}

/// `fd.read(buf)`: the kernel must be handed exactly the pair `parts_mut()` promises
/// and after `n` bytes the buffer must have grown by `n`.
fn kernel_view_read<B: BufMut + 'static>(name: &str, b: B, base: usize, s: Spec1, e: &Expect, inner_len: impl FnOnce(B) -> usize, out: &mut Problems) {
    with_fixture(|fx| {
        let mut fut = fx.fd.read(b);
        let Some(sqe) = submit_one(fx, &mut fut) else {
            out.push(json!({"field": format!("{name}: read operation did not reach the kernel"), "expected": "pending", "observed": "ready"}));
            return;
        };
        if sqe.len() as usize != e.pair_lens[0] {
            out.push(json!({"field": format!("{name}: length handed to the kernel by read"), "expected": e.pair_lens[0], "observed": sqe.len()}));
        }
        if e.pair_lens[0] != 0 && s.cap != 0 && sqe.addr() as usize != base + e.pair_offsets[0] {
            out.push(json!({"field": format!("{name}: address handed to the kernel by read"), "expected": e.pair_offsets[0], "observed": (sqe.addr() as usize).wrapping_sub(base)}));
        }
        let n = e.n.min(sqe.len() as usize).min(s.cap.saturating_sub(s.len));
        for i in 0..n {
            unsafe { (sqe.addr() as *mut u8).add(i).write(b'k') };
        }
        match finish_one(fx, &mut fut, &sqe, n as i32) {
            Some(Ok(b)) => {
                let got = inner_len(b);
                if got != s.len + n {
                    out.push(json!({"field": format!("{name}: length after a read of {n} bytes"), "expected": s.len + n, "observed": got}));
                }
            }
            other => out.push(json!({"field": format!("{name}: read result"), "expected": "Ok", "observed": format!("{:?}", other.map(|r| r.map(|_| ())))})),
        }
    });
}

/// `fd.write(buf)`: the kernel must be handed exactly the pair `parts()` promises.
fn kernel_view_write<B: Buf + 'static>(name: &str, b: B, base: usize, e: &Expect, out: &mut Problems) {
    with_fixture(|fx| {
        let mut fut = fx.fd.write(b);
        let Some(sqe) = submit_one(fx, &mut fut) else {
            out.push(json!({"field": format!("{name}: write operation did not reach the kernel"), "expected": "pending", "observed": "ready"}));
            return;
        };
        if sqe.len() as usize != e.pair_lens[0] {
            out.push(json!({"field": format!("{name}: length handed to the kernel by write"), "expected": e.pair_lens[0], "observed": sqe.len()}));
        }
        if e.pair_lens[0] != 0 && sqe.addr() as usize != base + e.pair_offsets[0] {
            out.push(json!({"field": format!("{name}: address handed to the kernel by write"), "expected": e.pair_offsets[0], "observed": (sqe.addr() as usize).wrapping_sub(base)}));
        }
        let n = sqe.len() as i32;
        match finish_one(fx, &mut fut, &sqe, n) {
            Some(Ok(got)) if got == n as usize => {}
            other => out.push(json!({"field": format!("{name}: write result"), "expected": n, "observed": format!("{other:?}")})),
        }
    });
}

fn iovecs_at(addr: u64, n: usize) -> Vec<(usize, usize)> {
    (0..n).map(|i| unsafe { (addr as *const libc::iovec).add(i).read() }).map(|v| (v.iov_base as usize, v.iov_len)).collect()
}

fn kernel_view_readv<B: BufMutSlice<N> + 'static, const N: usize>(name: &str, b: B, bases: &[usize], caps: &[usize], e: &Expect, lens: impl FnOnce(B) -> Vec<usize>, out: &mut Problems) {
    with_fixture(|fx| {
        let mut fut = fx.fd.read_vectored(b);
        let Some(sqe) = submit_one(fx, &mut fut) else {
            out.push(json!({"field": format!("{name}: read_vectored did not reach the kernel"), "expected": "pending", "observed": "ready"}));
            return;
        };
        let pairs = iovecs_at(sqe.addr(), sqe.len() as usize);
        if sqe.len() as usize != N {
            out.push(json!({"field": format!("{name}: number of iovecs handed to the kernel"), "expected": N, "observed": sqe.len()}));
        } else {
            check_pairs(&format!("{name} (as seen by the kernel, read_vectored)"), &pairs, bases, caps, e, out);
        }
        let mut left = e.n.min(pairs.iter().map(|p| p.1).sum());
        let n = left;
        for (ptr, len) in &pairs {
            let k = left.min(*len);
            for i in 0..k {
                unsafe { (*ptr as *mut u8).add(i).write(b'k') };
            }
            left -= k;
        }
        match finish_one(fx, &mut fut, &sqe, n as i32) {
            Some(Ok(b)) => {
                let got = lens(b);
                if n == e.n && got != e.lens_after {
                    out.push(json!({"field": format!("{name}: lengths after a vectored read of {n} bytes"), "expected": e.lens_after, "observed": got}));
                }
            }
            other => out.push(json!({"field": format!("{name}: read_vectored result"), "expected": "Ok", "observed": format!("{:?}", other.map(|r| r.map(|_| ())))})),
        }
    });
}

fn kernel_view_writev<B: BufSlice<N> + 'static, const N: usize>(name: &str, b: B, bases: &[usize], caps: &[usize], e: &Expect, out: &mut Problems) {
    with_fixture(|fx| {
        let mut fut = fx.fd.write_vectored(b);
        let Some(sqe) = submit_one(fx, &mut fut) else {
            out.push(json!({"field": format!("{name}: write_vectored did not reach the kernel"), "expected": "pending", "observed": "ready"}));
            return;
        };
        let pairs = iovecs_at(sqe.addr(), sqe.len() as usize);
        if sqe.len() as usize != N {
            out.push(json!({"field": format!("{name}: number of iovecs handed to the kernel"), "expected": N, "observed": sqe.len()}));
        } else {
            check_pairs(&format!("{name} (as seen by the kernel, write_vectored)"), &pairs, bases, caps, e, out);
        }
        let n: usize = pairs.iter().map(|p| p.1).sum();
        match finish_one(fx, &mut fut, &sqe, n as i32) {
            Some(Ok(got)) if got == n => {}
            other => out.push(json!({"field": format!("{name}: write_vectored result"), "expected": n, "observed": format!("{other:?}")})),
        }
    });
}

fn iovecs_of<T, const N: usize>(v: [T; N]) -> Vec<(usize, usize)> {
    // IoSlice / IoMutSlice wrap a `libc::iovec`.
    assert_eq!(std::mem::size_of::<T>(), std::mem::size_of::<libc::iovec>());
    let raw: [libc::iovec; N] = unsafe { std::mem::transmute_copy(&std::mem::ManuallyDrop::new(v)) };
    raw.iter().map(|i| (i.iov_base as usize, i.iov_len)).collect()
}

/// Laws of a read-only buffer whose bytes live at `base..base+len`.
fn check_buf<B: Buf>(name: &str, b: B, base: usize, e: &Expect, out: &mut Problems) {
    let (ptr, plen) = unsafe { b.parts() };
    let want_len = e.pair_lens[0];
    if plen as usize != want_len {
        out.push(json!({"field": format!("{name}: parts() length"), "expected": want_len, "observed": plen}));
    }
    if want_len != 0 && ptr as usize != base + e.pair_offsets[0] {
        out.push(json!({"field": format!("{name}: parts() pointer"), "expected": "start of the buffer", "observed": (ptr as usize).wrapping_sub(base)}));
    }
    if b.len() != e.visible {
        out.push(json!({"field": format!("{name}: len()"), "expected": e.visible, "observed": b.len()}));
    }
    if b.is_empty() != (e.visible == 0) {
        out.push(json!({"field": format!("{name}: is_empty()"), "expected": e.visible == 0, "observed": b.is_empty()}));
    }
    if b.as_slice().len() != e.visible {
        out.push(json!({"field": format!("{name}: as_slice().len()"), "expected": e.visible, "observed": b.as_slice().len()}));
    }
}

fn with_limit_buf<B: Buf>(name: &str, b: B, base: usize, e: &Expect, out: &mut Problems) {
    match e.limit {
        None => check_buf(name, b, base, e, out),
        Some(l) => check_buf(&format!("LimitedBuf<{name}>"), LimitedBuf::new(b, l), base, e, out),
    }
}

fn bytes(len: usize) -> Vec<u8> {
    (0..len).map(|i| b'a' + (i % 26) as u8).collect()
}

fn leak_bytes(len: usize) -> &'static [u8] {
    Box::leak(bytes(len).into_boxed_slice())
}

fn leak_str(len: usize) -> &'static str {
    Box::leak(String::from_utf8(bytes(len)).unwrap().into_boxed_str())
}

fn run_buf(s: Spec1, e: &Expect, out: &mut Problems) {
    let mut v = Vec::with_capacity(s.cap);
    v.extend_from_slice(&bytes(s.len));
    let p = v.as_ptr() as usize;
    with_limit_buf("Vec<u8>", v, p, e, out);
    // What a write operation hands to the kernel.
    let mut v = Vec::with_capacity(s.cap);
    v.extend_from_slice(&bytes(s.len));
    let p = v.as_ptr() as usize;
    match e.limit {
        None => kernel_view_write("Vec<u8>", v, p, e, out),
        Some(l) => kernel_view_write("LimitedBuf<Vec<u8>>", LimitedBuf::new(v, l), p, e, out),
    }
    let sl = leak_bytes(s.len);
    match e.limit {
        None => kernel_view_write("&'static [u8]", sl, sl.as_ptr() as usize, e, out),
        Some(l) => kernel_view_write("LimitedBuf<&'static [u8]>", LimitedBuf::new(sl, l), sl.as_ptr() as usize, e, out),
    }
    let b: Box<[u8]> = bytes(s.len).into_boxed_slice();
    let p = b.as_ptr() as usize;
    with_limit_buf("Box<[u8]>", b, p, e, out);
    let st = String::from_utf8(bytes(s.len)).unwrap();
    let p = st.as_ptr() as usize;
    with_limit_buf("String", st, p, e, out);
    let bs: Box<str> = String::from_utf8(bytes(s.len)).unwrap().into_boxed_str();
    let p = bs.as_ptr() as usize;
    with_limit_buf("Box<str>", bs, p, e, out);
    let a: Arc<[u8]> = Arc::from(bytes(s.len));
    let p = a.as_ptr() as usize;
    with_limit_buf("Arc<[u8]>", a, p, e, out);
    let a: Arc<str> = Arc::from(String::from_utf8(bytes(s.len)).unwrap());
    let p = a.as_ptr() as usize;
    with_limit_buf("Arc<str>", a, p, e, out);
    let sl = leak_bytes(s.len);
    with_limit_buf("&'static [u8]", sl, sl.as_ptr() as usize, e, out);
    let ss = leak_str(s.len);
    with_limit_buf("&'static str", ss, ss.as_ptr() as usize, e, out);
    with_limit_buf("StaticBuf", StaticBuf::from(sl), sl.as_ptr() as usize, e, out);
    with_limit_buf("StaticBuf(str)", StaticBuf::from(ss), ss.as_ptr() as usize, e, out);
    let c: Cow<'static, [u8]> = Cow::Borrowed(sl);
    with_limit_buf("Cow<[u8]>::Borrowed", c, sl.as_ptr() as usize, e, out);
    let c: Cow<'static, [u8]> = Cow::Owned(bytes(s.len));
    let p = c.as_ptr() as usize;
    with_limit_buf("Cow<[u8]>::Owned", c, p, e, out);
    let c: Cow<'static, str> = Cow::Borrowed(ss);
    with_limit_buf("Cow<str>::Borrowed", c, ss.as_ptr() as usize, e, out);
    let c: Cow<'static, str> = Cow::Owned(String::from_utf8(bytes(s.len)).unwrap());
    let p = c.as_ptr() as usize;
    with_limit_buf("Cow<str>::Owned", c, p, e, out);
}

fn vec_of(s: Spec1) -> Vec<u8> {
    let mut v = Vec::with_capacity(s.cap);
    v.extend_from_slice(&bytes(s.len));
    assert_eq!(v.capacity(), s.cap, "allocator gave a different capacity");
    v
}

fn check_bufmut<B: BufMut>(name: &str, mut b: B, base: usize, s: Spec1, e: &Expect, inner_len: impl FnOnce(B) -> usize, out: &mut Problems) {
    let (ptr, plen) = unsafe { b.parts_mut() };
    if plen as usize != e.pair_lens[0] {
        out.push(json!({"field": format!("{name}: parts_mut() length"), "expected": e.pair_lens[0], "observed": plen}));
    }
    if s.cap != 0 && ptr as usize != base + e.pair_offsets[0] {
        out.push(json!({"field": format!("{name}: parts_mut() pointer offset"), "expected": e.pair_offsets[0], "observed": (ptr as usize).wrapping_sub(base)}));
    }
    if (plen as usize) + e.pair_offsets[0] > s.cap {
        out.push(json!({"field": format!("{name}: pair outside the allocation"), "expected": s.cap, "observed": plen}));
    }
    if b.spare_capacity() as usize != e.visible {
        out.push(json!({"field": format!("{name}: spare_capacity()"), "expected": e.visible, "observed": b.spare_capacity()}));
    }
    if b.has_spare_capacity() != (e.visible > 0) {
        out.push(json!({"field": format!("{name}: has_spare_capacity()"), "expected": e.visible > 0, "observed": b.has_spare_capacity()}));
    }
    // Mark n bytes initialised (after writing them).
    if e.n <= plen as usize {
        unsafe {
            for i in 0..e.n {
                ptr.add(i).write(b'z');
            }
            b.set_init(e.n);
        }
        let left = s.cap - e.lens_after[0];
        let want = match e.limit {
            Some(_) if e.hi == 0 => left.min(e.lo_after),
            _ => left,
        };
        if b.spare_capacity() as usize != want {
            out.push(json!({"field": format!("{name}: spare_capacity() after set_init({})", e.n), "expected": want, "observed": b.spare_capacity()}));
        }
        let got = inner_len(b);
        if got != e.lens_after[0] {
            out.push(json!({"field": format!("{name}: length after set_init({})", e.n), "expected": e.lens_after[0], "observed": got}));
        }
    }
}

fn run_bufmut(s: Spec1, e: &Expect, out: &mut Problems) {
    let v = vec_of(s);
    let base = v.as_ptr() as usize;
    match e.limit {
        None => check_bufmut("Vec<u8>", v, base, s, e, |v| v.len(), out),
        Some(l) => {
            // LimitedBuf does not expose its inner buffer by reference: look at the
            // allocation through the visible spare capacity instead.
            let limited = LimitedBuf::new(v, l);
            check_bufmut("LimitedBuf<Vec<u8>>", limited, base, s, e, |b| b.into_inner().len(), out);
        }
    }
    // What a read operation hands to the kernel.
    let v = vec_of(s);
    let base = v.as_ptr() as usize;
    match e.limit {
        None => kernel_view_read("Vec<u8>", v, base, s, e, |v| v.len(), out),
        Some(l) => kernel_view_read("LimitedBuf<Vec<u8>>", LimitedBuf::new(v, l), base, s, e, |b| b.into_inner().len(), out),
    }
    // extend_from_slice copies min(k, visible) bytes.
    for k in 0..=(s.cap + 1) {
        let data = vec![b'q'; k];
        let want = k.min(e.visible);
        let got = match e.limit {
            None => {
                let mut v = vec_of(s);
                let r = BufMut::extend_from_slice(&mut v, &data);
                if v.len() != s.len + want {
                    out.push(json!({"field": "Vec<u8>: length after extend_from_slice", "expected": s.len + want, "observed": v.len()}));
                }
                r
            }
            Some(l) => {
                let mut b = LimitedBuf::new(vec_of(s), l);
                let r = BufMut::extend_from_slice(&mut b, &data);
                let inner = b.into_inner();
                if inner.len() != s.len + want {
                    out.push(json!({"field": "LimitedBuf<Vec<u8>>: length after extend_from_slice", "expected": s.len + want, "observed": inner.len()}));
                }
                r
            }
        };
        if got != want {
            out.push(json!({"field": "extend_from_slice return value", "expected": want, "observed": got, "k": k}));
        }
    }
}

fn check_pairs(name: &str, pairs: &[(usize, usize)], bases: &[usize], caps: &[usize], e: &Expect, out: &mut Problems) {
    let lens: Vec<usize> = pairs.iter().map(|p| p.1).collect();
    if lens != e.pair_lens {
        out.push(json!({"field": format!("{name}: iovec lengths"), "expected": e.pair_lens, "observed": lens}));
        return;
    }
    for (i, (ptr, len)) in pairs.iter().enumerate() {
        if *len != 0 && (*ptr != bases[i] + e.pair_offsets[i] || e.pair_offsets[i] + len > caps[i]) {
            out.push(json!({"field": format!("{name}: iovec {i} pointer"), "expected": e.pair_offsets[i], "observed": ptr.wrapping_sub(bases[i])}));
        }
    }
}

fn check_slice<B: BufSlice<N>, const N: usize>(name: &str, b: B, bases: &[usize], caps: &[usize], e: &Expect, out: &mut Problems) {
    let pairs = iovecs_of::<IoSlice, N>(unsafe { b.as_iovecs() });
    check_pairs(name, &pairs, bases, caps, e, out);
    if b.total_len() != e.visible {
        out.push(json!({"field": format!("{name}: total_len()"), "expected": e.visible, "observed": b.total_len()}));
    }
    if b.is_empty() != (e.visible == 0) {
        out.push(json!({"field": format!("{name}: is_empty()"), "expected": e.visible == 0, "observed": b.is_empty()}));
    }
}

fn check_mutslice<B: BufMutSlice<N>, const N: usize>(name: &str, mut b: B, bases: &[usize], caps: &[usize], e: &Expect, lens: impl FnOnce(B) -> Vec<usize>, out: &mut Problems) {
    let pairs = iovecs_of::<IoMutSlice, N>(unsafe { b.as_iovecs_mut() });
    check_pairs(name, &pairs, bases, caps, e, out);
    if b.total_spare_capacity() as usize != e.visible {
        out.push(json!({"field": format!("{name}: total_spare_capacity()"), "expected": e.visible, "observed": b.total_spare_capacity()}));
    }
    if b.has_spare_capacity() != (e.visible > 0) {
        out.push(json!({"field": format!("{name}: has_spare_capacity()"), "expected": e.visible > 0, "observed": b.has_spare_capacity()}));
    }
    // The kernel fills the exposed pairs front to back with n bytes.
    let mut left = e.n;
    for (ptr, len) in &pairs {
        let k = left.min(*len);
        for i in 0..k {
            unsafe { (*ptr as *mut u8).add(i).write(b'z') };
        }
        left -= k;
    }
    if left == 0 {
        unsafe { b.set_init(e.n) };
        let got = lens(b);
        if got != e.lens_after {
            out.push(json!({"field": format!("{name}: lengths after set_init({})", e.n), "expected": e.lens_after, "observed": got}));
        }
    }
}

macro_rules! slices {
    ($n:literal, $specs:expr, $e:expr, $out:expr) => {{
        let specs: &[Spec1] = $specs;
        let caps: Vec<usize> = specs.iter().map(|s| s.cap).collect();
        // read-only: arrays of Vec
        let arr: [Vec<u8>; $n] = std::array::from_fn(|i| vec_of(specs[i]));
        let bases: Vec<usize> = arr.iter().map(|v| v.as_ptr() as usize).collect();
        match $e.limit {
            None => check_slice::<_, $n>(concat!("[Vec<u8>; ", $n, "]"), arr, &bases, &caps, $e, $out),
            Some(l) => check_slice::<_, $n>(concat!("LimitedBuf<[Vec<u8>; ", $n, "]>"), LimitedBuf::new(arr, l), &bases, &caps, $e, $out),
        }
        let arr: [Vec<u8>; $n] = std::array::from_fn(|i| vec_of(specs[i]));
        let bases: Vec<usize> = arr.iter().map(|v| v.as_ptr() as usize).collect();
        match $e.limit {
            None => kernel_view_writev::<_, $n>(concat!("[Vec<u8>; ", $n, "]"), arr, &bases, &caps, $e, $out),
            Some(l) => kernel_view_writev::<_, $n>(concat!("LimitedBuf<[Vec<u8>; ", $n, "]>"), LimitedBuf::new(arr, l), &bases, &caps, $e, $out),
        }
    }};
}

macro_rules! mutslices {
    ($n:literal, $specs:expr, $e:expr, $out:expr) => {{
        let specs: &[Spec1] = $specs;
        let caps: Vec<usize> = specs.iter().map(|s| s.cap).collect();
        let arr: [Vec<u8>; $n] = std::array::from_fn(|i| vec_of(specs[i]));
        let bases: Vec<usize> = arr.iter().map(|v| v.as_ptr() as usize).collect();
        match $e.limit {
            None => check_mutslice::<_, $n>(concat!("[Vec<u8>; ", $n, "]"), arr, &bases, &caps, $e, |a| a.iter().map(Vec::len).collect(), $out),
            Some(l) => {
                check_mutslice::<_, $n>(concat!("LimitedBuf<[Vec<u8>; ", $n, "]>"), LimitedBuf::new(arr, l), &bases, &caps, $e, |b| b.into_inner().iter().map(Vec::len).collect(), $out)
            }
        }
        let arr: [Vec<u8>; $n] = std::array::from_fn(|i| vec_of(specs[i]));
        let bases: Vec<usize> = arr.iter().map(|v| v.as_ptr() as usize).collect();
        match $e.limit {
            None => kernel_view_readv::<_, $n>(concat!("[Vec<u8>; ", $n, "]"), arr, &bases, &caps, $e, |a| a.iter().map(Vec::len).collect(), $out),
            Some(l) => {
                kernel_view_readv::<_, $n>(concat!("LimitedBuf<[Vec<u8>; ", $n, "]>"), LimitedBuf::new(arr, l), &bases, &caps, $e, |b| b.into_inner().iter().map(Vec::len).collect(), $out)
            }
        }
    }};
}

fn run_case(case: &Value) -> Problems {
    let mut out = Vec::new();
    let specs: Vec<Spec1> = case["bufs"]
        .as_array()
        .map(|a| a.iter().map(|b| Spec1 { cap: b["cap"].as_u64().unwrap() as usize, len: b["len"].as_u64().unwrap() as usize }).collect())
        .unwrap_or_default();
    let us = |k: &str| -> Vec<usize> { case[k].as_array().map(|a| a.iter().filter_map(Value::as_u64).map(|x| x as usize).collect()).unwrap_or_default() };
    let hi = case["hi"].as_u64().unwrap_or(0) as usize;
    let lo = case["lo"].as_u64().unwrap_or(0) as usize;
    let e = Expect {
        pair_lens: us("pair_lens"),
        pair_offsets: us("pair_offsets"),
        visible: case["visible"].as_u64().unwrap_or(0) as usize,
        lens_after: us("lens_after"),
        n: case["n"].as_u64().unwrap_or(0) as usize,
        limit: if case["limited"].as_bool() == Some(true) { Some((hi << 32) | lo) } else { None },
        lo_after: case["lo_after"].as_u64().unwrap_or(0) as usize,
        hi,
    };
    match case["shape"].as_str().unwrap_or("") {
        "buf" => run_buf(specs[0], &e, &mut out),
        "bufmut" => run_bufmut(specs[0], &e, &mut out),
        "slice" => {
            match specs.len() {
                1 => slices!(1, &specs, &e, &mut out),
                2 => slices!(2, &specs, &e, &mut out),
                _ => slices!(3, &specs, &e, &mut out),
            }
            // Tuples of mixed buffer types.
            let caps: Vec<usize> = specs.iter().map(|s| s.len).collect();
            if specs.len() == 2 {
                let t = (vec_of(specs[0]), String::from_utf8(bytes(specs[1].len)).unwrap());
                let bases = vec![t.0.as_ptr() as usize, t.1.as_ptr() as usize];
                let caps = vec![specs[0].cap, caps[1]];
                match e.limit {
                    None => check_slice::<_, 2>("(Vec<u8>, String)", t, &bases, &caps, &e, &mut out),
                    Some(l) => check_slice::<_, 2>("LimitedBuf<(Vec<u8>, String)>", LimitedBuf::new(t, l), &bases, &caps, &e, &mut out),
                }
            } else if specs.len() == 3 {
                let t = (bytes(specs[0].len).into_boxed_slice(), vec_of(specs[1]), leak_bytes(specs[2].len));
                let bases = vec![t.0.as_ptr() as usize, t.1.as_ptr() as usize, t.2.as_ptr() as usize];
                let caps = vec![caps[0], specs[1].cap, caps[2]];
                match e.limit {
                    None => check_slice::<_, 3>("(Box<[u8]>, Vec<u8>, &'static [u8])", t, &bases, &caps, &e, &mut out),
                    Some(l) => check_slice::<_, 3>("LimitedBuf<(Box<[u8]>, Vec<u8>, &'static [u8])>", LimitedBuf::new(t, l), &bases, &caps, &e, &mut out),
                }
            }
        }
        "mutslice" => {
            match specs.len() {
                1 => mutslices!(1, &specs, &e, &mut out),
                2 => mutslices!(2, &specs, &e, &mut out),
                _ => mutslices!(3, &specs, &e, &mut out),
            }
            let caps: Vec<usize> = specs.iter().map(|s| s.cap).collect();
            if specs.len() == 2 {
                let t = (vec_of(specs[0]), vec_of(specs[1]));
                let bases = vec![t.0.as_ptr() as usize, t.1.as_ptr() as usize];
                match e.limit {
                    None => check_mutslice::<_, 2>("(Vec<u8>, Vec<u8>)", t, &bases, &caps, &e, |t| vec![t.0.len(), t.1.len()], &mut out),
                    Some(l) => {
                        check_mutslice::<_, 2>("LimitedBuf<(Vec<u8>, Vec<u8>)>", LimitedBuf::new(t, l), &bases, &caps, &e, |b| { let t = b.into_inner(); vec![t.0.len(), t.1.len()] }, &mut out);
                    }
                }
            } else if specs.len() == 3 {
                let t = (vec_of(specs[0]), vec_of(specs[1]), vec_of(specs[2]));
                let bases = vec![t.0.as_ptr() as usize, t.1.as_ptr() as usize, t.2.as_ptr() as usize];
                match e.limit {
                    None => check_mutslice::<_, 3>("(Vec<u8>, Vec<u8>, Vec<u8>)", t, &bases, &caps, &e, |t| vec![t.0.len(), t.1.len(), t.2.len()], &mut out),
                    Some(l) => {
                        check_mutslice::<_, 3>("LimitedBuf<(Vec<u8>, Vec<u8>, Vec<u8>)>", LimitedBuf::new(t, l), &bases, &caps, &e, |b| { let t = b.into_inner(); vec![t.0.len(), t.1.len(), t.2.len()] }, &mut out);
                    }
                }
            }
        }
        other => out.push(json!({"field": "unknown shape", "expected": other, "observed": null})),
    }
    out
}

fn main() {
    let args: Vec<String> = std::env::args().collect();
    let mut cases_path = String::new();
    let (mut from, mut to) = (0usize, usize::MAX);
    let mut out_path = String::new();
    let mut progress_path = String::new();
    let mut i = 1;
    while i < args.len() {
        let v = args.get(i + 1).cloned().unwrap_or_default();
        match args[i].as_str() {
            "--cases" | "--replay-file" => cases_path = v,
            "--from" => from = v.parse().unwrap(),
            "--to" => to = v.parse().unwrap(),
            "--out" => out_path = v,
            "--progress" => progress_path = v,
            other => {
                eprintln!("unknown argument {other}");
                std::process::exit(2);
            }
        }
        i += 2;
    }
    let text = std::fs::read_to_string(&cases_path).expect("cases file");
    let cases: Vec<Value> = text.lines().filter(|l| !l.trim().is_empty()).map(|l| serde_json::from_str(l).unwrap()).collect();
    let mut out: Box<dyn std::io::Write> =
        if out_path.is_empty() { Box::new(std::io::stdout()) } else { Box::new(std::fs::File::create(&out_path).unwrap()) };
    std::panic::set_hook(Box::new(|_| {}));
    let to = to.min(cases.len());
    let mut bad = 0;
    for (ci, case) in cases.iter().enumerate().take(to).skip(from) {
        if !progress_path.is_empty() && ci % 64 == 0 {
            let mut raw = Vec::new();
            raw.extend_from_slice(&(ci as u64).to_le_bytes());
            raw.extend_from_slice(&0u64.to_le_bytes());
            let _ = std::fs::write(&progress_path, raw);
        }
        let case = if case.get("case").is_some() { &case["case"] } else { case };
        let problems = match catch_unwind(AssertUnwindSafe(|| run_case(case))) {
            Ok(p) => p,
            Err(p) => vec![json!({"field": "panic", "expected": null, "observed": p.downcast_ref::<String>().cloned().or_else(|| p.downcast_ref::<&str>().map(|s| (*s).to_string()))})],
        };
        if let Some(mut d) = problems.into_iter().next() {
            bad += 1;
            d["path"] = json!(ci);
            d["step"] = json!(0);
            d["tag"] = json!("C14");
            d["case"] = case.clone();
            writeln!(out, "{d}").unwrap();
        }
    }
    if !progress_path.is_empty() {
        let mut raw = Vec::new();
        raw.extend_from_slice(&u64::MAX.to_le_bytes());
        raw.extend_from_slice(&0u64.to_le_bytes());
        let _ = std::fs::write(&progress_path, raw);
    }
    writeln!(out, "{}", json!({"summary": true, "paths": to.saturating_sub(from), "steps": to.saturating_sub(from), "diverged_paths": bad})).unwrap();
}

//! Replays the histories enumerated by `spec/Inotify.tla` against a real
//! `Watcher`/`Events` whose reads are answered by the simulated kernel.
//!
//! usage: replay_inotify --cases FILE [--from N] [--to M] [--out FILE] [--progress FILE]
#![allow(deprecated)]

use std::io::Write as _;
use std::os::unix::ffi::OsStrExt;
use std::panic::{AssertUnwindSafe, catch_unwind};
use std::path::PathBuf;
use std::pin::Pin;
use std::task::{Context, Poll};
use std::time::Duration;

use a10::fs::notify::{Event, Interest, Recursive, Watcher};
use a10_verif_harness::simk;
use a10_verif_harness::{alloc, events, wakers};
use serde_json::{Value, json};

const IN_MODIFY: u32 = 0x2;
const IN_CREATE: u32 = 0x100;
const IN_ISDIR: u32 = 0x4000_0000;
const IN_IGNORED: u32 = 0x8000;
const IN_Q_OVERFLOW: u32 = 0x4000;

fn name_of(n: usize) -> Vec<u8> {
    b"abcdefghijklmnopqrstuvwxyz".iter().cycle().take(n).copied().collect()
}

fn record_bytes(r: &Value) -> Vec<u8> {
    let wd = r["wd"].as_i64().unwrap_or(0) as i32;
    let n = r["n"].as_u64().unwrap_or(0) as usize;
    let pad = r["pad"].as_u64().unwrap_or(0) as usize;
    let mask = match r["kind"].as_str().unwrap_or("") {
        "plain" => IN_MODIFY,
        "isdir" => IN_CREATE | IN_ISDIR,
        "ignored" => IN_IGNORED,
        _ => IN_Q_OVERFLOW,
    };
    let mut out = Vec::new();
    out.extend_from_slice(&wd.to_ne_bytes());
    out.extend_from_slice(&mask.to_ne_bytes());
    out.extend_from_slice(&0u32.to_ne_bytes());
    out.extend_from_slice(&((n + pad) as u32).to_ne_bytes());
    out.extend_from_slice(&name_of(n));
    out.extend(std::iter::repeat_n(0u8, pad));
    out
}

struct Snapshot {
    modified: bool,
    created: bool,
    is_dir: bool,
    name: Vec<u8>,
}

fn snapshot(e: &Event) -> Snapshot {
    Snapshot { modified: e.modified(), created: e.file_created(), is_dir: e.is_dir(), name: e.file_path().as_os_str().as_bytes().to_vec() }
}

fn same(a: &Snapshot, b: &Snapshot) -> bool {
    a.modified == b.modified && a.created == b.created && a.is_dir == b.is_dir && a.name == b.name
}

struct World {
    ring: a10::Ring,
    rfd: i32,
    watcher: Watcher,
}

impl World {
    fn new() -> World {
        simk::reset();
        let ring = a10::Ring::config().with_submission_queue_size(4).build().expect("ring");
        let rfd = *simk::kernel().rings.keys().next().unwrap();
        // One inotify instance for the whole run (closing one is slow).
        let watcher = Watcher::new(ring.sq()).expect("inotify instance");
        World { ring, rfd, watcher }
    }
}

fn run_case(case: &Value, dirs: &[PathBuf; 2], world: &mut World) -> Option<Value> {
    events::clear();
    alloc::begin();
    let World { ring, rfd, watcher } = world;
    let rfd = *rfd;
    // wd 1 and wd 2 (re-adding an existing watch returns the same descriptor
    // and puts it back into the table if an earlier history removed it).
    watcher.watch_directory(dirs[0].clone(), Interest::ALL, Recursive::No).expect("watch");
    watcher.watch_directory(dirs[1].clone(), Interest::ALL, Recursive::No).expect("watch");
    let recs = case["recs"].as_array().cloned().unwrap_or_default();
    let mut cuts: Vec<usize> = case["cuts"].as_array().map(|a| a.iter().filter_map(Value::as_u64).map(|x| x as usize).collect()).unwrap_or_default();
    let fin = case["final"].as_str().unwrap_or("eof");
    let retain = case["retain"].as_bool().unwrap_or(false);
    let expected = case["yields"].as_array().cloned().unwrap_or_default();
    let waker = wakers::waker(0);
    let mut ctx = Context::from_waker(&waker);
    let mut result: Option<Value> = None;
    let mut held: Vec<(&Event, Snapshot)> = Vec::new();
    let mut changed = 0usize;
    let mut yielded = 0usize;
    {
        let mut evs = Box::pin(watcher.events());
        let mut batch = 0usize;
        let mut next_rec = 0usize;
        'outer: for _round in 0..64 {
            let polled = catch_unwind(AssertUnwindSafe(|| alloc::tracked(|| Pin::as_mut(&mut evs).poll_next(&mut ctx))));
            let polled = match polled {
                Ok(p) => p,
                Err(_) => {
                    result = Some(json!({"field": "poll_next panicked", "expected": null, "observed": yielded}));
                    break;
                }
            };
            // Retained events must be unchanged after every later poll.
            for (e, snap) in &held {
                if !same(&snapshot(e), snap) {
                    changed += 1;
                }
            }
            match polled {
                Poll::Ready(None) => {
                    if expected.len() != yielded || fin == "quiet" {
                        result = Some(json!({"field": "end of stream", "expected": {"events": expected.len(), "final": fin}, "observed": {"events": yielded}}));
                    }
                    break;
                }
                Poll::Ready(Some(Err(err))) => {
                    let want_err = expected.get(yielded).is_some_and(|y| y["kind"] == "error");
                    if !want_err {
                        result = Some(json!({"field": "unexpected error", "expected": expected.get(yielded), "observed": err.to_string()}));
                        break;
                    }
                    yielded += 1;
                }
                Poll::Ready(Some(Ok(event))) => {
                    let Some(want) = expected.get(yielded) else {
                        result = Some(json!({"field": "extra event", "expected": null, "observed": format!("{event:?}")}));
                        break;
                    };
                    let snap = snapshot(event);
                    let n = want["n"].as_u64().unwrap_or(0) as usize;
                    let kind_ok = match want["kind"].as_str().unwrap_or("") {
                        "plain" => snap.modified && !snap.is_dir && !snap.created,
                        "isdir" => snap.created && snap.is_dir,
                        _ => false,
                    };
                    let wd = want["wd"].as_i64().unwrap_or(0);
                    let full = evs.path_for(event).into_owned();
                    let want_full: PathBuf = if want["known"].as_bool() == Some(true) {
                        let dir = &dirs[(wd - 1) as usize];
                        if n == 0 { dir.clone() } else { dir.join(std::ffi::OsStr::from_bytes(&name_of(n))) }
                    } else {
                        PathBuf::from(std::ffi::OsStr::from_bytes(&name_of(n)))
                    };
                    if !kind_ok || snap.name != name_of(n) || full != want_full {
                        result = Some(json!({"field": format!("event {yielded}"), "expected": {"event": want, "path": want_full},
                            "observed": {"debug": format!("{event:?}"), "name": snap.name, "path": full}}));
                        break;
                    }
                    yielded += 1;
                    if retain {
                        held.push((event, snap));
                    }
                }
                Poll::Pending => {
                    if let Err(e) = ring.poll(Some(Duration::ZERO)) {
                        result = Some(json!({"field": "Ring::poll", "expected": "ok", "observed": e.to_string()}));
                        break;
                    }
                    let req = simk::kernel().rings[&rfd].inflight.first().cloned();
                    let Some(req) = req else {
                        result = Some(json!({"field": "no read in flight while pending", "expected": "READ", "observed": null}));
                        break;
                    };
                    let (addr, len, ud) = (req.sqe.addr() as usize, req.sqe.len() as usize, req.sqe.user_data());
                    if batch < cuts.len() {
                        // The kernel returns as many whole records as fit into the buffer; what does
                        // not fit is returned by the next read.
                        let mut bytes = Vec::new();
                        let mut taken = 0;
                        for r in &recs[next_rec..next_rec + cuts[batch]] {
                            let rb = record_bytes(r);
                            if bytes.len() + rb.len() > len {
                                break;
                            }
                            bytes.extend_from_slice(&rb);
                            taken += 1;
                        }
                        if taken == 0 {
                            result = Some(json!({"field": "read buffer too small for a single record", "expected": record_bytes(&recs[next_rec]).len(), "observed": len}));
                            break 'outer;
                        }
                        next_rec += taken;
                        if taken == cuts[batch] {
                            batch += 1;
                        } else {
                            cuts[batch] -= taken;
                        }
                        unsafe { (addr as *mut u8).copy_from_nonoverlapping(bytes.as_ptr(), bytes.len()) };
                        // Bytes after the records are not the kernel's: poison them.
                        unsafe { (addr as *mut u8).add(bytes.len()).write_bytes(0xAB, len - bytes.len()) };
                        simk::kernel().complete(rfd, ud, bytes.len() as i32, 0);
                    } else {
                        match fin {
                            "eof" => {
                                simk::kernel().complete(rfd, ud, 0, 0);
                            }
                            "error" => {
                                simk::kernel().complete(rfd, ud, -5, 0);
                            }
                            _ => {
                                // Nothing more for now.
                                if expected.len() != yielded {
                                    result = Some(json!({"field": "events yielded before going quiet", "expected": expected.len(), "observed": yielded}));
                                }
                                break;
                            }
                        }
                    }
                    if let Err(e) = ring.poll(Some(Duration::ZERO)) {
                        result = Some(json!({"field": "Ring::poll", "expected": "ok", "observed": e.to_string()}));
                        break;
                    }
                }
            }
        }
        // The watch table after the history.
        drop(evs);
    }
    // Retained events after the iterator is gone.
    for (e, snap) in &held {
        if !same(&snapshot(e), snap) {
            changed += 1;
        }
    }
    if result.is_none() && changed > 0 && case["held_invalid"].as_bool() != Some(true) {
        result = Some(json!({"field": "an event still held by the consumer changed", "expected": "unchanged", "observed": changed}));
    }
    drop(held);
    // The read left in flight by a dropped iterator is cancelled; let it finish.
    let _ = ring.poll(Some(Duration::ZERO));
    let pending: Vec<u64> = simk::kernel().rings[&rfd].inflight.iter().map(|r| r.sqe.user_data()).collect();
    for ud in pending {
        simk::kernel().complete(rfd, ud, -simk::ECANCELED, 0);
    }
    let _ = ring.poll(Some(Duration::ZERO));
    let (_leaks, incidents) = alloc::end();
    if result.is_none() {
        if let Some(inc) = incidents.first() {
            result = Some(json!({"field": "allocator incident", "expected": null, "observed": format!("{inc:?}")}));
        }
    }
    result.map(|mut r| {
        r["changed_retained_events"] = json!(changed);
        r
    })
}

fn main() {
    let args: Vec<String> = std::env::args().collect();
    let mut cases_path = String::new();
    let (mut from, mut to) = (0usize, usize::MAX);
    let mut out_path = String::new();
    let mut progress_path = String::new();
    let mut i = 1;
    while i < args.len() {
        let v = args.get(i + 1).cloned().unwrap_or_default();
        match args[i].as_str() {
            "--cases" | "--replay-file" => cases_path = v,
            "--from" => from = v.parse().unwrap(),
            "--to" => to = v.parse().unwrap(),
            "--out" => out_path = v,
            "--progress" => progress_path = v,
            other => {
                eprintln!("unknown argument {other}");
                std::process::exit(2);
            }
        }
        i += 2;
    }
    let text = std::fs::read_to_string(&cases_path).expect("cases file");
    let cases: Vec<Value> = text.lines().filter(|l| !l.trim().is_empty()).map(|l| serde_json::from_str(l).unwrap()).collect();
    let mut out: Box<dyn std::io::Write> =
        if out_path.is_empty() { Box::new(std::io::stdout()) } else { Box::new(std::fs::File::create(&out_path).unwrap()) };
    std::panic::set_hook(Box::new(|_| {}));
    simk::install();
    events::install();
    let base = std::env::temp_dir().join(format!("a10-verif-inotify-{}", std::process::id()));
    let dirs = [base.join("dir_one"), base.join("dir_two")];
    for d in &dirs {
        std::fs::create_dir_all(d).expect("temp dir");
    }
    let to = to.min(cases.len());
    let mut bad = 0;
    let mut steps = 0;
    let mut world = World::new();
    for (ci, case) in cases.iter().enumerate().take(to).skip(from) {
        if !progress_path.is_empty() && ci % 16 == 0 {
            let mut raw = Vec::new();
            raw.extend_from_slice(&(ci as u64).to_le_bytes());
            raw.extend_from_slice(&0u64.to_le_bytes());
            let _ = std::fs::write(&progress_path, raw);
        }
        let case = if case.get("case").is_some() { &case["case"] } else { case };
        steps += case["recs"].as_array().map_or(0, Vec::len);
        if let Some(mut d) = run_case(case, &dirs, &mut world) {
            bad += 1;
            d["path"] = json!(ci);
            d["step"] = json!(0);
            d["tag"] = json!("C17");
            d["case"] = case.clone();
            writeln!(out, "{d}").unwrap();
        }
    }
    let _ = std::fs::remove_dir_all(&base);
    if !progress_path.is_empty() {
        let mut raw = Vec::new();
        raw.extend_from_slice(&u64::MAX.to_le_bytes());
        raw.extend_from_slice(&0u64.to_le_bytes());
        let _ = std::fs::write(&progress_path, raw);
    }
    writeln!(out, "{}", json!({"summary": true, "paths": to.saturating_sub(from), "steps": steps, "diverged_paths": bad})).unwrap();
}

//! C05: Ring::poll against a kernel that publishes completions (and re-uses
//! released slots) concurrently, under the baton scheduler.
//!
//! One logical thread calls `Ring::poll` repeatedly; a logical kernel thread
//! publishes a scripted mix of operation and bookkeeping completions, one per
//! turn, scribbling over every slot the published head has released.  Every
//! schedule with at most P preemptions is executed; afterwards the entries a10
//! read (`CqEntry` events) are compared with what the kernel published.
//!
//! usage: sched_cq --cqn N --cq-init X --preemptions P [--max-exec K] [--random R] [--out FILE] [--replay-file FILE]

use std::future::Future;
use std::io::Write as _;
use std::sync::{Arc, Mutex};
use std::task::{Context, Poll};
use std::time::Duration;

use a10_verif_harness::sched::{self, Body};
use a10_verif_harness::simk::{self, Cqe};
use a10_verif_harness::{alloc, events, wakers};
use serde_json::{Value, json};

#[derive(Clone)]
struct Params {
    cqn: u32,
    cq_init: u32,
}

struct Outcome {
    trace: Vec<sched::ChoicePoint>,
    steps: u64,
    log: Vec<(usize, &'static str)>,
    problems: Vec<Value>,
}

fn run_once(p: &Params, prefix: Vec<usize>, random: Option<u64>) -> Outcome {
    simk::reset();
    wakers::reset();
    events::clear();
    simk::kernel().plan.cq_init = p.cq_init;
    alloc::begin();
    let mut ring = a10::Ring::config().with_submission_queue_size(2).with_completion_queue_size(p.cqn).build().expect("ring");
    let rfd = *simk::kernel().rings.keys().next().unwrap();
    let fdn = simk::kernel().alloc_fd();
    let fd_ptr = Box::into_raw(Box::new(unsafe { a10::AsyncFd::from_raw_fd(fdn, ring.sq()) }));
    let fd: &'static a10::AsyncFd = unsafe { &*fd_ptr };
    // Two operations in flight.
    let waker = wakers::waker(0);
    let mut ctx = Context::from_waker(&waker);
    let mut a = Box::pin(fd.write(vec![1u8; 4]));
    let mut b = Box::pin(fd.write(vec![2u8; 4]));
    assert!(a.as_mut().poll(&mut ctx).is_pending());
    assert!(b.as_mut().poll(&mut ctx).is_pending());
    ring.poll(Some(Duration::ZERO)).expect("submit");
    let uds: Vec<u64> = simk::kernel().rings[&rfd].inflight.iter().map(|r| r.sqe.user_data()).collect();
    assert_eq!(uds.len(), 2);
    // The script: operation and bookkeeping completions mixed.
    let script: Vec<(Option<u64>, Cqe)> = vec![
        (Some(uds[0]), Cqe { user_data: uds[0], res: 111, flags: 0 }),
        (None, Cqe { user_data: 1, res: 0, flags: 0 }),                         // wake
        (None, Cqe { user_data: 2, res: -simk::ENOENT, flags: 0 }),            // cancel acknowledgement
        (None, Cqe { user_data: 0xDEAD_BEE0, res: 7, flags: simk::CQE_F_SKIP }), // padding entry
        (Some(uds[1]), Cqe { user_data: uds[1], res: 222, flags: 0 }),
        (None, Cqe { user_data: 3, res: -simk::EBADF, flags: 0 }),             // failed background close
        (None, Cqe { user_data: 0, res: 0, flags: 0 }),                         // no user data
    ];
    let total = script.len();
    simk::kernel().take_notes();
    events::clear();
    let ring = Arc::new(Mutex::new(Some(ring)));
    let poller_done = Arc::new(std::sync::atomic::AtomicBool::new(false));
    let mut bodies: Vec<Body> = Vec::new();
    // The poller.
    {
        let ring = ring.clone();
        let poller_done = poller_done.clone();
        bodies.push(Box::new(move || {
            struct Done(Arc<std::sync::atomic::AtomicBool>);
            impl Drop for Done {
                fn drop(&mut self) {
                    self.0.store(true, std::sync::atomic::Ordering::SeqCst);
                }
            }
            let _done = Done(poller_done);
            for _ in 0..(total * 3 + 4) {
                let processed = simk::kernel().rings.get(&rfd).map_or(0, |r| r.cq_head().wrapping_sub(r.cq_init) as usize);
                if processed >= total {
                    break;
                }
                let visible = simk::kernel().rings.get(&rfd).map_or(0, |r| r.cq_ready() as usize + r.backlog.len());
                if visible == 0 {
                    // Nothing to do until the kernel publishes something.
                    sched::yield_idle("poller.idle");
                    let still_nothing = simk::kernel().rings.get(&rfd).map_or(0, |r| r.cq_ready() as usize + r.backlog.len()) == 0;
                    if still_nothing {
                        continue;
                    }
                }
                if let Some(r) = ring.lock().unwrap().as_mut() {
                    let _ = alloc::tracked(|| r.poll(Some(Duration::ZERO)));
                }
            }
        }));
    }
    // The kernel.
    {
        let script = script.clone();
        let poller_done = poller_done.clone();
        bodies.push(Box::new(move || {
            for (op, cqe) in script {
                sched::yield_now("kernel.post");
                let mut k = simk::kernel();
                if let Some(r) = k.rings.get_mut(&rfd) {
                    r.scribble_released();
                }
                match op {
                    Some(ud) => {
                        k.complete(rfd, ud, cqe.res, cqe.flags);
                    }
                    None => k.post_raw(rfd, cqe),
                }
                drop(k);
                sched::note_progress();
            }
            // Keep re-using released slots while the poller finishes.
            for _ in 0..8 {
                if poller_done.load(std::sync::atomic::Ordering::SeqCst) {
                    break;
                }
                sched::yield_idle("kernel.scribble");
                let mut k = simk::kernel();
                if let Some(r) = k.rings.get_mut(&rfd) {
                    r.flush_backlog();
                    r.scribble_released();
                }
            }
        }));
    }
    let exec = sched::execute(bodies, prefix, random, 0, 20_000);
    // Let the poller's view catch up outside the schedule (flush what is left).
    let mut problems = Vec::new();
    if !exec.deadlock && exec.panics.is_empty() {
        if let Some(r) = ring.lock().unwrap().as_mut() {
            for _ in 0..4 {
                let _ = r.poll(Some(Duration::ZERO));
            }
        }
    }
    // ---- oracle: what a10 read must be exactly what was published, in order, once.
    let published: Vec<Cqe> = simk::kernel().rings.get(&rfd).map(|r| r.published.clone()).unwrap_or_default();
    let evs = events::take();
    let entries: Vec<&events::Ev> = evs.iter().filter(|e| e.name == "CqEntry").collect();
    for (i, e) in entries.iter().enumerate() {
        let head = e.f[1] as u32;
        let index = e.f[2] as u32;
        let got = Cqe { user_data: e.f[3], res: e.f[4] as u32 as i32, flags: e.f[5] as u32 };
        let want_head = p.cq_init.wrapping_add(i as u32);
        if head != want_head || index != (want_head & (p.cqn - 1)) {
            problems.push(json!({"field": "position of the entry read", "expected": {"head": want_head, "index": want_head & (p.cqn - 1)}, "observed": {"head": head, "index": index, "nth": i}}));
            break;
        }
        match published.get(i) {
            None => {
                problems.push(json!({"field": "read an entry the kernel has not published", "expected": null, "observed": format!("{got:?}")}));
                break;
            }
            Some(want) if *want != got => {
                problems.push(json!({"field": "entry read differs from the one published at that position", "expected": format!("{want:?}"), "observed": format!("{got:?}"), "nth": i}));
                break;
            }
            Some(_) => {}
        }
    }
    if problems.is_empty() && entries.len() != published.len() && !exec.deadlock {
        problems.push(json!({"field": "completions processed", "expected": published.len(), "observed": entries.len()}));
    }
    if problems.is_empty() && published.len() != total && !exec.deadlock {
        problems.push(json!({"field": "harness: completions published", "expected": total, "observed": published.len()}));
    }
    // Bookkeeping completions never reach an operation.
    for e in evs.iter().filter(|e| e.name == "OpUpdate") {
        if !uds.contains(&e.f[0]) {
            problems.push(json!({"field": "bookkeeping completion routed to an operation", "expected": null, "observed": e.f[0]}));
        }
    }
    for (t, msg) in &exec.panics {
        problems.push(json!({"field": "panic", "expected": null, "observed": {"thread": t, "message": msg}}));
    }
    if exec.deadlock {
        problems.push(json!({"field": "deadlock", "expected": null, "observed": exec.stuck}));
    }
    // The operations got their own results.
    if problems.is_empty() {
        let ra = a.as_mut().poll(&mut ctx);
        let rb = b.as_mut().poll(&mut ctx);
        if !matches!(ra, Poll::Ready(Ok(111))) || !matches!(rb, Poll::Ready(Ok(222))) {
            problems.push(json!({"field": "results delivered to the operations", "expected": [111, 222], "observed": format!("{ra:?} {rb:?}")}));
        }
    }
    if problems.is_empty() {
        drop(a);
        drop(b);
        drop(unsafe { Box::from_raw(fd_ptr) });
        drop(ring.lock().unwrap().take());
    } else {
        std::mem::forget(a);
        std::mem::forget(b);
        std::mem::forget(ring.lock().unwrap().take());
    }
    simk::forget_closed_rings();
    let _ = alloc::end();
    Outcome { trace: exec.trace, steps: exec.steps, log: exec.log, problems }
}

fn main() {
    let args: Vec<String> = std::env::args().collect();
    let mut p = Params { cqn: 2, cq_init: 0 };
    let mut preemptions = 2usize;
    let mut max_exec = 100_000u64;
    let mut out_path = String::new();
    let mut replay_file = String::new();
    let mut random_runs = 0u64;
    let mut seed = 1u64;
    let mut i = 1;
    while i < args.len() {
        let v = args.get(i + 1).cloned().unwrap_or_default();
        match args[i].as_str() {
            "--cqn" => p.cqn = v.parse().unwrap(),
            "--cq-init" => p.cq_init = v.parse().unwrap(),
            "--preemptions" => preemptions = v.parse().unwrap(),
            "--max-exec" => max_exec = v.parse().unwrap(),
            "--random" => random_runs = v.parse().unwrap(),
            "--seed" => seed = v.parse().unwrap(),
            "--out" => out_path = v,
            "--replay-file" => replay_file = v,
            other => {
                eprintln!("unknown argument {other}");
                std::process::exit(2);
            }
        }
        i += 2;
    }
    if std::env::var_os("VERIF_PANIC_MSG").is_none() {
        std::panic::set_hook(Box::new(|_| {}));
    }
    simk::install();
    events::install();
    let mut out: Box<dyn std::io::Write> =
        if out_path.is_empty() { Box::new(std::io::stdout()) } else { Box::new(std::fs::File::create(&out_path).unwrap()) };
    if !replay_file.is_empty() {
        let v: Value = serde_json::from_str(&std::fs::read_to_string(&replay_file).expect("replay file")).unwrap();
        p = Params { cqn: v["config"]["cqn"].as_u64().unwrap() as u32, cq_init: v["config"]["cq_init"].as_u64().unwrap() as u32 };
        let prefix: Vec<usize> = v["schedule"].as_array().map(|a| a.iter().filter_map(Value::as_u64).map(|x| x as usize).collect()).unwrap_or_default();
        let o = run_once(&p, prefix, None);
        for pr in &o.problems {
            writeln!(out, "{}", json!({"tag": "C05", "field": pr["field"], "expected": pr["expected"], "observed": pr["observed"]})).unwrap();
        }
        writeln!(out, "{}", json!({"summary": true, "paths": 1, "steps": o.steps, "diverged_paths": usize::from(!o.problems.is_empty())})).unwrap();
        return;
    }
    let mut bad = 0u64;
    let mut steps = 0u64;
    let mut record = |o: &Outcome, out: &mut Box<dyn std::io::Write>| {
        steps += o.steps;
        if let Some(pr) = o.problems.first() {
            bad += 1;
            if bad <= 20 {
                let schedule: Vec<usize> = o.trace.iter().map(|c| c.chosen).collect();
                writeln!(out, "{}", json!({"path": bad, "step": 0, "tag": "C05", "field": pr["field"], "expected": pr["expected"], "observed": pr["observed"],
                    "config": {"cqn": p.cqn, "cq_init": p.cq_init}, "schedule": schedule, "model": "CqSteps",
                    "log": o.log.iter().map(|(t, l)| format!("{t}:{l}")).collect::<Vec<_>>()})).unwrap();
            }
        }
    };
    let (executions, complete) = sched::explore(preemptions, max_exec, |prefix| {
        let o = run_once(&p, prefix, None);
        record(&o, &mut out);
        (o.trace.clone(), true)
    });
    let mut randoms = 0;
    for r in 0..random_runs {
        let o = run_once(&p, Vec::new(), Some(seed.wrapping_mul(0x9E37_79B9_7F4A_7C15).wrapping_add(r + 1) | 1));
        record(&o, &mut out);
        randoms += 1;
    }
    writeln!(out, "{}", json!({"summary": true, "paths": executions + randoms, "steps": steps, "diverged_paths": bad, "complete": complete,
        "config": {"cqn": p.cqn, "cq_init": p.cq_init}, "preemption_bound": preemptions})).unwrap();
}

//! Smoke test of the simulated kernel.
use std::future::Future;
use std::pin::pin;
use std::task::{Context, Poll};
use std::time::Duration;

use a10_verif_harness::{alloc, simk, wakers};

fn main() {
    simk::install();
    simk::kernel().plan.sq_init = 0;
    alloc::begin();
    let mut ring = alloc::tracked(|| a10::Ring::config().with_submission_queue_size(2).build()).expect("build");
    let sq = ring.sq();
    let rfd = *simk::kernel().rings.keys().next().unwrap();
    let fd = simk::kernel().alloc_fd();
    let afd = unsafe { a10::AsyncFd::from_raw_fd(fd, sq.clone()) };
    {
    let mut write = pin!(afd.write(b"hello".to_vec()));
    let waker = wakers::waker(0);
    let mut ctx = Context::from_waker(&waker);
    let r = alloc::tracked(|| write.as_mut().poll(&mut ctx));
    println!("poll1: {r:?} pending={}", simk::kernel().rings[&rfd].sq_pending());
    alloc::tracked(|| ring.poll(Some(Duration::ZERO))).expect("poll");
    println!("notes: {:?}", simk::kernel().take_notes());
    let ud = simk::kernel().rings[&rfd].inflight[0].sqe.user_data();
    simk::kernel().complete(rfd, ud, 5, 0);
    alloc::tracked(|| ring.poll(Some(Duration::ZERO))).expect("poll");
    println!("woken: {}", wakers::count(0));
    let r = alloc::tracked(|| write.as_mut().poll(&mut ctx));
    println!("poll2: {r:?}");
    assert!(matches!(r, Poll::Ready(Ok(5))));
    }
    drop(afd);
    alloc::tracked(|| drop(ring));
    drop(sq);
    println!("notes: {:?}", simk::kernel().take_notes());
    println!("gone: {:?}", simk::forget_closed_rings());
    let (leaks, incidents) = alloc::end();
    println!("leaks: {leaks:?} incidents: {incidents:?}");
}

//! Replays the cases enumerated by `spec/SockAddr.tla` against the
//! `SocketAddress` implementations of a10: the bytes/length handed to the
//! kernel, and the address decoded from what the kernel reports.
//!
//! usage: replay_sockaddr --cases FILE [--from N] [--to M] [--out FILE] [--progress FILE]

use std::io::Write as _;
use std::mem::MaybeUninit;
use std::net::{Ipv4Addr, Ipv6Addr, SocketAddr, SocketAddrV4, SocketAddrV6};
use std::os::linux::net::SocketAddrExt;
use std::os::unix::ffi::OsStrExt;
use std::os::unix::net::SocketAddr as UnixAddr;
use std::panic::{AssertUnwindSafe, catch_unwind};

use a10::net::SocketAddress;
use serde_json::{Value, json};

fn bytes_of(v: &Value) -> Vec<u8> {
    v.as_array().map(|a| a.iter().filter_map(Value::as_u64).map(|b| b as u8).collect()).unwrap_or_default()
}

/// Bytes and length `A` hands to the kernel for `addr`.
fn to_kernel<A: SocketAddress>(addr: A) -> (Vec<u8>, u32, usize) {
    let storage = addr.into_storage();
    let (ptr, len) = unsafe { A::as_ptr(&storage) };
    let size = std::mem::size_of::<A::Storage>();
    let inside = ptr as usize == std::ptr::from_ref(&storage) as usize;
    let n = (len as usize).min(size);
    let bytes = unsafe { std::slice::from_raw_parts(ptr.cast::<u8>(), n) }.to_vec();
    (bytes, len, if inside { size } else { 0 })
}

/// The address `A` decodes from `reported[..]` with the kernel-reported `len`.
fn from_kernel<A: SocketAddress>(reported: &[u8], len: u32) -> Result<A, String> {
    let mut storage = MaybeUninit::<A::Storage>::zeroed();
    let (ptr, cap) = unsafe { A::as_mut_ptr(&mut storage) };
    if ptr as usize != storage.as_mut_ptr() as usize {
        return Err("as_mut_ptr does not point at the storage".into());
    }
    if cap as usize != std::mem::size_of::<A::Storage>() {
        return Err(format!("as_mut_ptr length {cap} != size of the storage {}", std::mem::size_of::<A::Storage>()));
    }
    let n = reported.len().min(cap as usize);
    unsafe { ptr.cast::<u8>().copy_from_nonoverlapping(reported.as_ptr(), n) };
    catch_unwind(AssertUnwindSafe(|| unsafe { A::init(storage, len) })).map_err(|p| {
        p.downcast_ref::<String>().cloned().or_else(|| p.downcast_ref::<&str>().map(|s| (*s).to_string())).unwrap_or_else(|| "panic".into())
    })
}

fn describe_unix(a: &UnixAddr) -> Value {
    if let Some(p) = a.as_pathname() {
        json!({"kind": "path", "name": p.as_os_str().as_bytes()})
    } else if let Some(n) = a.as_abstract_name() {
        json!({"kind": "abstract", "name": n})
    } else {
        json!({"kind": "unnamed", "name": []})
    }
}

fn run_case(case: &Value) -> Vec<Value> {
    let mut out = Vec::new();
    let a = &case["addr"];
    let fam = a["fam"].as_str().unwrap_or("");
    let exp_bytes = bytes_of(&case["to_kernel"]);
    let exp_len = case["to_kernel_len"].as_u64().unwrap_or(0) as u32;
    let reported = bytes_of(&case["reported"]);
    let reported_len = case["reported_len"].as_u64().unwrap_or(0) as u32;
    let lawful: Vec<u32> = case["lawful_lens"].as_array().map(|a| a.iter().filter_map(Value::as_u64).map(|x| x as u32).collect()).unwrap_or_else(|| vec![exp_len]);
    let check_to = |got: (Vec<u8>, u32, usize), out: &mut Vec<Value>| {
        let n = exp_bytes.len().min(got.0.len());
        if got.2 == 0 {
            out.push(json!({"field": "as_ptr does not point at the storage", "expected": null, "observed": null}));
        } else if !lawful.contains(&got.1) || got.1 as usize > got.2 {
            out.push(json!({"field": "length passed to the kernel", "expected": lawful, "observed": got.1}));
        } else if got.0[..n] != exp_bytes[..n] || got.0[n..].iter().any(|b| *b != 0) {
            // The structure's bytes, zero padded if more than the exact length is passed.
            out.push(json!({"field": "bytes passed to the kernel", "expected": exp_bytes, "observed": got.0}));
        }
    };
    match fam {
        "v4" | "either4" => {
            let ip = bytes_of(&a["ip"]);
            let addr = SocketAddrV4::new(Ipv4Addr::new(ip[0], ip[1], ip[2], ip[3]), a["port"].as_u64().unwrap() as u16);
            if fam == "v4" {
                check_to(to_kernel(addr), &mut out);
                match from_kernel::<SocketAddrV4>(&reported, reported_len) {
                    Ok(got) if got == addr => {}
                    other => out.push(json!({"field": "address decoded from the kernel", "expected": addr.to_string(), "observed": format!("{other:?}")})),
                }
            } else {
                check_to(to_kernel(SocketAddr::V4(addr)), &mut out);
                match from_kernel::<SocketAddr>(&reported, reported_len) {
                    Ok(got) if got == SocketAddr::V4(addr) => {}
                    other => out.push(json!({"field": "address decoded from the kernel", "expected": addr.to_string(), "observed": format!("{other:?}")})),
                }
            }
        }
        "v6" | "either6" => {
            let mut oct = [0u8; 16];
            oct[0] = a["first"].as_u64().unwrap() as u8;
            oct[15] = a["last"].as_u64().unwrap() as u8;
            let addr = SocketAddrV6::new(Ipv6Addr::from(oct), a["port"].as_u64().unwrap() as u16, a["flow"].as_u64().unwrap() as u32, a["scope"].as_u64().unwrap() as u32);
            if fam == "v6" {
                check_to(to_kernel(addr), &mut out);
                match from_kernel::<SocketAddrV6>(&reported, reported_len) {
                    Ok(got) if got == addr => {}
                    other => out.push(json!({"field": "address decoded from the kernel", "expected": addr.to_string(), "observed": format!("{other:?}")})),
                }
            } else {
                check_to(to_kernel(SocketAddr::V6(addr)), &mut out);
                match from_kernel::<SocketAddr>(&reported, reported_len) {
                    Ok(got) if got == SocketAddr::V6(addr) => {}
                    other => out.push(json!({"field": "address decoded from the kernel", "expected": addr.to_string(), "observed": format!("{other:?}")})),
                }
            }
        }
        "unix_path" | "unix_abstract" | "unix_unnamed" => {
            let name = bytes_of(&case["name"]);
            let (addr, want) = match fam {
                "unix_path" => (UnixAddr::from_pathname(std::ffi::OsStr::from_bytes(&name)), json!({"kind": "path", "name": name})),
                "unix_abstract" => (UnixAddr::from_abstract_name(&name), json!({"kind": "abstract", "name": name})),
                _ => (UnixAddr::from_pathname(""), json!({"kind": "unnamed", "name": []})),
            };
            let addr = match addr {
                Ok(a) => a,
                Err(e) => {
                    // Not representable as a std address (e.g. a 108 byte path): nothing to check.
                    let _ = e;
                    return out;
                }
            };
            check_to(to_kernel(addr), &mut out);
            match from_kernel::<UnixAddr>(&reported, reported_len) {
                Ok(got) if describe_unix(&got) == want => {}
                Ok(got) => out.push(json!({"field": "address decoded from the kernel", "expected": want, "observed": describe_unix(&got)})),
                Err(e) => out.push(json!({"field": "address decoded from the kernel", "expected": want, "observed": e})),
            }
        }
        other => out.push(json!({"field": "unknown family", "expected": other, "observed": null})),
    }
    out
}

fn main() {
    let args: Vec<String> = std::env::args().collect();
    let mut cases_path = String::new();
    let (mut from, mut to) = (0usize, usize::MAX);
    let mut out_path = String::new();
    let mut progress_path = String::new();
    let mut i = 1;
    while i < args.len() {
        let v = args.get(i + 1).cloned().unwrap_or_default();
        match args[i].as_str() {
            "--cases" | "--replay-file" => cases_path = v,
            "--from" => from = v.parse().unwrap(),
            "--to" => to = v.parse().unwrap(),
            "--out" => out_path = v,
            "--progress" => progress_path = v,
            other => {
                eprintln!("unknown argument {other}");
                std::process::exit(2);
            }
        }
        i += 2;
    }
    let text = std::fs::read_to_string(&cases_path).expect("cases file");
    let cases: Vec<Value> = text.lines().filter(|l| !l.trim().is_empty()).map(|l| serde_json::from_str(l).unwrap()).collect();
    let mut out: Box<dyn std::io::Write> =
        if out_path.is_empty() { Box::new(std::io::stdout()) } else { Box::new(std::fs::File::create(&out_path).unwrap()) };
    std::panic::set_hook(Box::new(|_| {}));
    let to = to.min(cases.len());
    let mut bad = 0;
    for (ci, case) in cases.iter().enumerate().take(to).skip(from) {
        if !progress_path.is_empty() {
            let mut raw = Vec::new();
            raw.extend_from_slice(&(ci as u64).to_le_bytes());
            raw.extend_from_slice(&0u64.to_le_bytes());
            let _ = std::fs::write(&progress_path, raw);
        }
        let case = if case.get("case").is_some() { &case["case"] } else { case };
        let problems = match catch_unwind(AssertUnwindSafe(|| run_case(case))) {
            Ok(p) => p,
            Err(_) => vec![json!({"field": "panic", "expected": null, "observed": null})],
        };
        for (k, mut d) in problems.into_iter().enumerate() {
            if k == 0 {
                bad += 1;
            }
            d["path"] = json!(ci);
            d["step"] = json!(k);
            d["tag"] = json!("C16");
            d["case"] = case.clone();
            writeln!(out, "{d}").unwrap();
        }
    }
    if !progress_path.is_empty() {
        let mut raw = Vec::new();
        raw.extend_from_slice(&u64::MAX.to_le_bytes());
        raw.extend_from_slice(&0u64.to_le_bytes());
        let _ = std::fs::write(&progress_path, raw);
    }
    writeln!(out, "{}", json!({"summary": true, "paths": to.saturating_sub(from), "steps": to.saturating_sub(from), "diverged_paths": bad})).unwrap();
}

//! Replays the cases enumerated by `spec/Composite.tla` against the composite
//! I/O futures of a10 (write_all, send_all, read_n, recv_n and their vectored
//! variants) on the simulated kernel: the kernel answers every request with the
//! short count the case prescribes, and each request a10 issues is compared
//! with the one the specification expects.
//!
//! usage: replay_composite --cases FILE [--from N] [--to M] [--out FILE] [--progress FILE]

use std::future::Future;
use std::io::Write as _;
use std::panic::{AssertUnwindSafe, catch_unwind};
use std::pin::Pin;
use std::task::{Context, Poll};
use std::time::Duration;

use a10::Extract;
use a10::net::{RecvFlag, SendFlag};
use a10_verif_harness::simk;
use a10_verif_harness::{abi, alloc, events, wakers};
use serde_json::{Value, json};

fn panic_message(p: Box<dyn std::any::Any + Send>) -> String {
    if let Some(s) = p.downcast_ref::<&str>() {
        (*s).to_string()
    } else if let Some(s) = p.downcast_ref::<String>() {
        s.clone()
    } else {
        "panic".to_string()
    }
}

/// Byte at stream position `p`.
fn stream_byte(p: usize) -> u8 {
    (p as u8).wrapping_mul(7).wrapping_add(1)
}

#[derive(Clone, Debug)]
struct BufInfo {
    ptr: usize,
    len: usize,
    /// Stream position of the first byte of this buffer.
    start: usize,
}

struct Setup {
    ring: a10::Ring,
    rfd: i32,
    fd: *mut a10::AsyncFd,
}

#[derive(Debug)]
#[allow(dead_code)]
enum Outcome {
    Ok(Vec<Vec<u8>>),
    OkUnit,
    Err(std::io::ErrorKind, String),
    Stuck(String),
}

/// Drive `fut` to completion, answering each request with the next prescribed
/// count. Returns the requests observed.
#[allow(clippy::too_many_arguments)]
fn drive<F: Future>(
    setup: &mut Setup,
    mut fut: Pin<&mut F>,
    case: &Value,
    bufs: &mut Vec<BufInfo>,
    is_read: bool,
    zc: bool,
    map: impl Fn(F::Output) -> Outcome,
    observed: &mut Vec<Value>,
) -> Outcome {
    let answers: Vec<i64> = case["answers"].as_array().map(|a| a.iter().filter_map(Value::as_i64).collect()).unwrap_or_default();
    let waker = wakers::waker(0);
    let mut ctx = Context::from_waker(&waker);
    let mut next = 0usize;
    for _ in 0..64 {
        match alloc::tracked(|| fut.as_mut().poll(&mut ctx)) {
            Poll::Ready(out) => return map(out),
            Poll::Pending => {}
        }
        if let Err(e) = alloc::tracked(|| setup.ring.poll(Some(Duration::ZERO))) {
            return Outcome::Stuck(format!("Ring::poll: {e}"));
        }
        let req = {
            let k = simk::kernel();
            let ring = &k.rings[&setup.rfd];
            if ring.inflight.len() != 1 {
                return Outcome::Stuck(format!("{} requests in flight", ring.inflight.len()));
            }
            ring.inflight[0].clone()
        };
        // ---- what did a10 ask for?
        let mut pos: Option<usize> = None;
        let mut total = 0usize;
        let mut contiguous = true;
        let mut pieces = Vec::new();
        for (addr, len) in &req.decoded.data {
            if *len == 0 {
                continue;
            }
            let b = bufs.iter().find(|b| *addr >= b.ptr && addr + len <= b.ptr + b.len);
            match b {
                None => {
                    contiguous = false;
                    pieces.push(json!({"addr": addr, "len": len, "outside": true}));
                }
                Some(b) => {
                    let p = b.start + (addr - b.ptr);
                    if let Some(first) = pos {
                        if p != first + total {
                            contiguous = false;
                        }
                    } else {
                        pos = Some(p);
                    }
                    total += len;
                    pieces.push(json!({"pos": p, "len": len}));
                }
            }
        }
        let sqe = &req.sqe;
        let select = sqe.flags() & simk::SQE_BUFFER_SELECT != 0;
        let foff = if sqe.off() == u64::MAX { -1 } else { sqe.off() as i64 };
        let is_msg = matches!(sqe.opcode(), abi::OP_SENDMSG | abi::OP_SENDMSG_ZC | abi::OP_RECVMSG);
        let is_sock = is_msg || matches!(sqe.opcode(), abi::OP_SEND | abi::OP_SEND_ZC | abi::OP_RECV);
        observed.push(json!({
            "opcode": req.decoded.name,
            "pos": pos.unwrap_or(usize::MAX),
            "len": total,
            "contiguous": contiguous,
            "foff": if is_sock { -1 } else { foff },
            "flags": if is_sock { sqe.op_flags() } else { 0 },
            "zc": matches!(sqe.opcode(), abi::OP_SEND_ZC | abi::OP_SENDMSG_ZC),
            "select": select,
            "pieces": pieces,
        }));
        if next >= answers.len() {
            // More requests than the specification has answers for: stop here, the
            // comparison of the request lists reports it.
            let ud = sqe.user_data();
            simk::kernel().complete(setup.rfd, ud, -simk::ECANCELED, 0);
            return Outcome::Stuck("more requests than the specification allows".into());
        }
        let k = answers[next] as usize;
        next += 1;
        let mut cqe_flags = 0;
        if select {
            // The kernel picks a provided buffer and writes the bytes into it.
            let data: Vec<u8> = (0..k).map(stream_byte).collect();
            let group = sqe.buf_group();
            let before = simk::kernel().offered_buffers(setup.rfd, group);
            match simk::kernel().take_buffer(setup.rfd, group, &data) {
                Ok((f, _)) => {
                    cqe_flags = f;
                    if let (Some(b), Some((_, addr))) = (bufs.first_mut(), before.first()) {
                        b.ptr = *addr;
                    }
                }
                Err(e) => return Outcome::Stuck(format!("no provided buffer: {e}")),
            }
        } else if is_read {
            // The kernel writes the next k stream bytes into the pieces, in order.
            let mut left = k;
            let base = pos.unwrap_or(0);
            let mut written = 0;
            for (addr, len) in &req.decoded.data {
                let n = left.min(*len);
                for j in 0..n {
                    unsafe { (*addr as *mut u8).add(j).write(stream_byte(base + written + j)) };
                }
                written += n;
                left -= n;
                if left == 0 {
                    break;
                }
            }
        }
        let ud = sqe.user_data();
        if zc {
            simk::kernel().complete(setup.rfd, ud, k as i32, simk::CQE_F_MORE);
            simk::kernel().complete(setup.rfd, ud, 0, simk::CQE_F_NOTIF);
        } else {
            simk::kernel().complete(setup.rfd, ud, k as i32, cqe_flags);
        }
        if let Err(e) = alloc::tracked(|| setup.ring.poll(Some(Duration::ZERO))) {
            return Outcome::Stuck(format!("Ring::poll: {e}"));
        }
    }
    Outcome::Stuck("no result after 64 rounds".into())
}

fn write_bufs(lens: &[usize]) -> (Vec<Vec<u8>>, Vec<BufInfo>) {
    let mut bufs = Vec::new();
    let mut infos = Vec::new();
    let mut start = 0;
    for len in lens {
        // Keep empty buffers allocated too, so they have a distinct address.
        let mut v = Vec::with_capacity((*len).max(1));
        for j in 0..*len {
            v.push(stream_byte(start + j));
        }
        infos.push(BufInfo { ptr: v.as_ptr() as usize, len: *len, start });
        start += len;
        bufs.push(v);
    }
    (bufs, infos)
}

fn read_bufs(caps: &[usize]) -> (Vec<Vec<u8>>, Vec<BufInfo>) {
    let mut bufs = Vec::new();
    let mut infos = Vec::new();
    let mut start = 0;
    for cap in caps {
        let mut v: Vec<u8> = Vec::with_capacity((*cap).max(1));
        // Make the capacity exact from the point of view of a10 (it uses
        // capacity - len): pre-fill what the allocator gave us beyond `cap`.
        let extra = v.capacity() - cap;
        v.resize(extra, 0xEE);
        infos.push(BufInfo { ptr: v.as_ptr() as usize + extra, len: *cap, start });
        start += cap;
        bufs.push(v);
    }
    (bufs, infos)
}

fn to_array<const N: usize>(v: Vec<Vec<u8>>) -> [Vec<u8>; N] {
    v.try_into().expect("buffer count")
}

fn err_outcome(e: std::io::Error) -> Outcome {
    Outcome::Err(e.kind(), e.to_string())
}

macro_rules! vectored_write {
    ($n:literal, $setup:expr, $fd:expr, $case:expr, $bufs:expr, $infos:expr, $kind:expr, $off:expr, $flag:expr, $zc:expr, $extract:expr, $observed:expr) => {{
        let arr: [Vec<u8>; $n] = to_array($bufs);
        match ($kind, $extract) {
            ("write_all_vectored", false) => {
                let f = $fd.write_all_vectored(arr);
                let f = if $off >= 0 { f.at($off as u64) } else { f };
                let mut f = Box::pin(f);
                drive($setup, f.as_mut(), $case, &mut $infos, false, false, |o| o.map_or_else(err_outcome, |()| Outcome::OkUnit), $observed)
            }
            ("write_all_vectored", true) => {
                let f = $fd.write_all_vectored(arr);
                let f = if $off >= 0 { f.at($off as u64) } else { f };
                let mut f = Box::pin(f.extract());
                drive($setup, f.as_mut(), $case, &mut $infos, false, false, |o| o.map_or_else(err_outcome, |b| Outcome::Ok(b.into_iter().collect())), $observed)
            }
            ("send_all_vectored", false) => {
                let f = $fd.send_all_vectored(arr);
                let f = if $flag { f.flags(SendFlag::MORE) } else { f };
                let f = if $zc { f.zc() } else { f };
                let mut f = Box::pin(f);
                drive($setup, f.as_mut(), $case, &mut $infos, false, $zc, |o| o.map_or_else(err_outcome, |()| Outcome::OkUnit), $observed)
            }
            ("send_all_vectored", true) => {
                let f = $fd.send_all_vectored(arr);
                let f = if $flag { f.flags(SendFlag::MORE) } else { f };
                let f = if $zc { f.zc() } else { f };
                let mut f = Box::pin(f.extract());
                drive($setup, f.as_mut(), $case, &mut $infos, false, $zc, |o| o.map_or_else(err_outcome, |b| Outcome::Ok(b.into_iter().collect())), $observed)
            }
            _ => unreachable!(),
        }
    }};
}

macro_rules! vectored_read {
    ($n:literal, $setup:expr, $fd:expr, $case:expr, $bufs:expr, $infos:expr, $kind:expr, $off:expr, $flag:expr, $target:expr, $observed:expr) => {{
        let arr: [Vec<u8>; $n] = to_array($bufs);
        match $kind {
            "read_n_vectored" => {
                let f = $fd.read_n_vectored(arr, $target);
                let f = if $off >= 0 { f.from($off as u64) } else { f };
                let mut f = Box::pin(f);
                drive($setup, f.as_mut(), $case, &mut $infos, true, false, |o| o.map_or_else(err_outcome, |b| Outcome::Ok(b.into_iter().collect())), $observed)
            }
            "recv_n_vectored" => {
                let f = $fd.recv_n_vectored(arr, $target);
                let f = if $flag { f.flags(RecvFlag::PEEK) } else { f };
                let mut f = Box::pin(f);
                drive($setup, f.as_mut(), $case, &mut $infos, true, false, |o| o.map_or_else(err_outcome, |b| Outcome::Ok(b.into_iter().collect())), $observed)
            }
            _ => unreachable!(),
        }
    }};
}

fn run_case(case: &Value) -> Vec<Value> {
    let mut div = Vec::new();
    simk::reset();
    wakers::reset();
    events::clear();
    alloc::begin();
    let ring = alloc::tracked(|| a10::Ring::config().with_submission_queue_size(4).build()).expect("ring");
    let rfd = *simk::kernel().rings.keys().next().unwrap();
    let fdn = simk::kernel().alloc_fd();
    let fd = Box::into_raw(Box::new(unsafe { a10::AsyncFd::from_raw_fd(fdn, ring.sq()) }));
    let mut setup = Setup { ring, rfd, fd };
    let fdref: &'static a10::AsyncFd = unsafe { &*setup.fd };

    let kind = case["kind"].as_str().unwrap_or("");
    let lens: Vec<usize> = case["lens"].as_array().map(|a| a.iter().filter_map(Value::as_u64).map(|x| x as usize).collect()).unwrap_or_default();
    let target = case["target"].as_u64().unwrap_or(0) as usize;
    let off = case["off"].as_i64().unwrap_or(-1);
    let flag = case["flags"].as_u64().unwrap_or(0) != 0;
    let zc = case["zc"].as_bool().unwrap_or(false);
    let extract = case["extract"].as_bool().unwrap_or(false);
    let pooled = case["pool"].as_bool().unwrap_or(false);
    let setup_sq = setup.ring.sq();
    let is_read = kind.starts_with("read") || kind.starts_with("recv");
    let (bufs, mut infos) = if is_read { read_bufs(&lens) } else { write_bufs(&lens) };
    let mut observed = Vec::new();

    let result = catch_unwind(AssertUnwindSafe(|| match kind {
        "write_all" => {
            let buf = bufs.into_iter().next().unwrap();
            let f = fdref.write_all(buf);
            let f = if off >= 0 { f.at(off as u64) } else { f };
            if extract {
                let mut f = Box::pin(f.extract());
                drive(&mut setup, f.as_mut(), case, &mut infos, false, false, |o| o.map_or_else(err_outcome, |b| Outcome::Ok(vec![b])), &mut observed)
            } else {
                let mut f = Box::pin(f);
                drive(&mut setup, f.as_mut(), case, &mut infos, false, false, |o| o.map_or_else(err_outcome, |()| Outcome::OkUnit), &mut observed)
            }
        }
        "send_all" => {
            let buf = bufs.into_iter().next().unwrap();
            let f = fdref.send_all(buf);
            let f = if flag { f.flags(SendFlag::MORE) } else { f };
            let f = if zc { f.zc() } else { f };
            if extract {
                let mut f = Box::pin(f.extract());
                drive(&mut setup, f.as_mut(), case, &mut infos, false, zc, |o| o.map_or_else(err_outcome, |b| Outcome::Ok(vec![b])), &mut observed)
            } else {
                let mut f = Box::pin(f);
                drive(&mut setup, f.as_mut(), case, &mut infos, false, zc, |o| o.map_or_else(err_outcome, |()| Outcome::OkUnit), &mut observed)
            }
        }
        "read_n" if pooled => {
            let pool = a10::io::ReadBufPool::new(setup_sq.clone(), 2, lens[0] as u32).expect("pool");
            let f = fdref.read_n(pool.get(), target);
            let f = if off >= 0 { f.from(off as u64) } else { f };
            let mut f = Box::pin(f);
            drive(&mut setup, f.as_mut(), case, &mut infos, true, false, |o| o.map_or_else(err_outcome, |b| Outcome::Ok(vec![b.as_slice().to_vec()])), &mut observed)
        }
        "recv_n" if pooled => {
            let pool = a10::io::ReadBufPool::new(setup_sq.clone(), 2, lens[0] as u32).expect("pool");
            let f = fdref.recv_n(pool.get(), target);
            let f = if flag { f.flags(RecvFlag::PEEK) } else { f };
            let mut f = Box::pin(f);
            drive(&mut setup, f.as_mut(), case, &mut infos, true, false, |o| o.map_or_else(err_outcome, |b| Outcome::Ok(vec![b.as_slice().to_vec()])), &mut observed)
        }
        "read_n" => {
            let buf = bufs.into_iter().next().unwrap();
            let f = fdref.read_n(buf, target);
            let f = if off >= 0 { f.from(off as u64) } else { f };
            let mut f = Box::pin(f);
            drive(&mut setup, f.as_mut(), case, &mut infos, true, false, |o| o.map_or_else(err_outcome, |b| Outcome::Ok(vec![b])), &mut observed)
        }
        "recv_n" => {
            let buf = bufs.into_iter().next().unwrap();
            let f = fdref.recv_n(buf, target);
            let f = if flag { f.flags(RecvFlag::PEEK) } else { f };
            let mut f = Box::pin(f);
            drive(&mut setup, f.as_mut(), case, &mut infos, true, false, |o| o.map_or_else(err_outcome, |b| Outcome::Ok(vec![b])), &mut observed)
        }
        "write_all_vectored" | "send_all_vectored" => match lens.len() {
            1 => vectored_write!(1, &mut setup, fdref, case, bufs, infos, kind, off, flag, zc, extract, &mut observed),
            2 => vectored_write!(2, &mut setup, fdref, case, bufs, infos, kind, off, flag, zc, extract, &mut observed),
            _ => vectored_write!(3, &mut setup, fdref, case, bufs, infos, kind, off, flag, zc, extract, &mut observed),
        },
        "read_n_vectored" | "recv_n_vectored" => match lens.len() {
            1 => vectored_read!(1, &mut setup, fdref, case, bufs, infos, kind, off, flag, target, &mut observed),
            2 => vectored_read!(2, &mut setup, fdref, case, bufs, infos, kind, off, flag, target, &mut observed),
            _ => vectored_read!(3, &mut setup, fdref, case, bufs, infos, kind, off, flag, target, &mut observed),
        },
        other => Outcome::Stuck(format!("unknown kind {other}")),
    }));

    // ---- compare the requests
    let exp_reqs = case["reqs"].as_array().cloned().unwrap_or_default();
    let exp_flag: u32 = if flag { if is_read { libc::MSG_PEEK as u32 } else { libc::MSG_MORE as u32 } } else { 0 };
    let exp_opcode = match kind {
        "write_all" => "write",
        "write_all_vectored" => "writev",
        "send_all" => if zc { "send_zc" } else { "send" },
        "send_all_vectored" => if zc { "sendmsg_zc" } else { "sendmsg" },
        "read_n" => "read",
        "read_n_vectored" => "readv",
        "recv_n" => "recv",
        _ => "recvmsg",
    };
    for i in 0..exp_reqs.len().max(observed.len()) {
        let (Some(e), Some(o)) = (exp_reqs.get(i), observed.get(i)) else {
            div.push(json!({"field": "number of requests", "expected": exp_reqs.len(), "observed": observed.len(), "requests": observed}));
            break;
        };
        let sock = kind.starts_with("send") || kind.starts_with("recv");
        let want = json!({
            "opcode": exp_opcode,
            "pos": e["pos"], "len": e["len"], "contiguous": true,
            "foff": if sock { json!(-1) } else { e["foff"].clone() },
            "flags": if sock && e["flags"].as_u64().unwrap_or(0) != 0 { exp_flag } else { 0 },
            "zc": e["zc"],
            "select": e["select"],
        });
        let mut want = want;
        if e["select"].as_bool() == Some(true) {
            // No address is passed: the kernel selects the buffer.
            want["pos"] = json!(usize::MAX);
            want["len"] = json!(0);
        }
        let got = json!({"opcode": o["opcode"], "pos": o["pos"], "len": o["len"], "contiguous": o["contiguous"],
                         "foff": o["foff"], "flags": o["flags"], "zc": o["zc"], "select": o["select"]});
        if want != got {
            // A request that carries the right bytes but not the settings made on the builder
            // (offset, flags, zero-copy) is also a failure of "every builder setting takes effect".
            let same_bytes = want["pos"] == got["pos"] && want["len"] == got["len"] && want["contiguous"] == got["contiguous"] && want["select"] == got["select"];
            let mut d = json!({"field": format!("request {i}"), "expected": want, "observed": o});
            if same_bytes {
                d["also_tags"] = json!(["C13"]);
            }
            div.push(d);
            break;
        }
    }
    // ---- compare the outcome
    let done = case["done"].as_u64().unwrap_or(0) as usize;
    match (&result, case["outcome"].as_str().unwrap_or("")) {
        (Err(_), _) => {}
        (Ok(Outcome::OkUnit), "ok") => {}
        (Ok(Outcome::Ok(bufs)), "ok") => {
            if is_read {
                // Bytes appended in arrival order: buffer contents = stream prefix.
                let mut got = Vec::new();
                if pooled {
                    got.extend_from_slice(&bufs[0]);
                }
                for (b, info) in bufs.iter().zip(&infos).filter(|_| !pooled) {
                    let extra = b.len().saturating_sub(b.len().min(info.len + (b.capacity() - info.len)));
                    let _ = extra;
                    let pre = b.capacity() - info.len;
                    got.extend_from_slice(&b[pre.min(b.len())..]);
                }
                let want: Vec<u8> = (0..done).map(stream_byte).collect();
                if got != want {
                    div.push(json!({"field": "bytes returned by the read", "expected": want, "observed": got}));
                }
            } else {
                // Extract: the caller's original buffers.
                let ptrs: Vec<usize> = bufs.iter().map(|b| b.as_ptr() as usize).collect();
                let want: Vec<usize> = infos.iter().map(|i| i.ptr).collect();
                let lens_got: Vec<usize> = bufs.iter().map(Vec::len).collect();
                if ptrs != want || lens_got != lens {
                    div.push(json!({"field": "buffers returned by extract", "expected": {"ptrs": want, "lens": lens}, "observed": {"ptrs": ptrs, "lens": lens_got}}));
                }
            }
        }
        (Ok(Outcome::Err(k, _)), "zero") if (*k == std::io::ErrorKind::WriteZero && !is_read) || (*k == std::io::ErrorKind::UnexpectedEof && is_read) => {}
        (Ok(other), want) => {
            if div.is_empty() {
                div.push(json!({"field": "outcome", "expected": want, "observed": format!("{other:?}")}));
            }
        }
    }
    if let Err(p) = result {
        div.insert(0, json!({"field": "panic", "expected": case["outcome"], "observed": panic_message(p)}));
    }
    // ---- teardown
    let _ = catch_unwind(AssertUnwindSafe(|| {
        alloc::tracked(|| {
            drop(unsafe { Box::from_raw(setup.fd) });
            drop(setup.ring);
        })
    }));
    simk::forget_closed_rings();
    let (_leaks, incidents) = alloc::end();
    for inc in incidents {
        div.push(json!({"field": "allocator incident", "expected": null, "observed": format!("{inc:?}")}));
    }
    div
}

fn main() {
    let args: Vec<String> = std::env::args().collect();
    let mut cases_path = String::new();
    let (mut from, mut to) = (0usize, usize::MAX);
    let mut out_path = String::new();
    let mut progress_path = String::new();
    let mut i = 1;
    while i < args.len() {
        let v = args.get(i + 1).cloned().unwrap_or_default();
        match args[i].as_str() {
            "--cases" | "--replay-file" => cases_path = v,
            "--from" => from = v.parse().unwrap(),
            "--to" => to = v.parse().unwrap(),
            "--out" => out_path = v,
            "--progress" => progress_path = v,
            other => {
                eprintln!("unknown argument {other}");
                std::process::exit(2);
            }
        }
        i += 2;
    }
    let text = std::fs::read_to_string(&cases_path).expect("cases file");
    let cases: Vec<Value> = text.lines().filter(|l| !l.trim().is_empty()).map(|l| serde_json::from_str(l).unwrap()).collect();
    let mut out: Box<dyn std::io::Write> =
        if out_path.is_empty() { Box::new(std::io::stdout()) } else { Box::new(std::fs::File::create(&out_path).unwrap()) };
    std::panic::set_hook(Box::new(|_| {}));
    simk::install();
    events::install();
    let to = to.min(cases.len());
    let mut bad = 0;
    let mut steps = 0;
    for (ci, case) in cases.iter().enumerate().take(to).skip(from) {
        if !progress_path.is_empty() {
            let mut raw = Vec::new();
            raw.extend_from_slice(&(ci as u64).to_le_bytes());
            raw.extend_from_slice(&0u64.to_le_bytes());
            let _ = std::fs::write(&progress_path, raw);
        }
        let case = if case.get("case").is_some() { &case["case"] } else { case };
        steps += case["answers"].as_array().map_or(0, Vec::len);
        let div = run_case(case);
        if let Some(d) = div.into_iter().next() {
            bad += 1;
            let mut d = d;
            d["path"] = json!(ci);
            d["step"] = json!(0);
            d["tag"] = json!("C10");
            d["case"] = case.clone();
            writeln!(out, "{d}").unwrap();
        }
    }
    if !progress_path.is_empty() {
        let mut raw = Vec::new();
        raw.extend_from_slice(&u64::MAX.to_le_bytes());
        raw.extend_from_slice(&0u64.to_le_bytes());
        let _ = std::fs::write(&progress_path, raw);
    }
    writeln!(out, "{}", json!({"summary": true, "paths": to.saturating_sub(from), "steps": steps, "diverged_paths": bad})).unwrap();
}

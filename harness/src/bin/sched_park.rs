//! C03 at thread level (submission-slot part): futures that find the submission
//! queue full park their wakers while another thread calls Ring::poll, under
//! the baton scheduler (ParkMT.tla).
//!
//! Set-up: the submission queue is full of unsubmitted entries.  F logical
//! threads each poll one further operation; a thread whose operation returned
//! Pending waits for its waker and polls again, until the operation has been
//! submitted.  A poller thread calls Ring::poll(zero timeout) P times.  After
//! the scheduled part, rounds of {Ring::poll; re-poll every woken future} are
//! run on one thread.
//!
//! Oracle: no waker is lost -- every operation is submitted within F + 2 such
//! rounds (with a lost waker its future is never polled again and never
//! submitted); no panic, no deadlock other than futures waiting for the poller.
//!
//! usage: sched_park --futures F --sqn N --polls P --preemptions B [--max-exec K] [--out FILE] [--replay-file FILE]

use std::future::Future;
use std::io::Write as _;
use std::pin::Pin;
use std::sync::atomic::{AtomicBool, AtomicUsize, Ordering};
use std::sync::{Arc, Mutex};
use std::task::Context;
use std::time::Duration;

use a10_verif_harness::sched::{self, Body, Execution};
use a10_verif_harness::simk;
use a10_verif_harness::{alloc, events, wakers};
use serde_json::{Value, json};

#[derive(Clone)]
struct Params {
    futures: usize,
    sqn: u32,
    polls: usize,
}

struct Outcome {
    exec: Execution,
    problems: Vec<Value>,
}

type Fut = Pin<Box<dyn Future<Output = std::io::Result<usize>> + Send>>;

/// Was an operation submitted by logical thread `me` since event index `from`?
fn submitted_since(from: usize, me: i64) -> bool {
    events::peek(|evs| evs[from.min(evs.len())..].iter().any(|e| e.name == "OpSubmitted" && e.thread == me))
}

fn run_once(p: &Params, prefix: Vec<usize>, random: Option<u64>) -> Outcome {
    simk::reset();
    wakers::reset();
    events::clear();
    alloc::begin();
    let ring = a10::Ring::config().with_submission_queue_size(p.sqn).build().expect("ring");
    let fdn = simk::kernel().alloc_fd();
    let fd_ptr = Box::into_raw(Box::new(unsafe { a10::AsyncFd::from_raw_fd(fdn, ring.sq()) }));
    let fd: &'static a10::AsyncFd = unsafe { &*fd_ptr };
    // Fill the submission queue.
    let mut fillers: Vec<Fut> = Vec::new();
    {
        let waker = wakers::waker(15);
        let mut ctx = Context::from_waker(&waker);
        for i in 0..p.sqn {
            let mut f: Fut = Box::pin(fd.write(vec![0x33u8; 4 + i as usize]));
            let _ = f.as_mut().poll(&mut ctx);
            fillers.push(f);
        }
    }
    events::clear();
    simk::kernel().take_notes();
    let ring = Arc::new(Mutex::new(Some(ring)));
    let futs: Vec<Arc<Mutex<Option<Fut>>>> = (0..p.futures).map(|i| Arc::new(Mutex::new(Some(Box::pin(fd.write(vec![0x44u8; 16 + i])) as Fut)))).collect();
    let submitted: Vec<Arc<AtomicBool>> = (0..p.futures).map(|_| Arc::new(AtomicBool::new(false))).collect();
    let poller_done = Arc::new(AtomicBool::new(false));
    let active = Arc::new(AtomicUsize::new(p.futures));
    let last_seen: Vec<Arc<AtomicUsize>> = (0..p.futures).map(|_| Arc::new(AtomicUsize::new(0))).collect();
    let mut bodies: Vec<Body> = Vec::new();
    for i in 0..p.futures {
        let fut = futs[i].clone();
        let submitted = submitted[i].clone();
        let poller_done = poller_done.clone();
        let active = active.clone();
        let last = last_seen[i].clone();
        bodies.push(Box::new(move || {
            let me = i as i64;
            loop {
                sched::yield_now("future.poll");
                let seen = wakers::count(i);
                last.store(seen as usize, Ordering::SeqCst);
                let from = events::peek(<[events::Ev]>::len);
                let waker = wakers::waker(i);
                let mut ctx = Context::from_waker(&waker);
                let r = alloc::tracked(|| fut.lock().unwrap().as_mut().unwrap().as_mut().poll(&mut ctx));
                if r.is_ready() || submitted_since(from, me) {
                    submitted.store(true, Ordering::SeqCst);
                    break;
                }
                // Parked: wait for the waker (condition i is set by the waker, and by the poller
                // when it is done).
                if wakers::count(i) == seen {
                    sched::set_cond(i, false);
                    if wakers::count(i) == seen && !poller_done.load(Ordering::SeqCst) {
                        sched::block_on(i, "future.wait");
                    }
                }
                if wakers::count(i) == seen {
                    break; // the poller is done
                }
            }
            active.fetch_sub(1, Ordering::SeqCst);
        }));
    }
    {
        let ring = ring.clone();
        let polls = p.polls;
        let nfutures = p.futures;
        let poller_done = poller_done.clone();
        bodies.push(Box::new(move || {
            for _ in 0..polls {
                sched::yield_now("ring.poll");
                if let Some(r) = ring.lock().unwrap().as_mut() {
                    let _ = alloc::tracked(|| r.poll(Some(Duration::ZERO)));
                }
                sched::note_progress();
            }
            poller_done.store(true, Ordering::SeqCst);
            for i in 0..nfutures {
                sched::set_cond(i, true);
            }
            sched::note_progress();
        }));
    }
    wakers::set_on_wake(Some(|id| sched::set_cond(id, true)));
    let exec = sched::execute(bodies, prefix, random, p.futures, 20_000);
    wakers::set_on_wake(None);
    let mut problems = Vec::new();
    for (t, msg) in &exec.panics {
        problems.push(json!({"field": "panic", "expected": null, "observed": {"thread": t, "message": msg}}));
    }
    if exec.deadlock {
        problems.push(json!({"field": "deadlock", "expected": null, "observed": exec.stuck}));
    }
    // ---- the sequel, on one thread: Ring::poll is called again and again (nothing ever completes);
    // a future is polled again only when its waker was invoked since its last poll, as an executor
    // would.  Every operation must get submitted.
    if problems.is_empty() {
        for _round in 0..(2 * p.futures + 2) {
            for i in 0..p.futures {
                if submitted[i].load(Ordering::SeqCst) || wakers::count(i) == last_seen[i].load(Ordering::SeqCst) as u64 {
                    continue;
                }
                let from = events::peek(<[events::Ev]>::len);
                let waker = wakers::waker(i);
                let mut ctx = Context::from_waker(&waker);
                last_seen[i].store(wakers::count(i) as usize, Ordering::SeqCst);
                let r = fut_poll(&futs[i], &mut ctx);
                if r || submitted_since(from, -1) {
                    submitted[i].store(true, Ordering::SeqCst);
                }
            }
            if let Some(r) = ring.lock().unwrap().as_mut() {
                let res = r.poll(Some(Duration::ZERO));
                if std::env::var_os("VERIF_DEBUG").is_some() {
                    eprintln!("round {_round}: poll {res:?} counts {:?} submitted {:?}", &wakers::counts()[..p.futures], submitted.iter().map(|s| s.load(Ordering::SeqCst)).collect::<Vec<_>>());
                }
            }
        }
        let stuck: Vec<usize> = (0..p.futures).filter(|i| !submitted[*i].load(Ordering::SeqCst)).collect();
        if !stuck.is_empty() {
            problems.push(json!({"field": "an operation that found the submission queue full is never woken although later Ring::poll calls find room in the queue",
                "expected": "woken and submitted", "observed": {"futures": stuck, "wake counts": (0..p.futures).map(wakers::count).collect::<Vec<_>>(),
                "queued": simk::kernel().rings.values().next().map_or(0, simk::SimRing::sq_pending)}}));
        }
    }
    // ---- teardown
    for f in &futs {
        drop(f.lock().unwrap().take());
    }
    drop(fillers);
    drop(unsafe { Box::from_raw(fd_ptr) });
    drop(ring.lock().unwrap().take());
    simk::forget_closed_rings();
    let _ = alloc::end();
    Outcome { exec, problems }
}

fn fut_poll(f: &Arc<Mutex<Option<Fut>>>, ctx: &mut Context<'_>) -> bool {
    f.lock().unwrap().as_mut().unwrap().as_mut().poll(ctx).is_ready()
}

fn main() {
    let args: Vec<String> = std::env::args().collect();
    let mut p = Params { futures: 2, sqn: 1, polls: 2 };
    let mut preemptions = 2usize;
    let mut max_exec = 200_000u64;
    let mut out_path = String::new();
    let mut replay_file = String::new();
    let mut random_runs = 0u64;
    let mut seed = 1u64;
    let mut i = 1;
    while i < args.len() {
        let v = args.get(i + 1).cloned().unwrap_or_default();
        match args[i].as_str() {
            "--futures" => p.futures = v.parse().unwrap(),
            "--sqn" => p.sqn = v.parse().unwrap(),
            "--polls" => p.polls = v.parse().unwrap(),
            "--preemptions" => preemptions = v.parse().unwrap(),
            "--max-exec" => max_exec = v.parse().unwrap(),
            "--random" => random_runs = v.parse().unwrap(),
            "--seed" => seed = v.parse().unwrap(),
            "--out" => out_path = v,
            "--replay-file" => replay_file = v,
            other => {
                eprintln!("unknown argument {other}");
                std::process::exit(2);
            }
        }
        i += 2;
    }
    if std::env::var_os("VERIF_PANIC_MSG").is_none() {
        std::panic::set_hook(Box::new(|_| {}));
    }
    simk::install();
    events::install();
    let mut out: Box<dyn std::io::Write> =
        if out_path.is_empty() { Box::new(std::io::stdout()) } else { Box::new(std::fs::File::create(&out_path).unwrap()) };
    let config = |p: &Params| json!({"futures": p.futures, "sqn": p.sqn, "polls": p.polls});
    if !replay_file.is_empty() {
        let v: Value = serde_json::from_str(&std::fs::read_to_string(&replay_file).expect("replay file")).unwrap();
        let c = &v["config"];
        p = Params { futures: c["futures"].as_u64().unwrap() as usize, sqn: c["sqn"].as_u64().unwrap() as u32, polls: c["polls"].as_u64().unwrap() as usize };
        let prefix: Vec<usize> = v["schedule"].as_array().map(|a| a.iter().filter_map(Value::as_u64).map(|x| x as usize).collect()).unwrap_or_default();
        let o = run_once(&p, prefix, None);
        for pr in &o.problems {
            writeln!(out, "{}", json!({"tag": "C03", "field": pr["field"], "expected": pr["expected"], "observed": pr["observed"]})).unwrap();
        }
        writeln!(out, "{}", json!({"summary": true, "paths": 1, "steps": o.exec.steps, "diverged_paths": usize::from(!o.problems.is_empty())})).unwrap();
        return;
    }
    let mut bad = 0u64;
    let mut steps = 0u64;
    let mut visit = |o: &Outcome, out: &mut Box<dyn std::io::Write>| {
        steps += o.exec.steps;
        if o.exec.steps > 3000 && std::env::var_os("VERIF_DEBUG").is_some() {
            let mut c: std::collections::BTreeMap<String, usize> = std::collections::BTreeMap::new();
            for (t, l) in &o.exec.log {
                *c.entry(format!("{t}:{l}")).or_default() += 1;
            }
            eprintln!("long execution: {} steps {:?}", o.exec.steps, c);
        }
        if let Some(pr) = o.problems.first() {
            bad += 1;
            if bad <= 20 {
                let schedule: Vec<usize> = o.exec.trace.iter().map(|c| c.chosen).collect();
                writeln!(out, "{}", json!({"path": bad, "step": 0, "tag": "C03", "field": pr["field"], "expected": pr["expected"], "observed": pr["observed"],
                    "config": config(&p), "schedule": schedule, "model": "ParkMT",
                    "log": o.exec.log.iter().map(|(t, l)| format!("{t}:{l}")).collect::<Vec<_>>()})).unwrap();
            }
        }
    };
    let (executions, complete) = sched::explore(preemptions, max_exec, |prefix| {
        let o = run_once(&p, prefix, None);
        visit(&o, &mut out);
        (o.exec.trace.clone(), true)
    });
    let mut randoms = 0;
    for r in 0..random_runs {
        let o = run_once(&p, Vec::new(), Some(seed.wrapping_mul(0x9E37_79B9_7F4A_7C15).wrapping_add(r + 1) | 1));
        visit(&o, &mut out);
        randoms += 1;
    }
    writeln!(out, "{}", json!({"summary": true, "paths": executions + randoms, "steps": steps, "diverged_paths": bad, "complete": complete,
        "config": config(&p), "preemption_bound": preemptions})).unwrap();
}

//! C11: SubmissionQueue::wake against Ring::poll(None) under the baton
//! scheduler.
//!
//! One logical thread calls `Ring::poll(None)` (a blocking io_uring_enter in the
//! simulated kernel: the thread is descheduled until a completion is visible),
//! one or two threads call `SubmissionQueue::wake`; with a kernel thread
//! (SQPOLL) a further logical thread consumes queued submissions at any time.
//! No I/O ever completes, so only wake-ups can end a poll.
//!
//! Oracle (WakeMT.tla, NoLostWake): `owed` becomes true when a wake call starts
//! and false when a poll returns.  The run ends either with all polls returned,
//! or with the poller blocked for ever after all wakers finished; the latter
//! with `owed` set is a lost wake-up.
//!
//! usage: sched_wake --mode default|sqpoll|single --wakers N --wakes K --polls P [--sqn N] [--drop 1]
//!                   --preemptions B [--max-exec K] [--random R] [--out FILE] [--trace-out FILE] [--replay-file FILE]

use std::io::Write as _;
use std::sync::atomic::{AtomicBool, AtomicUsize, Ordering};
use std::sync::{Arc, Mutex};

use a10_verif_harness::sched::{self, Body, Execution};
use a10_verif_harness::simk;
use a10_verif_harness::{alloc, events, wakers};
use serde_json::{Value, json};

#[derive(Clone)]
struct Params {
    mode: String,
    wakers: usize,
    wakes: usize,
    polls: usize,
    sqn: u32,
    drop_ring: bool,
    /// Other submissions queued, and not consumed, when the run starts.
    fill: u32,
}

struct Outcome {
    exec: Execution,
    problems: Vec<Value>,
    trace: Vec<Value>,
}

fn run_once(p: &Params, prefix: Vec<usize>, random: Option<u64>) -> Outcome {
    simk::reset();
    wakers::reset();
    events::clear();
    alloc::begin();
    let config = a10::Ring::config().with_submission_queue_size(p.sqn).with_completion_queue_size(8);
    let config = match p.mode.as_str() {
        "sqpoll" => config.with_kernel_thread(),
        "single" => config.single_issuer(),
        _ => config,
    };
    let ring = config.build().expect("ring");
    let rfd = *simk::kernel().rings.keys().next().unwrap();
    let sq = ring.sq();
    // Other operations that are queued but never complete.
    let fdn = simk::kernel().alloc_fd();
    let fd_ptr = Box::into_raw(Box::new(unsafe { a10::AsyncFd::from_raw_fd(fdn, ring.sq()) }));
    let fd: &'static a10::AsyncFd = unsafe { &*fd_ptr };
    let mut fillers = Vec::new();
    {
        use std::future::Future;
        let waker = wakers::waker(9);
        let mut ctx = std::task::Context::from_waker(&waker);
        for i in 0..p.fill {
            let mut f = Box::pin(fd.write(vec![0x22u8; 8 + i as usize]));
            let _ = f.as_mut().poll(&mut ctx);
            fillers.push(f);
        }
    }
    simk::kernel().take_notes();
    events::clear();
    let ring = Arc::new(Mutex::new(Some(ring)));
    let wakers_done = Arc::new(AtomicUsize::new(0));
    let poller_done = Arc::new(AtomicBool::new(false));
    let mut bodies: Vec<Body> = Vec::new();
    // Thread 0: the poller.
    {
        let ring = ring.clone();
        let polls = p.polls;
        let drop_ring = p.drop_ring;
        let poller_done = poller_done.clone();
        bodies.push(Box::new(move || {
            struct Done(Arc<AtomicBool>);
            impl Drop for Done {
                fn drop(&mut self) {
                    self.0.store(true, Ordering::SeqCst);
                }
            }
            let _done = Done(poller_done);
            for _ in 0..polls {
                sched::yield_now("poll.call");
                let mut g = ring.lock().unwrap_or_else(|e| e.into_inner());
                let r = g.as_mut().unwrap();
                events::push("PollCall", [0; 6]);
                let res = alloc::tracked(|| r.poll(None));
                let errno = res.as_ref().err().and_then(std::io::Error::raw_os_error).unwrap_or(0);
                events::push("PollReturn", [errno as u64, 0, 0, 0, 0, 0]);
                if res.is_err() {
                    return;
                }
            }
            if drop_ring {
                sched::yield_now("ring.drop");
                events::push("RingDropCall", [0; 6]);
                let r = ring.lock().unwrap_or_else(|e| e.into_inner()).take();
                alloc::tracked(|| drop(r));
                events::push("RingDropped", [0; 6]);
            }
        }));
    }
    // Threads 1..: the wakers.
    for _ in 0..p.wakers {
        let sq = sq.clone();
        let wakes = p.wakes;
        let wakers_done = wakers_done.clone();
        let nwakers = p.wakers;
        bodies.push(Box::new(move || {
            for _ in 0..wakes {
                sched::yield_now("wake.call");
                events::push("WakeCall", [0; 6]);
                alloc::tracked(|| sq.wake());
                events::push("WakeReturn", [0; 6]);
            }
            if wakers_done.fetch_add(1, Ordering::SeqCst) + 1 >= nwakers {
                sched::set_cond(0, true);
            }
        }));
    }
    // The kernel thread of an SQPOLL ring.
    if p.mode == "sqpoll" {
        let wakers_done = wakers_done.clone();
        let nwakers = p.wakers;
        bodies.push(Box::new(move || {
            loop {
                let pending = simk::kernel().rings.get(&rfd).map_or(0, |r| r.sq_pending());
                if pending == 0 {
                    if wakers_done.load(Ordering::SeqCst) >= nwakers {
                        // Nobody can queue anything any more (the poller never submits).
                        break;
                    }
                    sched::block_on_sq(rfd, 0, "kernel.idle");
                    continue;
                }
                sched::yield_now("kernel");
                let before = simk::kernel().notes.len();
                simk::kernel().consume(rfd, 1);
                let filler = simk::kernel().notes[before..].iter().any(|n| matches!(n, simk::Note::Consumed { sqe, .. } if sqe.opcode() != a10_verif_harness::abi::OP_MSG_RING));
                if filler {
                    events::push("KFiller", [0; 6]);
                }
                sched::note_progress();
            }
        }));
    }
    drop(sq);
    let exec = sched::execute(bodies, prefix, random, 1, 20_000);
    // ---- oracle
    let evs = events::take();
    let notes = simk::kernel().take_notes();
    let mut problems = Vec::new();
    let mut owed = false;
    let mut dropped = false;
    let mut late = vec![false; p.wakers + 2];
    let mut trace = Vec::new();
    let mut poller_active = true;
    let mut tracing = true;
    let mut full_trace = Vec::new();
    for ev in &evs {
        let th = ev.thread;
        match ev.name {
            "WakeCall" => {
                if !dropped {
                    owed = true;
                }
                late[th as usize] = dropped;
                trace.push(json!({"ev": "WakeCall", "th": th, "a": 0, "b": 0}));
            }
            "WakeReturn" => trace.push(json!({"ev": "WakeReturn", "th": th, "a": 0, "b": 0})),
            "PollCall" => trace.push(json!({"ev": "PollCall", "th": th, "a": 0, "b": 0})),
            "PollReturn" => {
                if ev.f[0] == 0 {
                    owed = false;
                    trace.push(json!({"ev": "PollReturn", "th": th, "a": 0, "b": 0}));
                } else {
                    // The run was ended while the poll was blocked: not a return.
                    poller_active = false;
                }
            }
            // Ring::drop polls with zero timeouts itself; the model does not cover the
            // window in which it runs, so the recorded trace ends where it starts.
            "RingDropCall" => {
                poller_active = false;
                if tracing {
                    full_trace = trace.clone();
                }
                tracing = false;
            }
            "RingDropped" => dropped = true,
            "CqPollBegin" if th == 0 && poller_active => {
                let visible = (ev.f[2] as u32).wrapping_sub(ev.f[1] as u32);
                trace.push(json!({"ev": "PollBegin", "th": th, "a": visible, "b": 0}));
            }
            "CqReload" if th == 0 && poller_active => {
                let visible = (ev.f[2] as u32).wrapping_sub(ev.f[1] as u32);
                trace.push(json!({"ev": "Reload", "th": th, "a": visible, "b": 0}));
            }
            "SetPolling" if th == 0 && poller_active => trace.push(json!({"ev": "SetPolling", "th": th, "a": ev.f[1], "b": ev.f[2]})),
            "Wake" => trace.push(json!({"ev": "Fetch", "th": th, "a": ev.f[1], "b": 0})),
            // The run was ended while this call was blocked: it never returned.
            "Enter" if th == 0 && ev.f[4] as i64 == -i64::from(simk::EDEADLK) => poller_active = false,
            "Enter" if th == 0 && poller_active => trace.push(json!({"ev": "PollerEnter", "th": th, "a": 0, "b": 0})),
            "Enter" if th > 0 => trace.push(json!({"ev": "WakerEnter", "th": th, "a": 0, "b": 0})),
            "SqAdd" | "SqFull" | "KMsgRing" | "KFiller" if th > 0 || ev.name == "KMsgRing" => {
                if matches!(ev.name, "SqAdd" | "SqFull") && late[th as usize] {
                    problems.push(json!({"field": "wake of a dropped ring queued a message", "expected": null, "observed": ev.name}));
                }
                // A message sent synchronously (single issuer) belongs to the waker; one consumed by
                // the kernel thread is the kernel's step; one consumed inside an enter is part of it.
                let sync = ev.name == "KMsgRing" && ev.f[2] == 1;
                if ev.name == "KMsgRing" && !sync && p.mode != "sqpoll" {
                    continue;
                }
                let name = match ev.name {
                    "KFiller" => "KFiller",
                    "SqAdd" => "Queued",
                    "SqFull" => "QueueFull",
                    _ if sync => "SentSync",
                    _ => "KConsume",
                };
                trace.push(json!({"ev": name, "th": th, "a": 0, "b": 0}));
            }
            _ => {}
        }
    }
    if !tracing {
        trace = full_trace;
    }
    for (t, msg) in &exec.panics {
        problems.push(json!({"field": "panic", "expected": null, "observed": {"thread": t, "message": msg}}));
    }
    for n in &notes {
        if let simk::Note::BadRing { fd, what } = n {
            problems.push(json!({"field": "system call on a closed ring", "expected": null, "observed": {"fd": fd, "what": what}}));
        }
    }
    if exec.deadlock {
        // Nobody can run: fine if only the poller is left, blocked with nothing owed.
        let only_poller = exec.stuck.len() == 1 && exec.stuck[0].0 == 0 && exec.stuck[0].1.starts_with("BlockedCq");
        if !only_poller {
            problems.push(json!({"field": "deadlock", "expected": null, "observed": exec.stuck}));
        } else if owed {
            problems.push(json!({"field": "wake-up lost: Ring::poll(None) blocks for ever although a wake call started after the previous poll returned",
                "expected": "poll returns", "observed": "blocked, all wakers finished, no completion and no submission pending"}));
        }
    }
    // ---- teardown (unscheduled).
    drop(fillers);
    drop(unsafe { Box::from_raw(fd_ptr) });
    let r = ring.lock().unwrap_or_else(|e| e.into_inner()).take();
    drop(r);
    simk::forget_closed_rings();
    let _ = alloc::end();
    Outcome { exec, problems, trace }
}

fn main() {
    let args: Vec<String> = std::env::args().collect();
    let mut p = Params { mode: "default".into(), wakers: 1, wakes: 1, polls: 2, sqn: 2, drop_ring: false, fill: 0 };
    let mut preemptions = 2usize;
    let mut max_exec = 200_000u64;
    let mut out_path = String::new();
    let mut replay_file = String::new();
    let mut trace_out = String::new();
    let mut random_runs = 0u64;
    let mut seed = 1u64;
    let mut i = 1;
    while i < args.len() {
        let v = args.get(i + 1).cloned().unwrap_or_default();
        match args[i].as_str() {
            "--mode" => p.mode = v,
            "--wakers" => p.wakers = v.parse().unwrap(),
            "--wakes" => p.wakes = v.parse().unwrap(),
            "--polls" => p.polls = v.parse().unwrap(),
            "--sqn" => p.sqn = v.parse().unwrap(),
            "--drop" => p.drop_ring = v == "1",
            "--fill" => p.fill = v.parse().unwrap(),
            "--preemptions" => preemptions = v.parse().unwrap(),
            "--max-exec" => max_exec = v.parse().unwrap(),
            "--random" => random_runs = v.parse().unwrap(),
            "--seed" => seed = v.parse().unwrap(),
            "--out" => out_path = v,
            "--replay-file" => replay_file = v,
            "--trace-out" => trace_out = v,
            other => {
                eprintln!("unknown argument {other}");
                std::process::exit(2);
            }
        }
        i += 2;
    }
    if std::env::var_os("VERIF_PANIC_MSG").is_none() {
        std::panic::set_hook(Box::new(|_| {}));
    }
    simk::install();
    events::install();
    let mut out: Box<dyn std::io::Write> =
        if out_path.is_empty() { Box::new(std::io::stdout()) } else { Box::new(std::fs::File::create(&out_path).unwrap()) };
    let config = |p: &Params| json!({"mode": p.mode, "wakers": p.wakers, "wakes": p.wakes, "polls": p.polls, "sqn": p.sqn, "drop": p.drop_ring, "fill": p.fill});
    if !replay_file.is_empty() {
        let v: Value = serde_json::from_str(&std::fs::read_to_string(&replay_file).expect("replay file")).unwrap();
        let c = &v["config"];
        p = Params {
            mode: c["mode"].as_str().unwrap().to_string(),
            wakers: c["wakers"].as_u64().unwrap() as usize,
            wakes: c["wakes"].as_u64().unwrap() as usize,
            polls: c["polls"].as_u64().unwrap() as usize,
            sqn: c["sqn"].as_u64().unwrap() as u32,
            drop_ring: c["drop"].as_bool().unwrap_or(false),
            fill: c["fill"].as_u64().unwrap_or(0) as u32,
        };
        let prefix: Vec<usize> = v["schedule"].as_array().map(|a| a.iter().filter_map(Value::as_u64).map(|x| x as usize).collect()).unwrap_or_default();
        let o = run_once(&p, prefix, None);
        for pr in &o.problems {
            writeln!(out, "{}", json!({"tag": "C11", "field": pr["field"], "expected": pr["expected"], "observed": pr["observed"]})).unwrap();
        }
        writeln!(out, "{}", json!({"summary": true, "paths": 1, "steps": o.exec.steps, "diverged_paths": usize::from(!o.problems.is_empty())})).unwrap();
        return;
    }
    let mut bad = 0u64;
    let mut steps = 0u64;
    let mut blocked_ends = 0u64;
    let mut traces: Vec<Value> = Vec::new();
    let mut visit = |o: &Outcome, out: &mut Box<dyn std::io::Write>| {
        steps += o.exec.steps;
        if o.exec.deadlock {
            blocked_ends += 1;
        }
        if traces.len() < 600 {
            traces.push(json!(o.trace));
        }
        if let Some(pr) = o.problems.first() {
            bad += 1;
            if bad <= 20 {
                let schedule: Vec<usize> = o.exec.trace.iter().map(|c| c.chosen).collect();
                writeln!(out, "{}", json!({"path": bad, "step": 0, "tag": "C11", "field": pr["field"], "expected": pr["expected"], "observed": pr["observed"],
                    "config": config(&p), "schedule": schedule, "model": "WakeMT",
                    "log": o.exec.log.iter().map(|(t, l)| format!("{t}:{l}")).collect::<Vec<_>>()})).unwrap();
            }
        }
    };
    let (executions, complete) = sched::explore(preemptions, max_exec, |prefix| {
        let o = run_once(&p, prefix, None);
        visit(&o, &mut out);
        (o.exec.trace.clone(), true)
    });
    let mut randoms = 0;
    for r in 0..random_runs {
        let o = run_once(&p, Vec::new(), Some(seed.wrapping_mul(0x9E37_79B9_7F4A_7C15).wrapping_add(r + 1) | 1));
        visit(&o, &mut out);
        randoms += 1;
    }
    if !trace_out.is_empty() {
        let mut f = std::fs::File::create(&trace_out).unwrap();
        for t in &traces {
            writeln!(f, "{t}").unwrap();
        }
    }
    writeln!(out, "{}", json!({"summary": true, "paths": executions + randoms, "steps": steps, "diverged_paths": bad, "complete": complete,
        "ended_with_poller_blocked": blocked_ends, "config": config(&p), "preemption_bound": preemptions})).unwrap();
}

//! Replays the cases enumerated by `spec/Build.tla` against `Config::build`
//! on the simulated kernel with the failure injected.
//!
//! usage: replay_build --cases FILE [--from N] [--to M] [--out FILE] [--progress FILE]

use std::collections::BTreeSet;
use std::future::Future;
use std::io::Write as _;
use std::panic::{AssertUnwindSafe, catch_unwind};
use std::task::Context;
use std::time::Duration;

use a10_verif_harness::simk::{self, ALL_FEATURES};
use a10_verif_harness::{alloc, events, wakers};
use serde_json::{Value, json};

fn panic_message(p: Box<dyn std::any::Any + Send>) -> String {
    if let Some(s) = p.downcast_ref::<&str>() {
        (*s).to_string()
    } else if let Some(s) = p.downcast_ref::<String>() {
        s.clone()
    } else {
        "panic".to_string()
    }
}

fn run_case(case: &Value) -> Vec<Value> {
    let mut div = Vec::new();
    let cfg = &case["cfg"];
    let b = |k: &str| cfg[k].as_bool().unwrap_or(false);
    let fault = case["fault"].as_str().unwrap_or("none");
    simk::reset();
    wakers::reset();
    events::clear();
    // The ring to attach to (not part of the attempt under test).
    let other = if b("attach") { Some(a10::Ring::new().expect("other ring")) } else { None };
    let other_sq = other.as_ref().map(a10::Ring::sq);
    let other_fd = simk::kernel().rings.keys().next().copied().unwrap_or(0);
    alloc::begin();
    let (maps0, unmaps0, setups0) = {
        let mut k = simk::kernel();
        k.plan.fail = if fault == "setup" { Some(simk::ENOMEM) } else { None };
        k.plan.features = match fault {
            "feat2" => ALL_FEATURES & !2,
            "feat4" => ALL_FEATURES & !4,
            "feat8" => ALL_FEATURES & !8,
            "feat128" => ALL_FEATURES & !128,
            _ => ALL_FEATURES,
        };
        let calls = k.mmap_calls;
        k.fail_mmap_at = match fault {
            "mmap0" => Some((calls, simk::ENOMEM)),
            "mmap1" => Some((calls + 1, simk::ENOMEM)),
            "mmap2" => Some((calls + 2, simk::ENOMEM)),
            _ => None,
        };
        if fault == "register" {
            k.fail_register.insert(13, simk::ENOMEM);
        }
        (k.maps.len(), k.unmaps.len(), k.setups.len())
    };
    let sq = cfg["sq"].as_u64().unwrap_or(32) as u32;
    let cq = cfg["cq"].as_u64().unwrap_or(0) as u32;
    let result = catch_unwind(AssertUnwindSafe(|| {
        alloc::tracked(|| {
            let mut c = a10::Ring::config();
            c = if sq == 0 { c.with_maximum_queue_size() } else { c.with_submission_queue_size(sq) };
            if cq != 0 {
                c = c.with_completion_queue_size(cq);
            }
            if b("disabled") {
                c = c.disable();
            }
            if b("single") {
                c = c.single_issuer();
            }
            if b("defer") {
                c = c.defer_task_run();
            }
            if b("kthread") {
                c = c.with_kernel_thread();
            }
            if b("aff") {
                c = c.with_cpu_affinity(3);
            }
            if b("idle") {
                c = c.with_idle_timeout(Duration::from_millis(7));
            }
            if b("direct") {
                c = c.with_direct_descriptors(4);
            }
            if let Some(osq) = &other_sq {
                c = c.attach_queue(osq);
            }
            c.build()
        })
    }));
    // ---- what a10 asked the kernel for
    let (params, setup_ret) = {
        let k = simk::kernel();
        match k.setups.get(setups0) {
            Some((p, r)) => (Some(*p), *r),
            None => (None, 0),
        }
    };
    match params {
        None => div.push(json!({"field": "io_uring_setup not called", "expected": 1, "observed": 0})),
        Some(p) => {
            let exp_flags = case["flags"].as_u64().unwrap_or(0) as u32;
            let exp_sq = if sq == 0 { u32::MAX } else { sq };
            let checks: [(&str, u64, u64); 6] = [
                ("setup flags", u64::from(exp_flags), u64::from(p.flags)),
                ("sq_entries", u64::from(exp_sq), u64::from(p.sq_entries)),
                ("cq_entries", u64::from(cq), u64::from(p.cq_entries)),
                ("sq_thread_cpu", if b("aff") { 3 } else { 0 }, u64::from(p.sq_thread_cpu)),
                ("sq_thread_idle", if b("idle") { 7 } else { 0 }, u64::from(p.sq_thread_idle)),
                ("wq_fd", if b("attach") { other_fd as u64 } else { 0 }, u64::from(p.wq_fd)),
            ];
            for (field, e, o) in checks {
                if e != o {
                    div.push(json!({"field": field, "expected": e, "observed": o}));
                }
            }
        }
    }
    let expected_built = case["outcome"] == "Built";
    let ring_fd = if setup_ret >= 0 { setup_ret as i32 } else { -1 };
    match result {
        Err(p) => div.push(json!({"field": "build panicked", "expected": case["outcome"], "observed": panic_message(p)})),
        Ok(Err(e)) => {
            if expected_built {
                div.push(json!({"field": "outcome", "expected": "Built", "observed": format!("Err({e})")}));
            }
        }
        Ok(Ok(mut ring)) => {
            if !expected_built {
                div.push(json!({"field": "outcome", "expected": "Failed", "observed": "Ok(Ring)"}));
            }
            // The queues have the sizes the kernel granted: mapping lengths ...
            let (gsq, gcq) = (case["sq"].as_u64().unwrap_or(0) as usize, case["cq"].as_u64().unwrap_or(0) as usize);
            {
                let k = simk::kernel();
                let len_of = |off: i64| k.maps[maps0..].iter().find(|m| m.3 == off && m.2 == ring_fd).map(|m| m.1);
                let exp = [(simk::OFF_SQ_RING, 64 + gsq * 4), (simk::OFF_SQES, gsq * 64), (simk::OFF_CQ_RING, 64 + gcq * 16)];
                for (off, want) in exp {
                    if len_of(off) != Some(want) {
                        div.push(json!({"field": "mapping length", "expected": {"offset": off, "len": want}, "observed": len_of(off)}));
                    }
                }
            }
            // ... and behaviourally: exactly `gsq` submissions fit.
            if expected_built && gsq <= 32 {
                let fd = simk::kernel().alloc_fd();
                let afd = unsafe { a10::AsyncFd::from_raw_fd(fd, ring.sq()) };
                let waker = wakers::waker(0);
                let mut ctx = Context::from_waker(&waker);
                {
                    let mut futs = Vec::new();
                    for _ in 0..=gsq {
                        let mut f = Box::pin(afd.write(vec![1u8; 4]));
                        let _ = f.as_mut().poll(&mut ctx);
                        futs.push(f);
                    }
                    let pending = simk::kernel().rings.get(&ring_fd).map_or(0, |r| r.sq_pending());
                    if pending as usize != gsq {
                        div.push(json!({"field": "submissions that fit in the queue", "expected": gsq, "observed": pending}));
                    }
                    let _ = catch_unwind(AssertUnwindSafe(|| alloc::tracked(|| drop(futs))));
                }
                let _ = catch_unwind(AssertUnwindSafe(|| alloc::tracked(|| drop(afd))));
            }
            // A working ring: polling it does not fail (unless it starts disabled).
            if expected_built && !b("disabled") {
                if let Err(e) = ring.poll(Some(Duration::ZERO)) {
                    div.push(json!({"field": "Ring::poll on the built ring", "expected": "Ok", "observed": e.to_string()}));
                }
            }
            let _ = catch_unwind(AssertUnwindSafe(|| alloc::tracked(|| drop(ring))));
        }
    }
    // ---- nothing left behind (on success: after dropping the ring)
    {
        let k = simk::kernel();
        let maps = &k.maps[maps0.min(k.maps.len())..];
        let unmaps = &k.unmaps[unmaps0.min(k.unmaps.len())..];
        for (addr, len, _, off) in maps {
            let n = unmaps.iter().filter(|(a, l)| a == addr && l == len).count();
            if n != 1 {
                div.push(json!({"field": "mapping left behind / unmapped twice", "expected": 1, "observed": {"offset": off, "len": len, "unmapped": n}}));
            }
        }
        let known: BTreeSet<(usize, usize)> = maps.iter().map(|m| (m.0, m.1)).collect();
        for u in unmaps {
            if !known.contains(u) {
                div.push(json!({"field": "munmap of something that was not mapped", "expected": null, "observed": {"addr": u.0, "len": u.1}}));
            }
        }
    }
    if ring_fd >= 0 && unsafe { libc::fcntl(ring_fd, libc::F_GETFD) } != -1 {
        div.push(json!({"field": "ring descriptor left open", "expected": "closed", "observed": ring_fd}));
        unsafe { libc::close(ring_fd) };
    }
    drop(other_sq);
    drop(other);
    simk::forget_closed_rings();
    let (leaks, incidents) = alloc::end();
    if !leaks.is_empty() {
        div.push(json!({"field": "allocations never released", "expected": [], "observed": leaks.iter().map(|l| l.1).collect::<Vec<_>>()}));
    }
    for inc in incidents {
        div.push(json!({"field": "allocator incident", "expected": null, "observed": format!("{inc:?}")}));
    }
    div
}

fn main() {
    let args: Vec<String> = std::env::args().collect();
    let mut cases_path = String::new();
    let (mut from, mut to) = (0usize, usize::MAX);
    let mut out_path = String::new();
    let mut progress_path = String::new();
    let mut i = 1;
    while i < args.len() {
        let v = args.get(i + 1).cloned().unwrap_or_default();
        match args[i].as_str() {
            "--cases" | "--dir" => cases_path = v,
            "--from" => from = v.parse().unwrap(),
            "--to" => to = v.parse().unwrap(),
            "--out" => out_path = v,
            "--progress" => progress_path = v,
            "--replay-file" => cases_path = v,
            other => {
                eprintln!("unknown argument {other}");
                std::process::exit(2);
            }
        }
        i += 2;
    }
    let text = std::fs::read_to_string(&cases_path).expect("cases file");
    let cases: Vec<Value> = text.lines().filter(|l| !l.trim().is_empty()).map(|l| serde_json::from_str(l).unwrap()).collect();
    let mut out: Box<dyn std::io::Write> =
        if out_path.is_empty() { Box::new(std::io::stdout()) } else { Box::new(std::fs::File::create(&out_path).unwrap()) };
    std::panic::set_hook(Box::new(|_| {}));
    simk::install();
    events::install();
    let to = to.min(cases.len());
    let mut bad = 0;
    for (ci, case) in cases.iter().enumerate().take(to).skip(from) {
        if !progress_path.is_empty() {
            let mut raw = Vec::new();
            raw.extend_from_slice(&(ci as u64).to_le_bytes());
            raw.extend_from_slice(&0u64.to_le_bytes());
            let _ = std::fs::write(&progress_path, raw);
        }
        // A replay file wraps the case.
        let case = if case.get("case").is_some() { &case["case"] } else { case };
        let div = run_case(case);
        if !div.is_empty() {
            bad += 1;
            for d in div {
                let mut d = d;
                d["path"] = json!(ci);
                d["step"] = json!(0);
                d["tag"] = json!("C18");
                d["case"] = case.clone();
                writeln!(out, "{d}").unwrap();
            }
        }
    }
    if !progress_path.is_empty() {
        let mut raw = Vec::new();
        raw.extend_from_slice(&u64::MAX.to_le_bytes());
        raw.extend_from_slice(&0u64.to_le_bytes());
        let _ = std::fs::write(&progress_path, raw);
    }
    writeln!(out, "{}", json!({"summary": true, "paths": to.saturating_sub(from), "steps": to.saturating_sub(from), "diverged_paths": bad})).unwrap();
}

//! Replays behaviours of `spec/Ring.tla` (exported by TLC as covering paths)
//! against the real a10 crate running on the simulated kernel, comparing what
//! the implementation does with what the specification says after every action.
//!
//! usage: replay_ring --dir <acts+paths dir> --kinds 1=single,2=multi --sqn 2 --cqn 2
//!                    [--from N] [--to M] [--progress FILE] [--out FILE]
//!
//! Every divergence is written as one JSON line to --out; the process exit code
//! is 0 unless the arguments are wrong (divergences are data).

use std::collections::{BTreeMap, BTreeSet, VecDeque};
use std::future::Future;
use std::io::Write as _;
use std::panic::{AssertUnwindSafe, catch_unwind};
use std::pin::Pin;
use std::task::{Context, Poll};
use std::time::Duration;

use a10_verif_harness::simk::{self, BlockAction, Note};
use a10_verif_harness::{abi, alloc, events, wakers};
use serde_json::{Value, json};

const FAKE: i64 = simk::FAKE_FD_BASE as i64;

enum OpObj {
    Write(Pin<Box<a10::io::Write<'static, Vec<u8>>>>),
    SendZc(Pin<Box<a10::net::Send<'static, Vec<u8>>>>),
    MAccept(Pin<Box<a10::net::MultishotAccept<'static>>>),
    Accept(Pin<Box<a10::net::Accept<'static, a10::net::NoAddress>>>),
    PoolRead(Pin<Box<a10::io::Read<'static, a10::io::ReadBuf>>>),
    PoolMRead(Pin<Box<a10::io::MultishotRead<'static>>>),
}

/// A resource handed to the caller by a result.
#[allow(dead_code)]
enum ResObj {
    Fd(a10::AsyncFd),
    Buf(a10::io::ReadBuf),
}

// Deliberately not a power of two.
const BUF_SIZE: u32 = 1000;

#[derive(Debug, Clone, PartialEq)]
enum Ret {
    Pending,
    Ready(i64),
    Err(i64),
    End,
    Panic(String),
}

impl Ret {
    fn to_json(&self) -> Value {
        match self {
            Ret::Pending => json!(["pending"]),
            Ret::Ready(v) => json!(["ready", v]),
            Ret::Err(v) => json!(["err", v]),
            Ret::End => json!(["end"]),
            Ret::Panic(m) => json!(["panic", m]),
        }
    }
}

fn fd_number(fd: &a10::AsyncFd) -> i64 {
    use std::os::fd::AsRawFd;
    match fd.as_fd() {
        Some(f) => i64::from(f.as_raw_fd()),
        // Direct descriptors do not expose their index; Debug prints it.
        None => {
            let s = format!("{fd:?}");
            s.split("fd: ").nth(1).and_then(|r| r.split(',').next()).and_then(|n| n.trim().parse().ok()).unwrap_or(-1)
        }
    }
}

struct World {
    ring: Option<a10::Ring>,
    sq: Option<a10::SubmissionQueue>,
    rfd: i32,
    base: *mut a10::AsyncFd,
    ops: BTreeMap<u64, OpObj>,
    addr: BTreeMap<u64, u64>,  // op id -> address of its state
    op_of: BTreeMap<u64, u64>, // address -> op id
    held: Vec<a10::AsyncFd>,
    kinds: BTreeMap<u64, String>,
    /// Allocation serial numbers spanned by the creation of each operation
    /// (its state and the resources it owns).
    created: BTreeMap<u64, (usize, usize)>,
    /// The first submission entry of each operation (for the restart comparison).
    first_sqe: BTreeMap<u64, abi::Sqe>,
    /// Operations that have been re-issued at least once.
    restarted: BTreeSet<u64>,
    /// Resources the caller owns, by result value.
    owned: BTreeMap<i64, ResObj>,
    track_res: bool,
    direct: bool,
    base_id: i32,
    pool: Option<a10::io::ReadBufPool>,
    pool_group: u16,
    pool_base: u64,
    nbufs: u16,
}

fn panic_message(p: Box<dyn std::any::Any + Send>) -> String {
    if let Some(s) = p.downcast_ref::<&str>() {
        (*s).to_string()
    } else if let Some(s) = p.downcast_ref::<String>() {
        s.clone()
    } else {
        "panic".to_string()
    }
}

impl World {
    #[allow(clippy::too_many_arguments)]
    fn new(kinds: &BTreeMap<u64, String>, sqn: u32, cqn: u32, sq_init: u32, cq_init: u32, track_res: bool, direct: bool, nbufs: u16) -> World {
        simk::reset();
        wakers::reset();
        events::clear();
        {
            let mut k = simk::kernel();
            k.plan.sq_init = sq_init;
            k.plan.cq_init = cq_init;
        }
        alloc::begin();
        let mut ring = alloc::tracked(|| {
            let config = a10::Ring::config().with_submission_queue_size(sqn).with_completion_queue_size(cqn);
            let config = if direct { config.with_direct_descriptors(2048) } else { config };
            config.build()
        })
        .expect("building a ring on the simulated kernel");
        let sq = ring.sq();
        let rfd = *simk::kernel().rings.keys().next().unwrap();
        let fd = simk::kernel().alloc_fd();
        let mut base_fd = unsafe { a10::AsyncFd::from_raw_fd(fd, sq.clone()) };
        let mut base_id = fd;
        if direct {
            // Turn the listener into a direct descriptor (slot 2000) through the
            // crate's own conversion operation.
            let waker = wakers::waker(15);
            let mut ctx = Context::from_waker(&waker);
            let dfd = {
                let mut conv = Box::pin(base_fd.to_direct_descriptor());
                assert!(conv.as_mut().poll(&mut ctx).is_pending());
                ring.poll(Some(Duration::ZERO)).expect("poll");
                {
                    let mut k = simk::kernel();
                    let req = k.rings[&rfd].inflight[0].clone();
                    unsafe { (req.sqe.addr() as *mut i32).write(2000) };
                    k.rings.get_mut(&rfd).unwrap().files.as_mut().unwrap()[2000] = true;
                    k.complete(rfd, req.sqe.user_data(), 1, 0);
                }
                ring.poll(Some(Duration::ZERO)).expect("poll");
                match conv.as_mut().poll(&mut ctx) {
                    Poll::Ready(Ok(dfd)) => dfd,
                    other => panic!("to_direct_descriptor on the simulated kernel: {other:?}"),
                }
            };
            drop(base_fd); // queues a close of the regular descriptor
            ring.poll(Some(Duration::ZERO)).expect("poll");
            base_fd = dfd;
            base_id = 2000;
            wakers::reset();
        }
        let base = Box::into_raw(Box::new(base_fd));
        events::clear();
        let (mut pool, mut pool_group, mut pool_base) = (None, 0u16, 0u64);
        if nbufs > 0 {
            let p = alloc::tracked(|| a10::io::ReadBufPool::new(sq.clone(), nbufs, BUF_SIZE)).expect("pool");
            let evs = events::take();
            let new = evs.iter().find(|e| e.name == "PoolNew").expect("PoolNew event");
            pool_group = new.f[0] as u16;
            pool_base = new.f[3];
            pool = Some(p);
        }
        simk::kernel().take_notes();
        events::clear();
        World {
            ring: Some(ring),
            sq: Some(sq),
            rfd,
            base,
            ops: BTreeMap::new(),
            addr: BTreeMap::new(),
            op_of: BTreeMap::new(),
            held: Vec::new(),
            kinds: kinds.clone(),
            created: BTreeMap::new(),
            first_sqe: BTreeMap::new(),
            restarted: BTreeSet::new(),
            owned: BTreeMap::new(),
            track_res,
            direct,
            base_id,
            pool,
            pool_group,
            pool_base,
            nbufs,
        }
    }

    fn base(&self) -> &'static a10::AsyncFd {
        unsafe { &*self.base }
    }

    fn create(&mut self, o: u64) -> Result<(), String> {
        events::clear();
        let kind = self.kinds.get(&o).cloned().unwrap_or_default();
        let base = self.base();
        let serial0 = alloc::current_serial();
        let obj = alloc::tracked(|| match kind.as_str() {
            "single" => OpObj::Write(Box::pin(base.write(vec![0x5a; 8]))),
            "twostep" => OpObj::SendZc(Box::pin(base.send(vec![0x6b; 8]).zc())),
            "multi" => OpObj::MAccept(Box::pin(base.multishot_accept())),
            "fdsingle" => OpObj::Accept(Box::pin(base.accept::<a10::net::NoAddress>())),
            "poolsingle" => OpObj::PoolRead(Box::pin(base.read(self.pool.as_ref().expect("pool").get()))),
            "poolmulti" => OpObj::PoolMRead(Box::pin(base.multishot_read(self.pool.as_ref().expect("pool").clone()))),
            other => panic!("unknown kind {other}"),
        });
        let evs = events::take();
        let new = evs.iter().find(|e| e.name == "OpNew").ok_or("no OpNew event")?;
        self.addr.insert(o, new.f[0]);
        self.op_of.insert(new.f[0], o);
        self.ops.insert(o, obj);
        self.created.insert(o, (serial0, alloc::current_serial()));
        Ok(())
    }

    fn poll(&mut self, o: u64, w: usize) -> Ret {
        let waker = wakers::waker(w);
        let mut ctx = Context::from_waker(&waker);
        let is_fd = matches!(self.kinds[&o].as_str(), "multi" | "fdsingle");
        let Some(obj) = self.ops.get_mut(&o) else { return Ret::Panic("no such op".into()) };
        let mut held = None;
        let mut held_buf = None;
        let result = catch_unwind(AssertUnwindSafe(|| {
            alloc::tracked(|| match obj {
                OpObj::Write(f) => match f.as_mut().poll(&mut ctx) {
                    Poll::Pending => Ret::Pending,
                    Poll::Ready(Ok(n)) => Ret::Ready(n as i64),
                    Poll::Ready(Err(e)) => Ret::Err(-i64::from(e.raw_os_error().unwrap_or(0))),
                },
                OpObj::SendZc(f) => match f.as_mut().poll(&mut ctx) {
                    Poll::Pending => Ret::Pending,
                    Poll::Ready(Ok(n)) => Ret::Ready(n as i64),
                    Poll::Ready(Err(e)) => Ret::Err(-i64::from(e.raw_os_error().unwrap_or(0))),
                },
                OpObj::MAccept(f) => match f.as_mut().poll_next(&mut ctx) {
                    Poll::Pending => Ret::Pending,
                    Poll::Ready(None) => Ret::End,
                    Poll::Ready(Some(Ok(fd))) => {
                        let n = fd_number(&fd);
                        held = Some(fd);
                        Ret::Ready(n)
                    }
                    Poll::Ready(Some(Err(e))) => Ret::Err(-i64::from(e.raw_os_error().unwrap_or(0))),
                },
                OpObj::Accept(f) => match f.as_mut().poll(&mut ctx) {
                    Poll::Pending => Ret::Pending,
                    Poll::Ready(Ok((fd, _))) => {
                        let n = fd_number(&fd);
                        held = Some(fd);
                        Ret::Ready(n)
                    }
                    Poll::Ready(Err(e)) => Ret::Err(-i64::from(e.raw_os_error().unwrap_or(0))),
                },
                OpObj::PoolRead(f) => match f.as_mut().poll(&mut ctx) {
                    Poll::Pending => Ret::Pending,
                    Poll::Ready(Ok(buf)) => {
                        let n = buf.len() as i64;
                        held_buf = Some(buf);
                        Ret::Ready(n)
                    }
                    Poll::Ready(Err(e)) => Ret::Err(-i64::from(e.raw_os_error().unwrap_or(0))),
                },
                OpObj::PoolMRead(f) => match f.as_mut().poll_next(&mut ctx) {
                    Poll::Pending => Ret::Pending,
                    Poll::Ready(None) => Ret::End,
                    Poll::Ready(Some(Ok(buf))) => {
                        let n = buf.len() as i64;
                        held_buf = Some(buf);
                        Ret::Ready(n)
                    }
                    Poll::Ready(Some(Err(e))) => Ret::Err(-i64::from(e.raw_os_error().unwrap_or(0))),
                },
            })
        }));
        drop(waker);
        let result = match result {
            Ok(Ret::Ready(n)) if is_fd => Ret::Ready(if self.direct { n } else { n - FAKE }),
            Ok(r) => r,
            Err(p) => Ret::Panic(panic_message(p)),
        };
        if let Some(fd) = held {
            if self.track_res {
                if let Ret::Ready(v) = &result {
                    // Kind of the accepted descriptor must be the listener's.
                    self.owned.insert(*v, ResObj::Fd(fd));
                }
            } else {
                self.held.push(fd);
            }
        }
        if let Some(buf) = held_buf {
            if let Ret::Ready(v) = &result {
                self.owned.insert(*v, ResObj::Buf(buf));
            }
        }
        result
    }

    /// Drop the resource with value `v`.
    fn drop_res(&mut self, v: i64) -> Result<(), String> {
        let obj = self.owned.remove(&v).ok_or("no such resource")?;
        catch_unwind(AssertUnwindSafe(|| alloc::tracked(|| drop(obj)))).map_err(panic_message)
    }

    /// Descriptors (by result value) the simulated kernel considers open.
    fn open_set(&self) -> BTreeSet<i64> {
        let k = simk::kernel();
        if self.direct {
            k.rings.get(&self.rfd).and_then(|r| r.files.as_ref()).map_or_else(BTreeSet::new, |f| {
                f.iter().enumerate().filter(|(i, used)| **used && *i as i32 != self.base_id).map(|(i, _)| i as i64).collect()
            })
        } else {
            k.open_fds.iter().filter(|fd| **fd != self.base_id).map(|fd| i64::from(*fd) - FAKE).collect()
        }
    }

    /// Buffer ids currently offered to the kernel, in ring order.
    fn offered(&self) -> Vec<u64> {
        simk::kernel().offered_buffers(self.rfd, self.pool_group).iter().map(|(bid, _)| u64::from(*bid)).collect()
    }

    fn drop_op(&mut self, o: u64) -> Result<(), String> {
        let obj = self.ops.remove(&o).ok_or("no such op")?;
        catch_unwind(AssertUnwindSafe(|| alloc::tracked(|| drop(obj)))).map_err(panic_message)
    }

    /// Entries a10 published since `tail_before`, decoded to spec entries.
    fn new_entries(&self, tail_before: u32) -> Vec<Value> {
        let k = simk::kernel();
        let Some(ring) = k.rings.get(&self.rfd) else { return Vec::new() };
        let tail = ring.sq_tail();
        let mut out = Vec::new();
        let mut t = tail_before;
        while t != tail {
            let sqe = ring.read_sqe(t);
            out.push(self.entry_json(&sqe));
            t = t.wrapping_add(1);
        }
        out
    }

    fn entry_json(&self, sqe: &abi::Sqe) -> Value {
        let ud = sqe.user_data();
        match sqe.opcode() {
            abi::OP_ASYNC_CANCEL => {
                let target = sqe.addr();
                match self.op_of.get(&(target & !1)) {
                    Some(o) if self.expected_ud(*o) == target && ud == 2 => json!({"t": "cancel", "o": o}),
                    Some(o) => json!({"t": "cancel?", "o": o, "target": target, "ud": ud}),
                    None => json!({"t": "cancel?", "o": 0, "target": target, "ud": ud}),
                }
            }
            abi::OP_CLOSE if ud == 3 => {
                // Regular: fd = descriptor, file_index = 0.  Direct: file_index = slot + 1.
                let (v, ok) = if self.direct {
                    (i64::from(sqe.file_index()) - 1, sqe.file_index() != 0 && sqe.fd() == 0)
                } else {
                    (i64::from(sqe.fd()) - FAKE, sqe.file_index() == 0)
                };
                let skip = sqe.flags() & simk::SQE_CQE_SKIP_SUCCESS != 0;
                if ok && skip { json!({"t": "close", "o": v}) } else { json!({"t": "close?", "o": v, "fd": sqe.fd(), "index": sqe.file_index(), "flags": sqe.flags()}) }
            }
            abi::OP_MSG_RING => json!({"t": "msg"}),
            _ => match self.op_of.get(&(ud & !1)) {
                Some(o) if self.expected_ud(*o) == ud => json!({"t": "op", "o": o}),
                Some(o) => json!({"t": "op?", "o": o, "ud": ud}),
                None => json!({"t": "op?", "o": 0, "ud": ud}),
            },
        }
    }

    /// The `user_data` the operation must use: its state address, low bit set
    /// for multishot operations.
    fn expected_ud(&self, o: u64) -> u64 {
        let addr = self.addr[&o];
        if matches!(self.kinds[&o].as_str(), "multi" | "poolmulti") { addr | 1 } else { addr }
    }

    fn sq_tail(&self) -> u32 {
        simk::kernel().rings.get(&self.rfd).map_or(0, |r| r.sq_tail())
    }

    /// True if the entry of `o` now being consumed is a re-issue (the operation
    /// was submitted before).
    fn restart_pending(&self, o: u64) -> bool {
        self.restarted.contains(&o)
    }

    fn post_params(&self) -> PostParams {
        PostParams { rfd: self.rfd, direct: self.direct, group: self.pool_group }
    }

    /// Tear everything down; returns (leaks, incidents, notes).
    fn finish(mut self) -> (Vec<(usize, usize, usize)>, Vec<alloc::Incident>, Vec<Note>, Option<String>) {
        simk::set_on_block(None);
        let result = catch_unwind(AssertUnwindSafe(|| {
            alloc::tracked(|| {
                let ops = std::mem::take(&mut self.ops);
                drop(ops);
                drop(unsafe { Box::from_raw(self.base) });
                drop(self.ring.take());
                drop(std::mem::take(&mut self.held));
                drop(std::mem::take(&mut self.owned));
                drop(self.pool.take());
                drop(self.sq.take());
            })
        }));
        let notes = simk::kernel().take_notes();
        // Mapping balance: everything a10 mapped from the ring descriptor was
        // unmapped exactly once with the same length, and the descriptor is closed.
        let mut problems = Vec::new();
        {
            let k = simk::kernel();
            for (addr, len, fd, off) in &k.maps {
                let n = k.unmaps.iter().filter(|(a, l)| a == addr && l == len).count();
                if n != 1 {
                    let near: Vec<_> = k.unmaps.iter().filter(|(a, _)| a == addr).collect();
                    problems.push(format!("mapping of ring fd {fd} offset {off:#x} ({len} bytes) unmapped {n} times (unmaps at that address: {near:?})"));
                }
            }
            for (addr, len) in &k.unmaps {
                if !k.maps.iter().any(|(a, l, _, _)| a == addr && l == len) {
                    problems.push(format!("munmap({addr:#x}, {len}) does not match a mapping"));
                }
            }
        }
        if unsafe { libc::fcntl(self.rfd, libc::F_GETFD) } != -1 {
            problems.push(format!("ring descriptor {} still open after every handle was dropped", self.rfd));
            unsafe { libc::close(self.rfd) };
        }
        simk::forget_closed_rings();
        let (leaks, incidents) = alloc::end();
        let mut panic = result.err().map(panic_message);
        if !problems.is_empty() {
            panic = Some(format!("{}{}", panic.map(|p| p + "; ").unwrap_or_default(), problems.join("; ")));
        }
        (leaks, incidents, notes, panic)
    }
}

/// Divergences detected synchronously inside a10 (before the action returns),
/// written to the output at once so they survive a later hang or crash.
static EARLY: std::sync::Mutex<Vec<Value>> = std::sync::Mutex::new(Vec::new());
static EARLY_OUT: std::sync::Mutex<Option<std::fs::File>> = std::sync::Mutex::new(None);
static CURRENT: std::sync::Mutex<(usize, usize)> = std::sync::Mutex::new((0, 0));

/// Called for every a10 event while a10 is still running.
fn observer(ev: &events::Ev) {
    if ev.name == "OpFree" {
        // The operation state is being freed: the kernel must not hold a request
        // (consumed or merely published) whose user_data points at it.
        let addr = ev.f[0];
        let k = simk::kernel();
        for ring in k.rings.values() {
            let mut held = ring.inflight.iter().any(|r| r.sqe.user_data() & !1 == addr);
            let mut h = ring.sq_head();
            let t = ring.sq_tail();
            while h != t {
                let sqe = ring.read_sqe(h);
                if sqe.user_data() > 3 && sqe.user_data() & !1 == addr {
                    held = true;
                }
                h = h.wrapping_add(1);
            }
            if held {
                let (path, step) = *CURRENT.lock().unwrap_or_else(|e| e.into_inner());
                let rec = json!({"path": path, "step": step, "tag": "C01", "early": true,
                    "field": "operation state freed while the kernel still holds its request",
                    "expected": "kept until the final completion is posted", "observed": {"state": addr}});
                if let Some(f) = EARLY_OUT.lock().unwrap_or_else(|e| e.into_inner()).as_mut() {
                    let _ = writeln!(f, "{rec}");
                }
                EARLY.lock().unwrap_or_else(|e| e.into_inner()).push(rec);
            }
        }
    }
}

#[derive(Clone)]
struct PostParams {
    rfd: i32,
    direct: bool,
    group: u16,
}

/// What the simulated kernel posts for the completion `cqe` of the model: for
/// descriptor kinds it issues the descriptor, for pool kinds it selects the next
/// provided buffer and fills it.
fn kernel_result(p: &PostParams, kind: &str, cqe: &Value) -> (i32, u32) {
    let mut val = cqe[1].as_i64().unwrap_or(0);
    let mut flags = 0;
    if cqe[2].as_i64() == Some(1) {
        flags |= simk::CQE_F_MORE;
    }
    if cqe[3].as_i64() == Some(1) {
        flags |= simk::CQE_F_NOTIF;
    }
    if val > 0 {
        match kind {
            "multi" | "fdsingle" => {
                let mut k = simk::kernel();
                if p.direct {
                    if let Some(files) = k.rings.get_mut(&p.rfd).and_then(|r| r.files.as_mut()) {
                        files[val as usize] = true;
                    }
                } else {
                    val += FAKE;
                    k.open_fds.insert(val as i32);
                }
            }
            "poolsingle" | "poolmulti" => {
                let data = vec![(val & 0xff) as u8; val as usize];
                match simk::kernel().take_buffer(p.rfd, p.group, &data) {
                    Ok((f, n)) => {
                        flags |= f;
                        val = i64::from(n);
                    }
                    Err(e) => val = i64::from(e),
                }
            }
            _ => {}
        }
    }
    (val as i32, flags)
}

struct Divergence {
    tag: &'static str,
    field: &'static str,
    expected: Value,
    observed: Value,
}

fn set_of(v: &Value) -> BTreeSet<u64> {
    v.as_array().map(|a| a.iter().filter_map(Value::as_u64).collect()).unwrap_or_default()
}

fn canon_entries(v: &Value) -> Vec<Value> {
    v.as_array()
        .map(|a| a.iter().map(|e| json!({"t": e["t"], "o": e["o"]})).collect())
        .unwrap_or_default()
}

/// One decision per cancel entry currently published, in order.
fn cancel_decisions(world: &World, act: &Value) -> VecDeque<bool> {
    let kern = simk::kernel();
    let mut d = VecDeque::new();
    if let Some(ring) = kern.rings.get(&world.rfd) {
        let mut h = ring.sq_head();
        let t = ring.sq_tail();
        let mut i = 0;
        while h != t {
            let sqe = ring.read_sqe(h);
            if sqe.opcode() == abi::OP_ASYNC_CANCEL {
                d.push_back(act["ch"][i].as_bool().unwrap_or(true));
            }
            h = h.wrapping_add(1);
            i += 1;
        }
    }
    d
}

/// Execute one action; returns the divergences (earliest first).
fn step(world: &mut World, act: &Value, kernel_access: &mut BTreeSet<u64>) -> Vec<Divergence> {
    let mut div = Vec::new();
    let name = act["name"].as_str().unwrap_or("");
    let o = act["o"].as_u64().unwrap_or(0);
    let w = act["w"].as_u64().unwrap_or(0) as usize;
    let counts_before = wakers::counts();
    let tail_before = world.sq_tail();
    events::clear();
    simk::kernel().take_notes();
    let mut observed_ret: Option<Value> = None;
    let mut ring_panic = None;

    match name {
        "Create" => {
            if let Err(e) = world.create(o) {
                div.push(Divergence { tag: "harness", field: "create", expected: json!(null), observed: json!(e) });
            }
        }
        "Poll" => {
            let r = world.poll(o, w);
            observed_ret = Some(r.to_json());
        }
        "Drop" => {
            if let Err(e) = world.drop_op(o) {
                div.push(Divergence { tag: "C06", field: "drop panicked", expected: json!(null), observed: json!(e) });
            }
        }
        "DropRing" => {
            let decisions = cancel_decisions(world, act);
            simk::kernel().cancel_decisions = decisions;
            simk::set_on_block(None);
            if let Some(ring) = world.ring.take() {
                if let Err(p) = catch_unwind(AssertUnwindSafe(|| alloc::tracked(|| drop(ring)))) {
                    div.push(Divergence { tag: "C12", field: "dropping the Ring panicked", expected: json!(null), observed: json!(panic_message(p)) });
                }
            }
            let left: Vec<u64> = simk::kernel().rings.get(&world.rfd).map_or_else(Vec::new, |r| r.inflight.iter().map(|q| q.sqe.user_data()).collect());
            if !left.is_empty() {
                div.push(Divergence { tag: "C12", field: "requests still in flight after the Ring was dropped", expected: json!([]), observed: json!(left) });
            }
        }
        "DropRes" => {
            if let Err(e) = world.drop_res(o as i64) {
                div.push(Divergence { tag: "harness", field: "drop_res", expected: json!(null), observed: json!(e) });
            }
        }
        "Wake" => {
            if let Some(sq) = &world.sq {
                alloc::tracked(|| sq.wake());
            }
        }
        "KPost" => {
            let cqe = &act["cqe"];
            let ud = world.expected_ud(o);
            let (val, flags) = kernel_result(&world.post_params(), &world.kinds[&o], cqe);
            let ok = simk::kernel().complete(world.rfd, ud, val, flags);
            if !ok {
                // The specification says the kernel holds this request; the simulated
                // kernel never received it (or received it under another user_data).
                div.push(Divergence {
                    tag: "C02",
                    field: "request not in flight under its own user_data",
                    expected: json!({"op": o, "user_data": ud}),
                    observed: json!(format!("{:?}", simk::kernel().rings.get(&world.rfd).map(|r| r.inflight.iter().map(|q| q.sqe.user_data()).collect::<Vec<_>>()))),
                });
            }
        }
        "RingPoll" => {
            let k = act["k"].as_str().unwrap_or("");
            let tmo_zero = k.starts_with("zero");
            let decisions = cancel_decisions(world, act);
            simk::kernel().cancel_decisions = decisions;
            let blocks = act["blocks"].as_bool().unwrap_or(false);
            let block_op = if blocks { o } else { 0 };
            let cqe = act["cqe"].clone();
            let ud = if block_op != 0 { world.expected_ud(block_op) } else { 0 };
            let block_kind = if block_op != 0 { world.kinds[&block_op].clone() } else { String::new() };
            let params = world.post_params();
            let rfd = world.rfd;
            let unexpected_block = std::sync::Arc::new(std::sync::atomic::AtomicBool::new(false));
            let ub = unexpected_block.clone();
            let mut posted = false;
            simk::set_on_block(Some(Box::new(move |info| {
                if info.timeout.is_some() {
                    return BlockAction::Timeout;
                }
                if !blocks {
                    ub.store(true, std::sync::atomic::Ordering::SeqCst);
                    return BlockAction::Deadlock;
                }
                if block_op == 0 || posted {
                    return BlockAction::Deadlock;
                }
                posted = true;
                let (val, flags) = kernel_result(&params, &block_kind, &cqe);
                if simk::kernel().complete(rfd, ud, val, flags) {
                    BlockAction::Retry
                } else {
                    BlockAction::Deadlock
                }
            })));
            let timeout = if tmo_zero { Some(Duration::ZERO) } else { None };
            let ring = world.ring.as_mut().unwrap();
            let result = catch_unwind(AssertUnwindSafe(|| alloc::tracked(|| ring.poll(timeout))));
            simk::set_on_block(None);
            let r = match result {
                Ok(Ok(())) => json!(["ok"]),
                Ok(Err(e)) if e.raw_os_error() == Some(simk::EDEADLK) => {
                    if unexpected_block.load(std::sync::atomic::Ordering::SeqCst) {
                        json!(["blocked_unexpectedly"])
                    } else {
                        json!(["blocked_forever"])
                    }
                }
                Ok(Err(e)) => json!(["err", e.to_string()]),
                Err(p) => {
                    let m = panic_message(p);
                    ring_panic = Some(m.clone());
                    json!(["panic", m])
                }
            };
            observed_ret = Some(r);
        }
        other => {
            div.push(Divergence { tag: "harness", field: "unknown action", expected: json!(other), observed: json!(null) });
        }
    }

    // ---- observations ----------------------------------------------------
    let evs = events::take();
    let notes = simk::kernel().take_notes();
    let incidents = alloc::incidents();

    // Memory the kernel may still touch was freed / is dangling: C01.
    for inc in &incidents {
        match inc {
            alloc::Incident::FreePinned { ptr, size, pin } => div.push(Divergence {
                tag: "C01",
                field: "memory of an in-flight request freed",
                expected: json!("allocated until the final completion"),
                observed: json!({"block": ptr, "size": size, "pinned": pin.addr, "len": pin.len}),
            }),
            alloc::Incident::DoubleFree { ptr, size } => div.push(Divergence {
                tag: "C06",
                field: "double free",
                expected: json!("freed once"),
                observed: json!({"block": ptr, "size": size}),
            }),
        }
    }
    for note in &notes {
        if let Note::Dangling { user_data, addr, len, when, .. } = note {
            let reissued = world.op_of.get(&(user_data & !1)).is_some_and(|o| world.first_sqe.contains_key(o) && *when == "consume" && world.restart_pending(*o));
            div.push(Divergence {
                tag: if reissued { "C09" } else { "C01" },
                field: "kernel handed a pointer into freed memory",
                expected: json!("allocated"),
                observed: json!({"user_data": user_data, "addr": addr, "len": len, "when": when}),
            });
        }
    }

    // Return value.
    if let Some(obs) = &observed_ret {
        let exp = &act["ret"];
        if obs != exp {
            let tag = match name {
                "Poll" => {
                    let surfaced = obs[0] == "err" && matches!(obs[1].as_i64(), Some(-4) | Some(-125));
                    if surfaced && exp[0] != "err" { "C09" } else { "C02" }
                }
                _ => {
                    if obs[0] == "blocked_unexpectedly" || obs[0] == "blocked_forever" {
                        if act["parked"].as_bool() == Some(true) { "C03" } else { "C05" }
                    } else if obs[0] == "panic" {
                        "C05"
                    } else {
                        "C05"
                    }
                }
            };
            div.push(Divergence { tag, field: "return value", expected: exp.clone(), observed: obs.clone() });
        }
    }
    let _ = ring_panic;

    // Submissions published by this action.
    let subm = world.new_entries(tail_before);
    let exp_subm = canon_entries(&act["subm"]);
    let obs_subm: Vec<Value> = subm.iter().map(|e| json!({"t": e["t"], "o": e["o"]})).collect();
    if name != "RingPoll" && name != "KPost" && name != "DropRing" && obs_subm != exp_subm {
        let reissue = name == "Poll"
            && exp_subm.is_empty()
            && subm.iter().any(|e| e["t"].as_str().is_some_and(|t| t.starts_with("op")) && e["o"].as_u64().is_some_and(|o| world.first_sqe.contains_key(&o)));
        let tag = if reissue {
            // The operation was issued again although the specification does not
            // restart it here.
            "C09"
        } else if name == "DropRes" {
            "C07"
        } else if name == "Drop" || obs_subm.iter().chain(exp_subm.iter()).any(|e| e["t"].as_str().is_some_and(|t| t.starts_with("cancel"))) {
            "C06"
        } else {
            "C02"
        };
        div.push(Divergence { tag, field: "submissions published", expected: json!(exp_subm), observed: json!(subm) });
    }

    // C09: a re-issued request is byte for byte the first one (same arguments,
    // same resources at the same addresses).
    {
        let k = simk::kernel();
        if let Some(ring) = k.rings.get(&world.rfd) {
            let tail = ring.sq_tail();
            let mut t = tail_before;
            while t != tail {
                let sqe = ring.read_sqe(t);
                t = t.wrapping_add(1);
                if sqe.user_data() <= 3 || sqe.opcode() == abi::OP_ASYNC_CANCEL {
                    continue;
                }
                let Some(o) = world.op_of.get(&(sqe.user_data() & !1)).copied() else { continue };
                match world.first_sqe.get(&o) {
                    None => {
                        world.first_sqe.insert(o, sqe);
                    }
                    Some(first) => {
                        world.restarted.insert(o);
                        if *first != sqe {
                            div.push(Divergence { tag: "C09", field: "re-issued request differs from the first one", expected: json!(format!("{first:?}")), observed: json!(format!("{sqe:?}")) });
                        }
                    }
                }
            }
        }
    }

    // Wake-ups: every waker the specification says is woken must have been invoked.
    let counts_after = wakers::counts();
    let woken: BTreeSet<u64> =
        (0..wakers::MAX_WAKERS).filter(|i| counts_after[*i] > counts_before[*i]).map(|i| i as u64).collect();
    let exp_wakes = set_of(&act["wakes"]);
    if !exp_wakes.is_subset(&woken) {
        div.push(Divergence { tag: "C03", field: "wakers invoked", expected: json!(exp_wakes), observed: json!(woken) });
    }

    // Reclamation of operation state.
    let mut freed: BTreeSet<u64> = BTreeSet::new();
    for ev in &evs {
        if ev.name == "OpFree" {
            match world.op_of.get(&ev.f[0]) {
                Some(o) => {
                    if !freed.insert(*o) {
                        div.push(Divergence { tag: "C06", field: "operation state freed twice", expected: json!(null), observed: json!(o) });
                    }
                }
                None => {}
            }
        }
    }
    let exp_frees = set_of(&act["frees"]);
    for o in freed.difference(&exp_frees) {
        let tag = if kernel_access.contains(o) { "C01" } else { "C06" };
        div.push(Divergence { tag, field: "operation state freed", expected: json!(exp_frees), observed: json!(o) });
    }
    for o in exp_frees.difference(&freed) {
        div.push(Divergence { tag: "C06", field: "operation state not reclaimed", expected: json!(o), observed: json!(freed) });
    }
    for o in &freed {
        if let Some(a) = world.addr.get(o) {
            // The address may be reused by a later operation.
            world.op_of.remove(a);
        }
    }

    // Descriptors: every close must hit an open descriptor of the right kind.
    for note in &notes {
        if let Note::Close { fd, direct, via, ok, .. } = note {
            if world.track_res && (!*ok || *direct != world.direct) {
                div.push(Divergence {
                    tag: "C07",
                    field: "close of a descriptor that is not open / of the wrong kind",
                    expected: json!({"direct": world.direct}),
                    observed: json!({"fd": fd, "direct": direct, "via": via, "ok": ok}),
                });
            }
        }
    }
    if world.track_res {
        if let Some(exp) = act.get("open").and_then(Value::as_array) {
            let exp: BTreeSet<i64> = exp.iter().filter_map(Value::as_i64).collect();
            let obs = world.open_set();
            if exp != obs {
                div.push(Divergence { tag: "C07", field: "descriptors open in the kernel", expected: json!(exp), observed: json!(obs) });
            }
        }
        if name == "DropRes" && act["k"] == "fd" {
            let sync = notes.iter().any(|n| matches!(n, Note::Close { via, .. } if *via != "ring"));
            if sync != act["sync"].as_bool().unwrap_or(false) {
                div.push(Divergence { tag: "C07", field: "synchronous close", expected: act["sync"].clone(), observed: json!(sync) });
            }
        }
    }
    // Pool buffers: the kernel's view of the buffer ring.
    if world.nbufs > 0 {
        if let Some(exp) = act.get("bring").and_then(Value::as_array) {
            let exp: Vec<u64> = exp.iter().filter_map(Value::as_u64).collect();
            let obs = world.offered();
            if exp != obs {
                div.push(Divergence { tag: "C08", field: "buffers offered to the kernel", expected: json!(exp), observed: json!(obs) });
            }
        }
        // Every ReadBuf the caller holds lies in its own slot and still has its bytes.
        let mut slots = BTreeSet::new();
        for (v, obj) in &world.owned {
            if let ResObj::Buf(buf) = obj {
                let ptr = buf.as_slice().as_ptr() as u64;
                let slot = (ptr.wrapping_sub(world.pool_base)) / u64::from(BUF_SIZE);
                let intact = buf.len() as i64 == *v && buf.iter().all(|b| *b == (*v & 0xff) as u8);
                if !slots.insert(slot) || slot >= u64::from(world.nbufs) || !intact {
                    div.push(Divergence { tag: "C08", field: "ReadBuf contents / slot", expected: json!({"len": v}), observed: json!({"slot": slot, "len": buf.len(), "intact": intact}) });
                }
            }
        }
    }

    // Track which operations the kernel may access (for attribution only).
    for e in &subm {
        if e["t"] == "op" || e["t"] == "op?" {
            if let Some(o) = e["o"].as_u64() {
                kernel_access.insert(o);
            }
        }
    }
    if name == "KPost" || (name == "RingPoll" && act["blocks"].as_bool() == Some(true)) {
        if act["cqe"][2].as_i64() == Some(0) {
            kernel_access.remove(&o);
        }
    }
    for note in &notes {
        if let Note::Cancel { target, outcome: 0, .. } = note {
            if let Some(o) = world.op_of.get(&(target & !1)) {
                kernel_access.remove(o);
            }
        }
    }
    div
}

/// Progress record shared with the supervising script through a mapped file,
/// so it survives a crash of this process: [path index, step index].
struct Progress(*mut u64);

impl Progress {
    fn open(path: &str) -> Progress {
        if path.is_empty() {
            return Progress(std::ptr::null_mut());
        }
        let c = std::ffi::CString::new(path).unwrap();
        unsafe {
            let fd = libc::open(c.as_ptr(), libc::O_RDWR | libc::O_CREAT, 0o644);
            assert!(fd >= 0);
            libc::ftruncate(fd, 16);
            let p = libc::mmap(std::ptr::null_mut(), 16, libc::PROT_READ | libc::PROT_WRITE, libc::MAP_SHARED, fd, 0);
            libc::close(fd);
            assert!(p != libc::MAP_FAILED);
            Progress(p.cast())
        }
    }
    fn set(&self, path: u64, step: u64) {
        if !self.0.is_null() {
            unsafe {
                self.0.write_volatile(path);
                self.0.add(1).write_volatile(step);
            }
        }
    }
}

fn main() {
    let args: Vec<String> = std::env::args().collect();
    let mut dir = String::new();
    let mut kinds_arg = String::new();
    let (mut sqn, mut cqn) = (2u32, 2u32);
    let (mut from, mut to) = (0usize, usize::MAX);
    let mut out_path = String::new();
    let mut progress_path = String::new();
    let mut replay_file = String::new();
    let (mut sq_init, mut cq_init) = (0u32, 0u32);
    let (mut track_res, mut direct, mut nbufs) = (false, false, 0u16);
    let mut i = 1;
    while i < args.len() {
        let v = args.get(i + 1).cloned().unwrap_or_default();
        match args[i].as_str() {
            "--dir" => dir = v,
            "--kinds" => kinds_arg = v,
            "--sqn" => sqn = v.parse().unwrap(),
            "--cqn" => cqn = v.parse().unwrap(),
            "--from" => from = v.parse().unwrap(),
            "--to" => to = v.parse().unwrap(),
            "--out" => out_path = v,
            "--progress" => progress_path = v,
            "--replay-file" => replay_file = v,
            "--sq-init" => sq_init = v.parse().unwrap(),
            "--cq-init" => cq_init = v.parse().unwrap(),
            "--track-res" => track_res = v == "1",
            "--direct" => direct = v == "1",
            "--nbufs" => nbufs = v.parse().unwrap(),
            other => {
                eprintln!("unknown argument {other}");
                std::process::exit(2);
            }
        }
        i += 2;
    }
    let mut kinds = BTreeMap::new();
    let acts: Vec<Value>;
    let paths: Vec<Vec<usize>>;
    if !replay_file.is_empty() {
        // A self-contained replay file: {"config": {...}, "path_acts": [...]}.
        let v: Value = serde_json::from_str(&std::fs::read_to_string(&replay_file).expect("replay file")).unwrap();
        let c = &v["config"];
        kinds_arg = c["kinds"].as_str().unwrap_or("").to_string();
        sqn = c["sqn"].as_u64().unwrap_or(2) as u32;
        cqn = c["cqn"].as_u64().unwrap_or(2) as u32;
        sq_init = c["sq_init"].as_u64().unwrap_or(0) as u32;
        cq_init = c["cq_init"].as_u64().unwrap_or(0) as u32;
        track_res = c["track_res"].as_u64().unwrap_or(0) == 1;
        direct = c["direct"].as_u64().unwrap_or(0) == 1;
        nbufs = c["nbufs"].as_u64().unwrap_or(0) as u16;
        acts = v["path_acts"].as_array().cloned().unwrap_or_default();
        paths = vec![(0..acts.len()).collect()];
    } else {
        acts = serde_json::from_str(&std::fs::read_to_string(format!("{dir}/acts.json")).expect("acts.json")).unwrap();
        let paths_text = std::fs::read_to_string(format!("{dir}/paths.jsonl")).expect("paths.jsonl");
        paths = paths_text.lines().map(|l| serde_json::from_str(l).unwrap()).collect();
    }
    for part in kinds_arg.split(',').filter(|p| !p.is_empty()) {
        let (o, k) = part.split_once('=').expect("--kinds o=kind,...");
        kinds.insert(o.parse::<u64>().unwrap(), k.to_string());
    }
    let mut out: Box<dyn std::io::Write> =
        if out_path.is_empty() {
            Box::new(std::io::stdout())
        } else {
            drop(std::fs::File::create(&out_path).unwrap());
            Box::new(std::fs::OpenOptions::new().append(true).open(&out_path).unwrap())
        };

    // Silence the default panic hook: panics inside a10 are data here.
    std::panic::set_hook(Box::new(|_| {}));
    simk::install();
    events::install();
    events::set_observer(Some(observer));
    if !out_path.is_empty() {
        *EARLY_OUT.lock().unwrap() = std::fs::OpenOptions::new().append(true).open(&out_path).ok();
    }

    let to = to.min(paths.len());
    let progress = Progress::open(&progress_path);
    let mut steps = 0u64;
    let mut diverged = 0u64;
    let mut covered: BTreeSet<usize> = BTreeSet::new();
    for pi in from..to {
        progress.set(pi as u64, 0);
        let path = &paths[pi];
        let mut world = World::new(&kinds, sqn, cqn, sq_init, cq_init, track_res, direct, nbufs);
        let mut kernel_access = BTreeSet::new();
        let mut first: Option<(usize, Vec<Divergence>)> = None;
        for (si, ai) in path.iter().enumerate() {
            let act = &acts[*ai];
            progress.set(pi as u64, si as u64);
            *CURRENT.lock().unwrap() = (pi, si);
            EARLY.lock().unwrap().clear();
            let mut div = step(&mut world, act, &mut kernel_access);
            if !EARLY.lock().unwrap().is_empty() {
                // Already written to the output by the observer; stop this path here.
                div.insert(0, Divergence { tag: "early", field: "", expected: json!(null), observed: json!(null) });
            }
            steps += 1;
            if !div.is_empty() {
                first = Some((si, div));
                break;
            }
            covered.insert(*ai);
        }
        let examined = first.as_ref().map_or(path.len(), |(si, _)| *si + 1);
        progress.set(pi as u64, path.len() as u64);
        let op_states: BTreeSet<u64> = world.addr.values().copied().collect();
        let created: Vec<(usize, usize)> = world.created.values().copied().collect();
        let mut records = Vec::new();
        let diverged_in_path = first.is_some();
        if let Some((si, divs)) = first {
            for d in divs {
                if d.tag == "early" {
                    continue;
                }
                records.push(json!({"path": pi, "step": si, "tag": d.tag, "field": d.field,
                    "expected": d.expected, "observed": d.observed, "act": acts[path[si]]}));
            }
            // Write them out before tearing down: the teardown of a world that has
            // already diverged may crash or hang.
            for r in &records {
                let mut r = r.clone();
                r["examined"] = json!(examined);
                r["path_len"] = json!(path.len());
                r["path_acts"] = json!(path.iter().map(|a| acts[*a].clone()).collect::<Vec<_>>());
                writeln!(out, "{r}").unwrap();
            }
            let _ = out.flush();
            if !records.is_empty() {
                diverged += 1;
            }
            records.clear();
        }
        let (leaks, incidents, _notes, teardown_panic) = world.finish();
        if !diverged_in_path {
            // Only judge the end state of paths that conformed all the way.
            if let Some(m) = teardown_panic {
                records.push(json!({"path": pi, "step": path.len(), "tag": "C12", "field": "teardown: panic / mappings / ring descriptor", "expected": null, "observed": m}));
            }
            for inc in incidents {
                let (tag, what) = match inc {
                    alloc::Incident::FreePinned { .. } => ("C01", "memory of an in-flight request freed during teardown"),
                    alloc::Incident::DoubleFree { .. } => ("C06", "double free during teardown"),
                };
                records.push(json!({"path": pi, "step": path.len(), "tag": tag, "field": what, "expected": null, "observed": format!("{inc:?}")}));
            }
            if !leaks.is_empty() {
                // State or resources of an operation never reclaimed: C06; anything else: C12.
                let tag = if leaks.iter().any(|l| op_states.contains(&(l.0 as u64)) || created.iter().any(|(a, b)| l.2 > *a && l.2 <= *b)) { "C06" } else { "C12" };
                records.push(json!({"path": pi, "step": path.len(), "tag": tag, "field": "allocations never released",
                    "expected": [], "observed": leaks.iter().map(|l| json!({"size": l.1, "serial": l.2})).collect::<Vec<_>>()}));
            }
        }
        if !records.is_empty() {
            diverged += 1;
            for r in records {
                let mut r = r;
                r["examined"] = json!(examined);
                r["path_len"] = json!(path.len());
                r["path_acts"] = json!(path.iter().map(|a| acts[*a].clone()).collect::<Vec<_>>());
                writeln!(out, "{r}").unwrap();
            }
        }
    }
    progress.set(u64::MAX, 0);
    writeln!(
        out,
        "{}",
        json!({"summary": true, "paths": to.saturating_sub(from), "steps": steps, "diverged_paths": diverged,
               "distinct_acts_conforming": covered.len(), "distinct_acts": acts.len()})
    )
    .unwrap();
}

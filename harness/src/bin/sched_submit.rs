//! C04: concurrent submitters under the baton scheduler.
//!
//! T logical threads each start M writes (each first poll is one
//! `Submissions::add`) on a ring with N submission entries while a logical
//! kernel thread consumes entries one at a time.  Every schedule with at most P
//! preemptions is executed; after each, what the kernel consumed is compared
//! with what the submitters were told was accepted.
//!
//! usage: sched_submit --threads T --adds M --sqn N --preemptions P [--sq-init X] [--max-exec K]
//!                     [--mode sqpoll|enter] [--out FILE] [--replay-file FILE] [--trace-out FILE]

use std::collections::BTreeMap;
use std::future::Future;
use std::io::Write as _;
use std::sync::{Arc, Mutex};
use std::task::Context;
use std::time::Duration;

use a10_verif_harness::sched::{self, Body, Execution};
use a10_verif_harness::simk::{self, Note};
use a10_verif_harness::{alloc, events, wakers};
use serde_json::{Value, json};

#[derive(Clone)]
struct Params {
    threads: usize,
    adds: usize,
    sqn: u32,
    sq_init: u32,
    sqpoll: bool,
    /// Build the ring with `Config::single_issuer`.
    single: bool,
}

struct Outcome {
    exec: Execution,
    problems: Vec<Value>,
    trace: Vec<Value>,
}

fn run_once(p: &Params, prefix: Vec<usize>, random: Option<u64>) -> Outcome {
    simk::reset();
    wakers::reset();
    events::clear();
    simk::kernel().plan.sq_init = p.sq_init;
    alloc::begin();
    let config = a10::Ring::config().with_submission_queue_size(p.sqn).with_completion_queue_size(p.sqn.max(2) * 2);
    let config = if p.sqpoll { config.with_kernel_thread() } else { config };
    let config = if p.single { config.single_issuer() } else { config };
    let ring = config.build().expect("ring");
    let rfd = *simk::kernel().rings.keys().next().unwrap();
    let fdn = simk::kernel().alloc_fd();
    let fd_ptr = Box::into_raw(Box::new(unsafe { a10::AsyncFd::from_raw_fd(fdn, ring.sq()) }));
    let fd: &'static a10::AsyncFd = unsafe { &*fd_ptr };
    simk::kernel().take_notes();
    events::clear();
    let ring = Arc::new(Mutex::new(Some(ring)));
    let overrun = Arc::new(Mutex::new(None::<Value>));
    let keep: Arc<Mutex<Vec<Box<dyn std::any::Any + Send>>>> = Arc::new(Mutex::new(Vec::new()));
    let mut bodies: Vec<Body> = Vec::new();
    let total = p.threads * p.adds;
    let done = Arc::new(std::sync::atomic::AtomicUsize::new(0));
    for t in 0..p.threads {
        let adds = p.adds;
        let keep = keep.clone();
        let done = done.clone();
        bodies.push(Box::new(move || {
            let waker = wakers::waker(t);
            let mut ctx = Context::from_waker(&waker);
            for i in 0..adds {
                // The payload (length of the buffer) identifies the submission.
                let len = (t + 1) * 10 + (i + 1);
                let mut f = Box::pin(fd.write(vec![0x11u8; len]));
                let _ = alloc::tracked(|| f.as_mut().poll(&mut ctx));
                done.fetch_add(1, std::sync::atomic::Ordering::SeqCst);
                keep.lock().unwrap().push(Box::new(f));
            }
        }));
    }
    // The kernel: consumes one entry per turn, checks the queue never holds more
    // than it has slots.
    {
        let overrun = overrun.clone();
        let done = done.clone();
        let sqn = p.sqn;
        let sqpoll = p.sqpoll;
        let ring = ring.clone();
        bodies.push(Box::new(move || {
            let mut idle = 0;
            loop {
                let pending = simk::kernel().rings.get(&rfd).map_or(0, |r| r.sq_pending());
                if pending == 0 && done.load(std::sync::atomic::Ordering::SeqCst) < total {
                    // Nothing to consume: let the submitters run.
                    sched::yield_idle("kernel.idle");
                    continue;
                } else {
                    sched::yield_now("kernel");
                }
                let pending = simk::kernel().rings.get(&rfd).map_or(0, |r| r.sq_pending());
                if pending > sqn && overrun.lock().unwrap().is_none() {
                    *overrun.lock().unwrap() = Some(json!({"pending": pending, "entries": sqn}));
                }
                if sqpoll {
                    let before = simk::kernel().notes.len();
                    simk::kernel().consume(rfd, 1);
                    sched::note_progress();
                    let k = simk::kernel();
                    for n in &k.notes[before..] {
                        if let Note::Consumed { sqe, index, .. } = n {
                            events::push("KConsume", [u64::from(*index), u64::from(sqe.len()), 0, 0, 0, 0]);
                        }
                    }
                } else if let Some(r) = ring.lock().unwrap().as_mut() {
                    // Without a kernel thread entries are consumed by io_uring_enter.
                    let _ = alloc::tracked(|| r.poll(Some(Duration::ZERO)));
                }
                if done.load(std::sync::atomic::Ordering::SeqCst) >= total {
                    idle += 1;
                    if idle > 2 {
                        break;
                    }
                }
            }
        }));
    }
    let exec = sched::execute(bodies, prefix, random, 0, 20_000);
    // ---- oracle
    let mut problems = Vec::new();
    if let Some(o) = overrun.lock().unwrap().take() {
        problems.push(json!({"field": "more unconsumed entries than the queue has slots", "expected": p.sqn, "observed": o}));
    }
    let pending = simk::kernel().rings.get(&rfd).map_or(0, |r| r.sq_pending());
    if pending > p.sqn {
        problems.push(json!({"field": "more unconsumed entries than the queue has slots (end)", "expected": p.sqn, "observed": pending}));
    }
    // Drain what is left.
    simk::kernel().consume(rfd, pending.min(p.sqn));
    let evs = events::take();
    let notes = simk::kernel().take_notes();
    let mut accepted: BTreeMap<u64, Vec<u8>> = BTreeMap::new(); // user_data -> bytes at publication
    let mut trace = Vec::new();
    for ev in &evs {
        match ev.name {
            "SqAdd" => {
                let ud = u64::from_ne_bytes(ev.raw[32..40].try_into().unwrap());
                accepted.insert(ud, ev.raw.clone());
                trace.push(json!({"ev": "SqAdd", "locked": 0, "th": ev.thread + 1, "head": ev.f[1] as u32, "tail": ev.f[2] as u32, "index": ev.f[3], "len": u32::from_ne_bytes(ev.raw[24..28].try_into().unwrap())}));
            }
            "KConsume" => trace.push(json!({"ev": "KConsume", "th": 0, "head": 0, "tail": 0, "locked": 0, "index": ev.f[0], "len": ev.f[1]})),
            "SqFull" => trace.push(json!({"ev": "SqFull", "th": ev.thread + 1, "locked": ev.f[1], "head": ev.f[2] as u32, "tail": ev.f[3] as u32, "index": 0, "len": 0})),
            _ => {}
        }
    }
    let mut consumed: BTreeMap<u64, usize> = BTreeMap::new();
    for n in &notes {
        if let Note::Consumed { sqe, index, .. } = n {
            *consumed.entry(sqe.user_data()).or_default() += 1;
            let _ = index;
            match accepted.get(&sqe.user_data()) {
                None => problems.push(json!({"field": "kernel consumed an entry nobody was told was accepted", "expected": null, "observed": format!("{sqe:?}")})),
                Some(bytes) => {
                    if bytes.as_slice() != sqe.0.as_slice() {
                        problems.push(json!({"field": "kernel saw a different entry than was published (torn / overwritten)", "expected": format!("{:?}", a10_verif_harness::abi::Sqe(bytes.as_slice().try_into().unwrap())), "observed": format!("{sqe:?}")}));
                    }
                }
            }
        }
    }
    for (ud, n) in &consumed {
        if *n != 1 {
            problems.push(json!({"field": "entry consumed more than once", "expected": 1, "observed": {"user_data": ud, "times": n}}));
        }
    }
    for ud in accepted.keys() {
        if !consumed.contains_key(ud) {
            problems.push(json!({"field": "accepted submission never reached the kernel", "expected": 1, "observed": {"user_data": ud, "times": 0}}));
        }
    }
    for (t, msg) in &exec.panics {
        problems.push(json!({"field": "panic in a submitter", "expected": null, "observed": {"thread": t, "message": msg}}));
    }
    if exec.deadlock {
        problems.push(json!({"field": "deadlock", "expected": null, "observed": exec.stuck}));
    }
    // ---- teardown (unscheduled).  After a violation the ring is in a state the
    // crate never expects (e.g. an entry consumed twice): leak it instead.
    if problems.is_empty() {
        drop(keep.lock().unwrap().drain(..).collect::<Vec<_>>());
        drop(unsafe { Box::from_raw(fd_ptr) });
        drop(ring.lock().unwrap().take());
    } else {
        std::mem::forget(keep.lock().unwrap().drain(..).collect::<Vec<_>>());
        std::mem::forget(ring.lock().unwrap().take());
    }
    simk::forget_closed_rings();
    let _ = alloc::end();
    Outcome { exec, problems, trace }
}

fn main() {
    let args: Vec<String> = std::env::args().collect();
    let mut p = Params { threads: 2, adds: 2, sqn: 1, sq_init: 0, sqpoll: true, single: false };
    let mut preemptions = 2usize;
    let mut max_exec = 200_000u64;
    let mut out_path = String::new();
    let mut replay_file = String::new();
    let mut trace_out = String::new();
    let mut random_runs = 0u64;
    let mut seed = 1u64;
    let mut i = 1;
    while i < args.len() {
        let v = args.get(i + 1).cloned().unwrap_or_default();
        match args[i].as_str() {
            "--threads" => p.threads = v.parse().unwrap(),
            "--adds" => p.adds = v.parse().unwrap(),
            "--sqn" => p.sqn = v.parse().unwrap(),
            "--sq-init" => p.sq_init = v.parse().unwrap(),
            "--mode" => p.sqpoll = v != "enter",
            "--single" => p.single = v == "1",
            "--preemptions" => preemptions = v.parse().unwrap(),
            "--max-exec" => max_exec = v.parse().unwrap(),
            "--random" => random_runs = v.parse().unwrap(),
            "--seed" => seed = v.parse().unwrap(),
            "--out" => out_path = v,
            "--replay-file" => replay_file = v,
            "--trace-out" => trace_out = v,
            other => {
                eprintln!("unknown argument {other}");
                std::process::exit(2);
            }
        }
        i += 2;
    }
    if std::env::var_os("VERIF_PANIC_MSG").is_none() {
        std::panic::set_hook(Box::new(|_| {}));
    }
    simk::install();
    events::install();
    let mut out: Box<dyn std::io::Write> =
        if out_path.is_empty() { Box::new(std::io::stdout()) } else { Box::new(std::fs::File::create(&out_path).unwrap()) };
    let config = |p: &Params| json!({"threads": p.threads, "adds": p.adds, "sqn": p.sqn, "sq_init": p.sq_init, "mode": if p.sqpoll { "sqpoll" } else { "enter" }, "single": p.single});
    if !replay_file.is_empty() {
        let v: Value = serde_json::from_str(&std::fs::read_to_string(&replay_file).expect("replay file")).unwrap();
        let c = &v["config"];
        p = Params {
            threads: c["threads"].as_u64().unwrap() as usize,
            adds: c["adds"].as_u64().unwrap() as usize,
            sqn: c["sqn"].as_u64().unwrap() as u32,
            sq_init: c["sq_init"].as_u64().unwrap() as u32,
            sqpoll: c["mode"] == "sqpoll",
            single: c["single"].as_bool().unwrap_or(false),
        };
        let prefix: Vec<usize> = v["schedule"].as_array().map(|a| a.iter().filter_map(Value::as_u64).map(|x| x as usize).collect()).unwrap_or_default();
        let o = run_once(&p, prefix, None);
        for pr in &o.problems {
            writeln!(out, "{}", json!({"tag": "C04", "field": pr["field"], "expected": pr["expected"], "observed": pr["observed"]})).unwrap();
        }
        writeln!(out, "{}", json!({"summary": true, "paths": 1, "steps": o.exec.steps, "diverged_paths": usize::from(!o.problems.is_empty())})).unwrap();
        return;
    }
    let mut bad = 0u64;
    let mut steps = 0u64;
    let mut traces: Vec<Value> = Vec::new();
    let mut visit = |prefix: &[usize], o: &Outcome, out: &mut Box<dyn std::io::Write>| {
        steps += o.exec.steps;
        if o.exec.steps > 300 && std::env::var_os("VERIF_DEBUG").is_some() {
            eprintln!("long execution: {} steps, schedule {:?}, tail {:?}", o.exec.steps, o.exec.trace.iter().enumerate().filter(|(_, c)| c.chosen > 0).map(|(i, c)| (i, c.chosen)).collect::<Vec<_>>(), &o.exec.log[o.exec.log.len().saturating_sub(8)..]);
        }
        if traces.len() < 400 {
            traces.push(json!(o.trace));
        }
        if let Some(pr) = o.problems.first() {
            bad += 1;
            if bad <= 20 {
                let schedule: Vec<usize> = o.exec.trace.iter().map(|c| c.chosen).collect();
                let _ = prefix;
                writeln!(out, "{}", json!({"path": bad, "step": 0, "tag": "C04", "field": pr["field"], "expected": pr["expected"], "observed": pr["observed"],
                    "config": config(&p), "schedule": schedule, "model": "SubmitMT",
                    "log": o.exec.log.iter().map(|(t, l)| format!("{t}:{l}")).collect::<Vec<_>>()})).unwrap();
            }
        }
    };
    let (executions, complete) = sched::explore(preemptions, max_exec, |prefix| {
        let o = run_once(&p, prefix.clone(), None);
        visit(&prefix, &o, &mut out);
        (o.exec.trace.clone(), true)
    });
    let mut randoms = 0;
    for r in 0..random_runs {
        let o = run_once(&p, Vec::new(), Some(seed.wrapping_mul(0x9E37_79B9_7F4A_7C15).wrapping_add(r + 1) | 1));
        visit(&[], &o, &mut out);
        randoms += 1;
    }
    if !trace_out.is_empty() {
        let mut f = std::fs::File::create(&trace_out).unwrap();
        for t in &traces {
            writeln!(f, "{t}").unwrap();
        }
    }
    writeln!(out, "{}", json!({"summary": true, "paths": executions + randoms, "steps": steps, "diverged_paths": bad, "complete": complete,
        "config": config(&p), "preemption_bound": preemptions})).unwrap();
}

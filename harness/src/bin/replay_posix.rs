//! C13, the other half: the cases enumerated from `spec/Abi.tla` executed on the
//! *real* kernel, once through a10 and once through the synchronous system
//! call the operation stands for, on identical fixtures; results and the
//! resulting state (file contents, sizes, positions, modes, queued socket data,
//! option values) must agree, for regular and for direct descriptors.
//!
//! No simulated kernel is installed in this binary.
//!
//! usage: replay_posix --cases FILE [--from N] [--to M] [--out FILE] [--progress FILE]

use std::ffi::CString;
use std::future::Future;
use std::io::Write as _;
use std::os::fd::{AsFd, AsRawFd, FromRawFd, OwnedFd, RawFd};
use std::os::unix::ffi::OsStrExt;
use std::panic::{AssertUnwindSafe, catch_unwind};
use std::path::{Path, PathBuf};
use std::pin::Pin;
use std::task::{Context, Poll, Waker};
use std::time::Duration;

use a10::fd::Kind;
use a10::fs::{self, MetadataInterest, OpenOptions};
use a10::io::SpliceFlag;
use a10::net::{self, Domain, Protocol, RecvFlag, SendFlag, Type, option};
use serde_json::{Value, json};

struct Rk {
    ring: a10::Ring,
}

thread_local! {
    static RK: std::cell::RefCell<Option<Rk>> = const { std::cell::RefCell::new(None) };
}

fn block_on<F: Future>(ring: &mut a10::Ring, fut: F) -> F::Output {
    let mut fut = Box::pin(fut);
    let mut ctx = Context::from_waker(Waker::noop());
    for _ in 0..2000 {
        if let Poll::Ready(out) = Pin::new(&mut fut).poll(&mut ctx) {
            return out;
        }
        ring.poll(Some(Duration::from_millis(5))).expect("Ring::poll");
    }
    panic!("operation did not finish on the real kernel");
}

/// 0 for success, the errno of a failure; a10 reports EINVAL from the kernel as
/// `ErrorKind::Unsupported` without an errno (src/io_uring/op.rs `fallback`), which counts as EINVAL.
fn errno<T>(r: &std::io::Result<T>) -> i32 {
    match r {
        Ok(_) => 0,
        Err(e) => e.raw_os_error().unwrap_or(if e.kind() == std::io::ErrorKind::Unsupported { libc::EINVAL } else { -1 }),
    }
}

fn cvt(ret: isize) -> Result<isize, i32> {
    if ret < 0 { Err(std::io::Error::last_os_error().raw_os_error().unwrap_or(-1)) } else { Ok(ret) }
}

fn cpath(p: &Path) -> CString {
    CString::new(p.as_os_str().as_bytes()).unwrap()
}

fn u64_of(v: &Value) -> u64 {
    let hi = v[0].as_i64().unwrap_or(0) as u32 as u64;
    let lo = v[1].as_i64().unwrap_or(0) as i32 as u32 as u64;
    (hi << 32) | lo
}

/// A descriptor for a10: the regular one, or the same file behind a direct descriptor.
fn for_a10(ring: &mut a10::Ring, fd: OwnedFd, kind: Kind) -> a10::AsyncFd {
    let sq = ring.sq();
    let file = a10::AsyncFd::new(fd, sq);
    if kind == Kind::Direct {
        let direct = block_on(ring, file.to_direct_descriptor()).expect("to_direct_descriptor");
        drop(file);
        direct
    } else {
        file
    }
}

/// A regular descriptor referring to the same open file description as `fd`.
fn view(ring: &mut a10::Ring, fd: &a10::AsyncFd) -> OwnedFd {
    match fd.as_fd() {
        Some(b) => b.try_clone_to_owned().expect("dup"),
        None => {
            let regular = block_on(ring, fd.to_file_descriptor()).expect("to_file_descriptor");
            regular.as_fd().expect("regular").try_clone_to_owned().expect("dup")
        }
    }
}

fn position(fd: RawFd) -> i64 {
    unsafe { libc::lseek(fd, 0, libc::SEEK_CUR) }
}

fn fixture_file(dir: &Path, name: &str, len: usize, pos: i64) -> (PathBuf, OwnedFd) {
    let path = dir.join(name);
    let content: Vec<u8> = (0..len).map(|i| b'a' + (i % 26) as u8).collect();
    std::fs::write(&path, &content).expect("fixture: write");
    let fd: OwnedFd = std::fs::OpenOptions::new().read(true).write(true).open(&path).expect("fixture: open").into();
    unsafe { libc::lseek(fd.as_raw_fd(), pos, libc::SEEK_SET) };
    (path, fd)
}

fn file_state(path: &Path, around: u64) -> Value {
    let meta = std::fs::metadata(path).ok();
    let size = meta.as_ref().map_or(0, std::fs::Metadata::len);
    let mut near = vec![0u8; 64];
    let n = std::fs::File::open(path)
        .ok()
        .map(|f| unsafe { libc::pread(f.as_raw_fd(), near.as_mut_ptr().cast(), 64, around.saturating_sub(8) as i64) })
        .unwrap_or(-1);
    near.truncate(n.max(0) as usize);
    let head = std::fs::File::open(path).ok().map(|f| {
        let mut b = vec![0u8; 96];
        let n = unsafe { libc::pread(f.as_raw_fd(), b.as_mut_ptr().cast(), 96, 0) };
        b.truncate(n.max(0) as usize);
        b
    });
    json!({"size": size, "head": head, "near": near})
}

type Problems = Vec<Value>;

fn differ(out: &mut Problems, what: &str, a10: Value, libc: Value) {
    if a10 != libc {
        out.push(json!({"field": what, "expected": libc, "observed": a10}));
    }
}

fn flags_from<T: Copy + std::ops::BitOr<Output = T>>(bits: u32, table: &[(u32, T)]) -> Option<T> {
    let mut acc = None;
    for (b, f) in table {
        if bits & b == *b {
            acc = Some(match acc {
                Some(a) => a | *f,
                None => *f,
            });
        }
    }
    acc
}

fn socket_pair(ty: i32) -> (OwnedFd, OwnedFd) {
    let mut fds = [0; 2];
    assert_eq!(unsafe { libc::socketpair(libc::AF_UNIX, ty | libc::SOCK_CLOEXEC, 0, fds.as_mut_ptr()) }, 0);
    unsafe { (OwnedFd::from_raw_fd(fds[0]), OwnedFd::from_raw_fd(fds[1])) }
}

fn drain(fd: RawFd) -> Vec<u8> {
    let mut all = Vec::new();
    loop {
        let mut b = [0u8; 256];
        let n = unsafe { libc::recv(fd, b.as_mut_ptr().cast(), b.len(), libc::MSG_DONTWAIT) };
        if n <= 0 {
            return all;
        }
        all.extend_from_slice(&b[..n as usize]);
    }
}

#[allow(clippy::too_many_lines)]
fn run_case(case: &Value, dir: &Path) -> Problems {
    let mut out = Vec::new();
    let op = case["op"].as_str().unwrap_or("").to_string();
    let kind_s = case["kind"].as_str().unwrap_or("file");
    let kind = if kind_s == "direct" { Kind::Direct } else { Kind::File };
    let a = case["args"]["a"].as_i64().unwrap_or(0);
    let b = case["args"]["b"].as_i64().unwrap_or(0);
    let c = case["args"]["c"].as_i64().unwrap_or(0);
    let d = case["args"]["d"].as_i64().unwrap_or(0);
    let o = u64_of(&case["args"]["o"]);
    let cur = case["args"]["o"][0].as_i64() == Some(0) && case["args"]["o"][1].as_i64() == Some(-1);
    RK.with(|cell| {
        let mut cell = cell.borrow_mut();
        if cell.is_none() {
            *cell = Some(Rk { ring: a10::Ring::config().with_direct_descriptors(64).build().expect("ring on the real kernel") });
        }
        let ring = &mut cell.as_mut().unwrap().ring;
        let sq = ring.sq();
        match op.as_str() {
            "read" | "readv" => {
                let (_pa, fa) = fixture_file(dir, "ra", 64, 3);
                let (_pl, fl) = fixture_file(dir, "rl", 64, 3);
                let afd = for_a10(ring, fa, kind);
                let (got, want): (Result<Vec<Vec<u8>>, i32>, Result<Vec<Vec<u8>>, i32>) = if op == "read" {
                    let f = afd.read(Vec::with_capacity(a as usize));
                    let r = block_on(ring, if cur { f } else { f.from(o) });
                    let mut buf = vec![0u8; a as usize];
                    let n = cvt(unsafe {
                        if cur { libc::read(fl.as_raw_fd(), buf.as_mut_ptr().cast(), buf.len()) } else { libc::pread(fl.as_raw_fd(), buf.as_mut_ptr().cast(), buf.len(), o as i64) }
                    });
                    (r.map(|v| vec![v]).map_err(|e| e.raw_os_error().unwrap_or(-1)), n.map(|n| { buf.truncate(n as usize); vec![buf] }))
                } else {
                    let caps: Vec<usize> = (0..a as usize).map(|i| 4 + i).collect();
                    macro_rules! rv {
                        ($n:literal) => {{
                            let bufs: [Vec<u8>; $n] = std::array::from_fn(|i| Vec::with_capacity(caps[i]));
                            let f = afd.read_vectored(bufs);
                            block_on(ring, if cur { f } else { f.from(o) }).map(|b| b.to_vec()).map_err(|e| e.raw_os_error().unwrap_or(-1))
                        }};
                    }
                    let r = match a { 1 => rv!(1), 2 => rv!(2), _ => rv!(3) };
                    let mut bufs: Vec<Vec<u8>> = caps.iter().map(|c| vec![0u8; *c]).collect();
                    let iov: Vec<libc::iovec> = bufs.iter_mut().map(|b| libc::iovec { iov_base: b.as_mut_ptr().cast(), iov_len: b.len() }).collect();
                    let n = cvt(unsafe {
                        if cur { libc::readv(fl.as_raw_fd(), iov.as_ptr(), iov.len() as i32) } else { libc::preadv(fl.as_raw_fd(), iov.as_ptr(), iov.len() as i32, o as i64) }
                    });
                    (r, n.map(|n| {
                        let mut left = n as usize;
                        for b in &mut bufs {
                            let k = left.min(b.len());
                            b.truncate(k);
                            left -= k;
                        }
                        bufs
                    }))
                };
                differ(&mut out, "data read", json!(got), json!(want));
                let v = view(ring, &afd);
                differ(&mut out, "file position after the read", json!(position(v.as_raw_fd())), json!(position(fl.as_raw_fd())));
            }
            "write" | "writev" => {
                let (pa, fa) = fixture_file(dir, "wa", 16, 3);
                let (pl, fl) = fixture_file(dir, "wl", 16, 3);
                let afd = for_a10(ring, fa, kind);
                let (got, want): (Result<usize, i32>, Result<usize, i32>) = if op == "write" {
                    let f = afd.write(vec![b'W'; a as usize]);
                    let r = block_on(ring, if cur { f } else { f.at(o) });
                    let buf = vec![b'W'; a as usize];
                    let n = cvt(unsafe {
                        if cur { libc::write(fl.as_raw_fd(), buf.as_ptr().cast(), buf.len()) } else { libc::pwrite(fl.as_raw_fd(), buf.as_ptr().cast(), buf.len(), o as i64) }
                    });
                    (r.map_err(|e| e.raw_os_error().unwrap_or(-1)), n.map(|n| n as usize))
                } else {
                    let lens: Vec<usize> = (0..a as usize).map(|i| 3 + i).collect();
                    macro_rules! wv {
                        ($n:literal) => {{
                            let bufs: [Vec<u8>; $n] = std::array::from_fn(|i| vec![b'A' + i as u8; lens[i]]);
                            let f = afd.write_vectored(bufs);
                            block_on(ring, if cur { f } else { f.at(o) }).map_err(|e| e.raw_os_error().unwrap_or(-1))
                        }};
                    }
                    let r = match a { 1 => wv!(1), 2 => wv!(2), _ => wv!(3) };
                    let bufs: Vec<Vec<u8>> = lens.iter().enumerate().map(|(i, l)| vec![b'A' + i as u8; *l]).collect();
                    let iov: Vec<libc::iovec> = bufs.iter().map(|b| libc::iovec { iov_base: b.as_ptr().cast_mut().cast(), iov_len: b.len() }).collect();
                    let n = cvt(unsafe {
                        if cur { libc::writev(fl.as_raw_fd(), iov.as_ptr(), iov.len() as i32) } else { libc::pwritev(fl.as_raw_fd(), iov.as_ptr(), iov.len() as i32, o as i64) }
                    });
                    (r, n.map(|n| n as usize))
                };
                differ(&mut out, "bytes written / error", json!(got), json!(want));
                let around = if cur { 3 } else { o };
                differ(&mut out, "file after the write", file_state(&pa, around), file_state(&pl, around));
                let v = view(ring, &afd);
                differ(&mut out, "file position after the write", json!(position(v.as_raw_fd())), json!(position(fl.as_raw_fd())));
            }
            "fsync" => {
                let (_pa, fa) = fixture_file(dir, "sa", 16, 0);
                let (_pl, fl) = fixture_file(dir, "sl", 16, 0);
                let afd = for_a10(ring, fa, kind);
                let r = block_on(ring, if a == 1 { afd.sync_data() } else { afd.sync_all() });
                let w = cvt(unsafe { if a == 1 { libc::fdatasync(fl.as_raw_fd()) } else { libc::fsync(fl.as_raw_fd()) } } as isize);
                differ(&mut out, "fsync result", json!(errno(&r)), json!(w.err().unwrap_or(0)));
            }
            "statx" => {
                if kind == Kind::Direct {
                    // IORING_OP_STATX rejects fixed files (-EBADF) by design of the kernel: there is no
                    // way to stat a direct descriptor, and no system call to compare with.
                    return;
                }
                let (pa, fa) = fixture_file(dir, "ma", 37, 0);
                std::fs::set_permissions(&pa, std::os::unix::fs::PermissionsExt::from_mode(0o640)).unwrap();
                let afd = for_a10(ring, fa, kind);
                let table = [(1, MetadataInterest::TYPE), (2, MetadataInterest::MODE), (32, MetadataInterest::ACCESSED_TIME), (64, MetadataInterest::MODIFIED_TIME),
                    (512, MetadataInterest::SIZE), (1024, MetadataInterest::BLOCKS), (2048, MetadataInterest::CREATED_TIME)];
                let mask = flags_from(a as u32, &table).expect("mask");
                let m = block_on(ring, afd.metadata().only(mask)).expect("statx");
                let want = std::fs::metadata(&pa).unwrap();
                if a & 512 != 0 {
                    differ(&mut out, "metadata: size", json!(m.len()), json!(want.len()));
                }
                if a & 1 != 0 {
                    differ(&mut out, "metadata: is_file", json!(m.is_file()), json!(want.is_file()));
                }
                if a & 2 != 0 {
                    let p = m.permissions();
                    differ(&mut out, "metadata: permissions", json!([p.owner_can_read(), p.owner_can_write(), p.owner_can_execute(), p.group_can_read(), p.group_can_write(), p.others_can_read()]),
                        json!([true, true, false, true, false, false]));
                }
                if a & 64 != 0 {
                    differ(&mut out, "metadata: modified", json!(m.modified().duration_since(std::time::UNIX_EPOCH).map(|d| d.as_secs()).unwrap_or(0)),
                        json!(want.modified().unwrap().duration_since(std::time::UNIX_EPOCH).map(|d| d.as_secs()).unwrap_or(0)));
                }
            }
            "fadvise" => {
                let (_pa, fa) = fixture_file(dir, "aa", 64, 0);
                let (_pl, fl) = fixture_file(dir, "al", 64, 0);
                let afd = for_a10(ring, fa, kind);
                let adv = [fs::AdviseFlag::NORMAL, fs::AdviseFlag::RANDOM, fs::AdviseFlag::SEQUENTIAL, fs::AdviseFlag::WILL_NEED, fs::AdviseFlag::DONT_NEED, fs::AdviseFlag::NO_REUSE];
                let r = block_on(ring, afd.advise(o, a as u32, adv[b as usize]));
                let w = unsafe { libc::posix_fadvise(fl.as_raw_fd(), o as i64, a, b as i32) };
                differ(&mut out, "posix_fadvise result", json!(errno(&r)), json!(w));
            }
            "fallocate" | "ftruncate" => {
                let (pa, fa) = fixture_file(dir, "fa", 16, 0);
                let (pl, fl) = fixture_file(dir, "fl", 16, 0);
                let afd = for_a10(ring, fa, kind);
                let (r, w) = if op == "fallocate" {
                    // Keep the amount of real disk space bounded.
                    if o > (1 << 31) && a > 4096 {
                        return;
                    }
                    (errno(&block_on(ring, afd.allocate(o, a as u32))), cvt(unsafe { libc::fallocate(fl.as_raw_fd(), 0, o as i64, a) } as isize).err().unwrap_or(0))
                } else {
                    (errno(&block_on(ring, afd.truncate(o))), cvt(unsafe { libc::ftruncate(fl.as_raw_fd(), o as i64) } as isize).err().unwrap_or(0))
                };
                differ(&mut out, "result", json!(r), json!(w));
                differ(&mut out, "file afterwards", file_state(&pa, 0), file_state(&pl, 0));
                let _ = (std::fs::remove_file(&pa), std::fs::remove_file(&pl));
            }
            "open" | "open_tmpfile" => {
                let calls: Vec<String> = case["args"]["calls"].as_array().map(|v| v.iter().filter_map(|s| s.as_str().map(str::to_string)).collect()).unwrap_or_default();
                let flags = a as i32;
                let mode = b as u32;
                let tmp = op == "open_tmpfile";
                let (pa, pl) = (dir.join("oa"), dir.join("ol"));
                for p in [&pa, &pl] {
                    let _ = std::fs::remove_file(p);
                    // An existing file unless it is to be created exclusively / it is a directory for O_TMPFILE.
                    if !tmp && flags & libc::O_EXCL == 0 {
                        std::fs::write(p, b"existing content").unwrap();
                        std::fs::set_permissions(p, std::os::unix::fs::PermissionsExt::from_mode(0o600)).unwrap();
                    }
                }
                if flags & libc::O_DIRECT != 0 {
                    // O_DIRECT needs file system support that the temporary directory may lack.
                    return;
                }
                let mut oo = OpenOptions::new();
                if tmp {
                    oo = if flags == 1 { oo.write_only() } else { oo.write() };
                }
                for call in &calls {
                    oo = match call.as_str() {
                        "read" => oo.read(),
                        "write" => oo.write(),
                        "write_only" => oo.write_only(),
                        "append" => oo.append(),
                        "truncate" => oo.truncate(),
                        "create" => oo.create(),
                        "create_new" => oo.create_new(),
                        "data_sync" => oo.data_sync(),
                        "sync" => oo.sync(),
                        "direct" => oo.direct(),
                        other => panic!("unknown builder call {other}"),
                    };
                }
                let oo = oo.mode(mode).kind(kind);
                let ra = if tmp { block_on(ring, oo.open_temp_file(sq.clone(), dir.to_path_buf())) } else { block_on(ring, oo.open(sq.clone(), pa.clone())) };
                let lflags = flags | libc::O_CLOEXEC | if tmp { libc::O_TMPFILE } else { 0 };
                let target = if tmp { cpath(dir) } else { cpath(&pl) };
                let rl = cvt(unsafe { libc::open(target.as_ptr(), lflags, mode) } as isize);
                differ(&mut out, "open result", json!(errno(&ra)), json!(rl.as_ref().err().copied().unwrap_or(0)));
                if let (Ok(afd), Ok(lfd)) = (ra, rl) {
                    let lfd = unsafe { OwnedFd::from_raw_fd(lfd as i32) };
                    let v = view(ring, &afd);
                    let fl_a = unsafe { libc::fcntl(v.as_raw_fd(), libc::F_GETFL) };
                    let fl_l = unsafe { libc::fcntl(lfd.as_raw_fd(), libc::F_GETFL) };
                    differ(&mut out, "file status flags of the opened file (F_GETFL)", json!(fl_a), json!(fl_l));
                    let st = |fd: RawFd| {
                        let mut s: libc::stat = unsafe { std::mem::zeroed() };
                        unsafe { libc::fstat(fd, &mut s) };
                        json!({"mode": s.st_mode & 0o7777, "size": s.st_size, "kind": s.st_mode & libc::S_IFMT})
                    };
                    differ(&mut out, "mode / size of the opened file (fstat)", st(v.as_raw_fd()), st(lfd.as_raw_fd()));
                }
                let _ = (std::fs::remove_file(&pa), std::fs::remove_file(&pl));
            }
            "mkdir" => {
                let (pa, pl) = (dir.join("da"), dir.join("dl"));
                let _ = (std::fs::remove_dir(&pa), std::fs::remove_dir(&pl));
                let ra = block_on(ring, fs::create_dir(sq.clone(), pa.clone()));
                let rl = cvt(unsafe { libc::mkdir(cpath(&pl).as_ptr(), 0o777) } as isize);
                differ(&mut out, "mkdir result", json!(errno(&ra)), json!(rl.err().unwrap_or(0)));
                let mode = |p: &Path| std::fs::metadata(p).map(|m| std::os::unix::fs::PermissionsExt::mode(&m.permissions()) & 0o7777).ok();
                differ(&mut out, "mode of the new directory", json!(mode(&pa)), json!(mode(&pl)));
                let _ = (std::fs::remove_dir(&pa), std::fs::remove_dir(&pl));
            }
            "rename" | "unlink" => {
                let mk = |n: &str, is_dir: bool| {
                    let p = dir.join(n);
                    let _ = std::fs::remove_file(&p);
                    let _ = std::fs::remove_dir(&p);
                    if is_dir { std::fs::create_dir(&p).unwrap() } else { std::fs::write(&p, b"x").unwrap() }
                    p
                };
                if op == "rename" {
                    let (fa, fl) = (mk("na", false), mk("nl", false));
                    let (ta, tl) = (dir.join("na2"), dir.join("nl2"));
                    let ra = block_on(ring, fs::rename(sq.clone(), fa.clone(), ta.clone()));
                    let rl = cvt(unsafe { libc::rename(cpath(&fl).as_ptr(), cpath(&tl).as_ptr()) } as isize);
                    differ(&mut out, "rename result", json!(errno(&ra)), json!(rl.err().unwrap_or(0)));
                    differ(&mut out, "names afterwards", json!([fa.exists(), ta.exists()]), json!([fl.exists(), tl.exists()]));
                    let _ = (std::fs::remove_file(&ta), std::fs::remove_file(&tl));
                } else {
                    // Every combination of (file | directory) x (remove_file | remove_dir).
                    for is_dir in [false, true] {
                        let (pa, pl) = (mk("ua", is_dir), mk("ul", is_dir));
                        let ra = if a == 1 { block_on(ring, fs::remove_dir(sq.clone(), pa.clone())) } else { block_on(ring, fs::remove_file(sq.clone(), pa.clone())) };
                        let rl = cvt(unsafe { if a == 1 { libc::rmdir(cpath(&pl).as_ptr()) } else { libc::unlink(cpath(&pl).as_ptr()) } } as isize);
                        differ(&mut out, "unlink / rmdir result", json!(errno(&ra)), json!(rl.err().unwrap_or(0)));
                        differ(&mut out, "name afterwards", json!(pa.exists()), json!(pl.exists()));
                        let _ = (std::fs::remove_file(&pa), std::fs::remove_dir(&pa), std::fs::remove_file(&pl), std::fs::remove_dir(&pl));
                    }
                }
            }
            "close" => {
                let (_pa, fa) = fixture_file(dir, "ca", 4, 0);
                let raw = fa.as_raw_fd();
                let afd = for_a10(ring, fa, kind);
                let r = block_on(ring, afd.close());
                differ(&mut out, "close result", json!(errno(&r)), json!(0));
                if kind == Kind::File {
                    differ(&mut out, "descriptor open afterwards", json!(unsafe { libc::fcntl(raw, libc::F_GETFD) } != -1), json!(false));
                }
            }
            "socket" => {
                let dom = match a { 1 => Domain::UNIX, 2 => Domain::IPV4, _ => Domain::IPV6 };
                let ty = match b { 1 => Type::STREAM, 2 => Type::DGRAM, _ => Type::SEQPACKET };
                let pr = match c { 0 => None, 6 => Some(Protocol::TCP), _ => Some(Protocol::UDP) };
                let ra = block_on(ring, net::socket(sq.clone(), dom, ty, pr).kind(kind));
                let rl = cvt(unsafe { libc::socket(a as i32, b as i32 | libc::SOCK_CLOEXEC, c as i32) } as isize);
                differ(&mut out, "socket result", json!(errno(&ra)), json!(rl.as_ref().err().copied().unwrap_or(0)));
                if let (Ok(afd), Ok(lfd)) = (ra, rl) {
                    let lfd = unsafe { OwnedFd::from_raw_fd(lfd as i32) };
                    let v = view(ring, &afd);
                    let opt = |fd: RawFd, name: i32| {
                        let mut val: i32 = -1;
                        let mut len = 4u32;
                        unsafe { libc::getsockopt(fd, libc::SOL_SOCKET, name, std::ptr::from_mut(&mut val).cast(), &mut len) };
                        val
                    };
                    for (name, what) in [(libc::SO_DOMAIN, "SO_DOMAIN"), (libc::SO_TYPE, "SO_TYPE"), (libc::SO_PROTOCOL, "SO_PROTOCOL")] {
                        differ(&mut out, &format!("{what} of the new socket"), json!(opt(v.as_raw_fd(), name)), json!(opt(lfd.as_raw_fd(), name)));
                    }
                }
            }
            "connect" | "bind" | "listen" | "accept" => {
                // A loopback TCP conversation: bind + listen + connect + accept, each through a10.
                if (op == "connect" || op == "bind") && a == 110 || op == "accept" && b == 1 && kind == Kind::Direct && false {
                    return;
                }
                let v6 = a == 28;
                let new_sock = || -> OwnedFd {
                    let fd = unsafe { libc::socket(if v6 { libc::AF_INET6 } else { libc::AF_INET }, libc::SOCK_STREAM | libc::SOCK_CLOEXEC, 0) };
                    assert!(fd >= 0, "fixture: socket");
                    unsafe { OwnedFd::from_raw_fd(fd) }
                };
                {
                    // Is the loopback address of this family usable at all?
                    let probe = if v6 { std::net::TcpListener::bind("[::1]:0") } else { std::net::TcpListener::bind("127.0.0.1:0") };
                    assert!(probe.is_ok(), "fixture: bind (no loopback interface of that family?)");
                }
                let listener = for_a10(ring, new_sock(), kind);
                let lview = view(ring, &listener);
                let bound: std::io::Result<()> = if v6 {
                    block_on(ring, listener.bind(std::net::SocketAddrV6::new(std::net::Ipv6Addr::LOCALHOST, 0, 0, 0)))
                } else {
                    block_on(ring, listener.bind(std::net::SocketAddrV4::new(std::net::Ipv4Addr::LOCALHOST, 0)))
                };
                differ(&mut out, "bind result", json!(errno(&bound)), json!(0));
                let backlog = if op == "listen" { a as u32 } else { 8 };
                let listening = block_on(ring, listener.listen(backlog));
                differ(&mut out, "listen result", json!(errno(&listening)), json!(0));
                let mut acc: i32 = 0;
                let mut len = 4u32;
                unsafe { libc::getsockopt(lview.as_raw_fd(), libc::SOL_SOCKET, libc::SO_ACCEPTCONN, std::ptr::from_mut(&mut acc).cast(), &mut len) };
                differ(&mut out, "SO_ACCEPTCONN after listen", json!(acc), json!(1));
                let local = std::net::TcpListener::from(lview.try_clone().unwrap()).local_addr().unwrap();
                let client = for_a10(ring, new_sock(), kind);
                let connected: std::io::Result<()> = match local {
                    std::net::SocketAddr::V4(addr) => block_on(ring, client.connect(addr)),
                    std::net::SocketAddr::V6(addr) => block_on(ring, client.connect(addr)),
                };
                differ(&mut out, "connect result", json!(errno(&connected)), json!(0));
                let cview = view(ring, &client);
                let client_local = std::net::TcpStream::from(cview.try_clone().unwrap()).local_addr().unwrap();
                if v6 {
                    match block_on(ring, listener.accept::<std::net::SocketAddrV6>()) {
                        Ok((s, peer)) => {
                            differ(&mut out, "peer address reported by accept", json!(format!("{:?}", std::net::SocketAddr::V6(peer))), json!(format!("{client_local:?}")));
                            differ(&mut out, "kind of the accepted descriptor", json!(format!("{:?}", s.kind())), json!(format!("{kind:?}")));
                        }
                        Err(e) => out.push(json!({"field": "accept", "expected": "Ok", "observed": format!("{e:?}")})),
                    }
                } else {
                    match block_on(ring, listener.accept::<std::net::SocketAddrV4>()) {
                        Ok((s, peer)) => {
                            differ(&mut out, "peer address reported by accept", json!(format!("{:?}", std::net::SocketAddr::V4(peer))), json!(format!("{client_local:?}")));
                            differ(&mut out, "kind of the accepted descriptor", json!(format!("{:?}", s.kind())), json!(format!("{kind:?}")));
                        }
                        Err(e) => out.push(json!({"field": "accept", "expected": "Ok", "observed": format!("{e:?}")})),
                    }
                }
            }
            "sendto" => {
                // Unconnected UDP sockets on the loopback interface.
                if c == 110 {
                    return; // Unix addresses: C16
                }
                let v6 = c == 28;
                let table = [(1, SendFlag::OOB), (4, SendFlag::DONT_ROUTE), (128, SendFlag::EOR), (32768, SendFlag::MORE), (2048, SendFlag::CONFIRM)];
                if b & 1 != 0 {
                    return; // MSG_OOB is not supported on datagram sockets
                }
                let flags = flags_from(b as u32, &table);
                let udp = || -> OwnedFd { unsafe { OwnedFd::from_raw_fd(libc::socket(if v6 { libc::AF_INET6 } else { libc::AF_INET }, libc::SOCK_DGRAM | libc::SOCK_CLOEXEC, 0)) } };
                let receiver = || -> (std::net::UdpSocket, std::net::SocketAddr) {
                    let s = std::net::UdpSocket::bind(if v6 { "[::1]:0" } else { "127.0.0.1:0" }).expect("fixture: bind (no loopback interface of that family?)");
                    let a = s.local_addr().unwrap();
                    (s, a)
                };
                let ((ra, aa), (rl, al)) = (receiver(), receiver());
                let afd = for_a10(ring, udp(), kind);
                let sl = udp();
                let data = vec![b't'; a as usize];
                let got = match aa {
                    std::net::SocketAddr::V4(addr) => {
                        let f = afd.send_to(data.clone(), addr);
                        block_on(ring, match flags { Some(fl) => f.flags(fl), None => f })
                    }
                    std::net::SocketAddr::V6(addr) => {
                        let f = afd.send_to(data.clone(), addr);
                        block_on(ring, match flags { Some(fl) => f.flags(fl), None => f })
                    }
                };
                let want = {
                    let s = std::net::UdpSocket::from(sl);
                    let (storage, len) = match al {
                        std::net::SocketAddr::V4(addr) => {
                            let mut st: libc::sockaddr_storage = unsafe { std::mem::zeroed() };
                            let sin = libc::sockaddr_in { sin_family: libc::AF_INET as u16, sin_port: addr.port().to_be(), sin_addr: libc::in_addr { s_addr: u32::from_ne_bytes(addr.ip().octets()) }, sin_zero: [0; 8] };
                            unsafe { std::ptr::from_mut(&mut st).cast::<libc::sockaddr_in>().write(sin) };
                            (st, 16)
                        }
                        std::net::SocketAddr::V6(addr) => {
                            let mut st: libc::sockaddr_storage = unsafe { std::mem::zeroed() };
                            let sin = libc::sockaddr_in6 { sin6_family: libc::AF_INET6 as u16, sin6_port: addr.port().to_be(), sin6_flowinfo: 0, sin6_addr: libc::in6_addr { s6_addr: addr.ip().octets() }, sin6_scope_id: 0 };
                            unsafe { std::ptr::from_mut(&mut st).cast::<libc::sockaddr_in6>().write(sin) };
                            (st, 28)
                        }
                    };
                    cvt(unsafe { libc::sendto(s.as_raw_fd(), data.as_ptr().cast(), data.len(), b as i32 | libc::MSG_NOSIGNAL, std::ptr::from_ref(&storage).cast(), len) })
                };
                differ(&mut out, "sendto result", json!(got.map_err(|e| e.raw_os_error().unwrap_or(-1))), json!(want.map(|n| n as usize)));
                let recv = |s: &std::net::UdpSocket| {
                    s.set_nonblocking(true).unwrap();
                    let mut b = [0u8; 64];
                    s.recv_from(&mut b).map(|(n, _)| b[..n].to_vec()).ok()
                };
                // Loopback delivery is synchronous.
                differ(&mut out, "datagram that arrived", json!(recv(&ra)), json!(recv(&rl)));
            }
            "send" | "sendv" => {
                // Datagram pairs: message boundaries make the comparison exact.
                if op == "send" && c == 1 {
                    return; // zero copy: same data path, needs larger buffers to be meaningful
                }
                let bits = if op == "sendv" { a } else { b } as u32;
                let table = [(1, SendFlag::OOB), (4, SendFlag::DONT_ROUTE), (128, SendFlag::EOR), (32768, SendFlag::MORE), (2048, SendFlag::CONFIRM)];
                let flags = flags_from(bits, &table);
                let n = if op == "sendv" { 5 } else { a as usize };
                let (sa, ra) = socket_pair(libc::SOCK_DGRAM);
                let (sl, rl) = socket_pair(libc::SOCK_DGRAM);
                let afd = for_a10(ring, sa, kind);
                let got = if op == "sendv" {
                    let f = afd.send_vectored([vec![b'a'; 3], vec![b'b'; 2]]);
                    block_on(ring, match flags { Some(fl) => f.flags(fl), None => f })
                } else {
                    let f = afd.send(vec![b's'; n]);
                    block_on(ring, match flags { Some(fl) => f.flags(fl), None => f })
                };
                let data: Vec<u8> = if op == "sendv" { b"aaabb".to_vec() } else { vec![b's'; n] };
                let want = cvt(unsafe { libc::send(sl.as_raw_fd(), data.as_ptr().cast(), data.len(), bits as i32 | libc::MSG_NOSIGNAL) });
                differ(&mut out, "send result", json!(got.map_err(|e| e.raw_os_error().unwrap_or(-1))), json!(want.map(|n| n as usize)));
                differ(&mut out, "data that arrived", json!(drain(ra.as_raw_fd())), json!(drain(rl.as_raw_fd())));
            }
            "recv" | "recvfrom" => {
                let bits = if op == "recvfrom" { a } else { b } as u32;
                if bits & 1 != 0 || bits & 0x4000_0000 != 0 {
                    // MSG_OOB needs TCP urgent data; MSG_CMSG_CLOEXEC has no effect without control messages.
                    return;
                }
                let table = [(2, RecvFlag::PEEK), (256, RecvFlag::WAIT_ALL)];
                let flags = flags_from(bits, &table);
                let cap = if op == "recvfrom" { 9 } else { a as usize };
                let (sa, ra) = socket_pair(libc::SOCK_STREAM);
                let (sl, rl) = socket_pair(libc::SOCK_STREAM);
                for s in [&sa, &sl] {
                    // More than any capacity used, so MSG_WAITALL is satisfied.
                    assert_eq!(unsafe { libc::send(s.as_raw_fd(), b"0123456789abcdefghij".as_ptr().cast(), 20, 0) }, 20);
                }
                let afd = for_a10(ring, ra, kind);
                let got = if op == "recvfrom" {
                    let f = afd.recv_from::<_, a10::net::NoAddress>(Vec::with_capacity(cap));
                    block_on(ring, match flags { Some(fl) => f.flags(fl), None => f }).map(|(b, _, _)| b)
                } else {
                    let f = afd.recv(Vec::with_capacity(cap));
                    block_on(ring, match flags { Some(fl) => f.flags(fl), None => f })
                };
                let mut buf = vec![0u8; cap];
                let want = cvt(unsafe { libc::recv(rl.as_raw_fd(), buf.as_mut_ptr().cast(), cap, bits as i32) }).map(|n| { buf.truncate(n as usize); buf });
                differ(&mut out, "data received", json!(got.map_err(|e| e.raw_os_error().unwrap_or(-1))), json!(want));
                let v = view(ring, &afd);
                differ(&mut out, "data left in the socket", json!(drain(v.as_raw_fd())), json!(drain(rl.as_raw_fd())));
                drop(sa);
            }
            "shutdown" => {
                let (sa, ra) = socket_pair(libc::SOCK_STREAM);
                let (sl, rl) = socket_pair(libc::SOCK_STREAM);
                let afd = for_a10(ring, sa, kind);
                let how = match a { 0 => std::net::Shutdown::Read, 1 => std::net::Shutdown::Write, _ => std::net::Shutdown::Both };
                let r = block_on(ring, afd.shutdown(how));
                let w = cvt(unsafe { libc::shutdown(sl.as_raw_fd(), a as i32) } as isize);
                differ(&mut out, "shutdown result", json!(errno(&r)), json!(w.err().unwrap_or(0)));
                // What the peer observes: end of stream iff the write side was shut down.
                let eof = |fd: RawFd| {
                    let mut b = [0u8; 1];
                    unsafe { libc::recv(fd, b.as_mut_ptr().cast(), 1, libc::MSG_DONTWAIT) }
                };
                differ(&mut out, "what the peer reads afterwards", json!(eof(ra.as_raw_fd())), json!(eof(rl.as_raw_fd())));
                let v = view(ring, &afd);
                let send = |fd: RawFd| cvt(unsafe { libc::send(fd, b"x".as_ptr().cast(), 1, libc::MSG_NOSIGNAL | libc::MSG_DONTWAIT) });
                differ(&mut out, "sending afterwards", json!(send(v.as_raw_fd())), json!(send(sl.as_raw_fd())));
            }
            "getsockopt" | "setsockopt" => {
                if kind == Kind::Direct && a == 2 && op == "getsockopt" {
                    // The kernel's io_uring getsockopt only implements SOL_SOCKET; for regular descriptors
                    // a10 falls back to getsockopt(2), which does not exist for direct descriptors.
                    return;
                }
                let new_sock = || -> OwnedFd { unsafe { OwnedFd::from_raw_fd(libc::socket(libc::AF_INET, libc::SOCK_STREAM | libc::SOCK_CLOEXEC, 0)) } };
                let (level, name, len) = match a { 0 => (libc::SOL_SOCKET, libc::SO_KEEPALIVE, 4), 1 => (libc::SOL_SOCKET, libc::SO_LINGER, 8), _ => (libc::IPPROTO_TCP, libc::TCP_NODELAY, 4) };
                let raw_get = |fd: RawFd| {
                    let mut val = [0u8; 8];
                    let mut l = len as u32;
                    unsafe { libc::getsockopt(fd, level, name, val.as_mut_ptr().cast(), &mut l) };
                    val[..len].to_vec()
                };
                let sock = new_sock();
                let afd = for_a10(ring, sock, kind);
                let v = view(ring, &afd);
                if op == "setsockopt" {
                    let r = match a {
                        0 => block_on(ring, afd.set_socket_option::<option::KeepAlive>(true)),
                        1 => block_on(ring, afd.set_socket_option::<option::Linger>(Some(9))),
                        _ => block_on(ring, afd.set_socket_option::<option::TcpNoDelay>(true)),
                    };
                    differ(&mut out, "setsockopt result", json!(errno(&r)), json!(0));
                    let want: Vec<u8> = match a { 1 => [1i32.to_ne_bytes(), 9i32.to_ne_bytes()].concat(), _ => 1i32.to_ne_bytes().to_vec() };
                    differ(&mut out, "option value read back with getsockopt(2)", json!(raw_get(v.as_raw_fd())), json!(want));
                } else {
                    // Set with the system call, read through a10.
                    let val: Vec<u8> = match a { 1 => [1i32.to_ne_bytes(), 7i32.to_ne_bytes()].concat(), _ => 1i32.to_ne_bytes().to_vec() };
                    assert_eq!(unsafe { libc::setsockopt(v.as_raw_fd(), level, name, val.as_ptr().cast(), len as u32) }, 0);
                    let got = match a {
                        0 => block_on(ring, afd.socket_option::<option::KeepAlive>()).map(|b| json!(b)),
                        1 => block_on(ring, afd.socket_option::<option::Linger>()).map(|b| json!(b)),
                        _ => block_on(ring, afd.socket_option::<option::TcpNoDelay>()).map(|b| json!(b)),
                    };
                    let want = match a { 1 => json!(7), _ => json!(true) };
                    differ(&mut out, "option value read through a10", json!(got.map_err(|e| e.raw_os_error().unwrap_or(-1)).ok()), json!(Some(want)));
                }
            }
            "splice" => {
                // a: length, b: flags, c: 0 = to the pipe, 1 = from the pipe, d: 0 none / 1 from(o) / 2 at(o)
                if o > 1 << 20 {
                    return;
                }
                let table = [(1, SpliceFlag::MOVE), (4, SpliceFlag::MORE)];
                let flags = flags_from(b as u32, &table);
                let len = (a as usize).min(16);
                let (pa, fa) = fixture_file(dir, "pa", 32, 2);
                let (pl, fl) = fixture_file(dir, "pl", 32, 2);
                let mk_pipe = || {
                    let mut fds = [0; 2];
                    assert_eq!(unsafe { libc::pipe2(fds.as_mut_ptr(), libc::O_CLOEXEC | libc::O_NONBLOCK) }, 0);
                    unsafe { (OwnedFd::from_raw_fd(fds[0]), OwnedFd::from_raw_fd(fds[1])) }
                };
                let (ra, wa) = mk_pipe();
                let (rl, wl) = mk_pipe();
                let afd = for_a10(ring, fa, kind);
                let read_pipe = |fd: RawFd| {
                    let mut b = vec![0u8; 64];
                    let n = unsafe { libc::read(fd, b.as_mut_ptr().cast(), 64) };
                    b.truncate(n.max(0) as usize);
                    b
                };
                if c == 0 {
                    // file -> pipe; only the input offset (from) applies to a file, at() would be the pipe's.
                    if d == 2 {
                        return;
                    }
                    let f = afd.splice_to(wa.as_fd(), len as u32);
                    let f = if d == 1 { f.from(o) } else { f };
                    let got = block_on(ring, match flags { Some(fl) => f.flags(fl), None => f });
                    let mut off = o as i64;
                    let want = cvt(unsafe { libc::splice(fl.as_raw_fd(), if d == 1 { &mut off } else { std::ptr::null_mut() }, wl.as_raw_fd(), std::ptr::null_mut(), len, b as u32) });
                    differ(&mut out, "splice result", json!(got.map_err(|e| e.raw_os_error().unwrap_or(-1))), json!(want.map(|n| n as usize)));
                    differ(&mut out, "bytes in the pipe", json!(read_pipe(ra.as_raw_fd())), json!(read_pipe(rl.as_raw_fd())));
                } else {
                    if d == 1 {
                        return;
                    }
                    for w in [&wa, &wl] {
                        assert_eq!(unsafe { libc::write(w.as_raw_fd(), b"PIPEDATA-PIPEDATA".as_ptr().cast(), 17) }, 17);
                    }
                    let f = afd.splice_from(ra.as_fd(), len as u32);
                    let f = if d == 2 { f.at(o) } else { f };
                    let got = block_on(ring, match flags { Some(fl) => f.flags(fl), None => f });
                    let mut off = o as i64;
                    let want = cvt(unsafe { libc::splice(rl.as_raw_fd(), std::ptr::null_mut(), fl.as_raw_fd(), if d == 2 { &mut off } else { std::ptr::null_mut() }, len, b as u32) });
                    differ(&mut out, "splice result", json!(got.map_err(|e| e.raw_os_error().unwrap_or(-1))), json!(want.map(|n| n as usize)));
                    differ(&mut out, "file afterwards", file_state(&pa, o), file_state(&pl, o));
                }
                let v = view(ring, &afd);
                differ(&mut out, "file position afterwards", json!(position(v.as_raw_fd())), json!(position(fl.as_raw_fd())));
            }
            "madvise" => {
                let map = |len: usize| unsafe { libc::mmap(std::ptr::null_mut(), len, libc::PROT_READ | libc::PROT_WRITE, libc::MAP_PRIVATE | libc::MAP_ANONYMOUS, -1, 0) };
                let (ma, ml) = (map(a as usize), map(a as usize));
                let adv = [a10::mem::AdviseFlag::NORMAL, a10::mem::AdviseFlag::RANDOM, a10::mem::AdviseFlag::SEQUENTIAL, a10::mem::AdviseFlag::WILL_NEED, a10::mem::AdviseFlag::DONT_NEED];
                unsafe { ma.cast::<u8>().write(7) };
                unsafe { ml.cast::<u8>().write(7) };
                let r = block_on(ring, a10::mem::advise(sq.clone(), ma.cast(), a as u32, adv[b as usize]));
                let w = cvt(unsafe { libc::madvise(ml, a as usize, b as i32) } as isize);
                differ(&mut out, "madvise result", json!(errno(&r)), json!(w.err().unwrap_or(0)));
                // MADV_DONTNEED drops the page: it reads as zero afterwards.
                differ(&mut out, "first byte of the mapping afterwards", json!(unsafe { ma.cast::<u8>().read() }), json!(unsafe { ml.cast::<u8>().read() }));
                unsafe {
                    libc::munmap(ma, a as usize);
                    libc::munmap(ml, a as usize);
                }
            }
            "waitid" => {
                // One real child per side, waited for by process id (other id types and option
                // combinations would reap unrelated children of this process).
                if !(a == 1 && c == 4 && b == 1) {
                    return;
                }
                let spawn = || std::process::Command::new("sh").arg("-c").arg("exit 7").spawn();
                let (Ok(ca), Ok(mut cl)) = (spawn(), spawn()) else { panic!("fixture: spawn sh") };
                let got = block_on(ring, a10::process::wait_on(sq.clone(), &ca).flags(a10::process::WaitOption::EXITED));
                let mut info: libc::siginfo_t = unsafe { std::mem::zeroed() };
                let rl = cvt(unsafe { libc::waitid(libc::P_PID, cl.id(), &mut info, libc::WEXITED) } as isize);
                differ(&mut out, "waitid result", json!(errno(&got)), json!(rl.err().unwrap_or(0)));
                if let Ok(i) = got {
                    use std::os::unix::process::ExitStatusExt;
                    differ(&mut out, "waitid: which child", json!(i.pid() as u32 == ca.id()), json!(unsafe { info.si_pid() } as u32 == cl.id()));
                    differ(&mut out, "waitid: exit status and signal", json!([i.status().into_raw(), i32::from(format!("{:?}", i.signal()) == format!("{:?}", a10::process::Signal::CHILD))]),
                        json!([unsafe { info.si_status() }, i32::from(info.si_signo == libc::SIGCHLD)]));
                }
                let _ = cl.try_wait();
            }
            "pipe" => {
                let got = block_on(ring, a10::pipe::pipe(sq.clone()).kind(kind));
                let mut fds = [0; 2];
                let rl = cvt(unsafe { libc::pipe2(fds.as_mut_ptr(), libc::O_CLOEXEC) } as isize);
                differ(&mut out, "pipe result", json!(errno(&got)), json!(rl.err().unwrap_or(0)));
                if let Ok([r, w]) = got {
                    let (lr, lw) = unsafe { (OwnedFd::from_raw_fd(fds[0]), OwnedFd::from_raw_fd(fds[1])) };
                    let n = block_on(ring, w.write(b"through the pipe".to_vec()));
                    assert_eq!(unsafe { libc::write(lw.as_raw_fd(), b"through the pipe".as_ptr().cast(), 16) }, 16);
                    differ(&mut out, "write into the new pipe", json!(n.map_err(|e| e.raw_os_error().unwrap_or(-1))), json!(Ok::<usize, i32>(16)));
                    let data = block_on(ring, r.read(Vec::with_capacity(32)));
                    let mut buf = vec![0u8; 32];
                    let k = unsafe { libc::read(lr.as_raw_fd(), buf.as_mut_ptr().cast(), 32) };
                    buf.truncate(k.max(0) as usize);
                    differ(&mut out, "read from the new pipe", json!(data.map_err(|e| e.raw_os_error().unwrap_or(-1))), json!(Ok::<Vec<u8>, i32>(buf)));
                    if kind == Kind::File {
                        let cloexec = |fd: RawFd| unsafe { libc::fcntl(fd, libc::F_GETFD) } & libc::FD_CLOEXEC;
                        let (vr, vw) = (view(ring, &r), view(ring, &w));
                        let _ = (&vr, &vw);
                        differ(&mut out, "close-on-exec of the new descriptors", json!([cloexec(r.as_fd().unwrap().as_raw_fd()), cloexec(w.as_fd().unwrap().as_raw_fd())]),
                            json!([cloexec(lr.as_raw_fd()), cloexec(lw.as_raw_fd())]));
                    }
                }
            }
            "pollable" => {
                // poll(2) for readability of a second ring's descriptor against Ring::pollable.
                let rings = || -> Vec<RawFd> {
                    let mut v: Vec<RawFd> = std::fs::read_dir("/proc/self/fd").unwrap().filter_map(|e| {
                        let e = e.ok()?;
                        let link = std::fs::read_link(e.path()).ok()?;
                        if link.to_string_lossy().contains("io_uring") { e.file_name().to_string_lossy().parse().ok() } else { None }
                    }).collect();
                    v.sort_unstable();
                    v
                };
                let before = rings();
                let mut ring2 = a10::Ring::new().expect("second ring");
                let fd2 = rings().into_iter().find(|f| !before.contains(f)).expect("descriptor of the second ring");
                let readable = |fd: RawFd| {
                    let mut p = libc::pollfd { fd, events: libc::POLLIN, revents: 0 };
                    let n = unsafe { libc::poll(&mut p, 1, 0) };
                    n == 1 && p.revents & libc::POLLIN != 0
                };
                let sq2 = ring2.sq();
                let [r, w] = block_on(&mut ring2, a10::pipe::pipe(sq2)).expect("fixture: pipe on the second ring");
                let mut stream = Box::pin(ring2.pollable(sq.clone()));
                let mut ctx = Context::from_waker(Waker::noop());
                let mut yielded = |ring: &mut a10::Ring, stream: &mut Pin<Box<a10::poll::Pollable>>, rounds: usize| -> Option<i32> {
                    for _ in 0..rounds {
                        if let Poll::Ready(x) = stream.as_mut().poll_next(&mut ctx) {
                            return Some(match x { Some(Ok(())) => 0, Some(Err(e)) => e.raw_os_error().unwrap_or(-1), None => -2 });
                        }
                        ring.poll(Some(Duration::from_millis(5))).expect("Ring::poll");
                    }
                    None
                };
                // Nothing to read in the second ring: neither reports it readable.
                differ(&mut out, "pollable before any completion", json!(yielded(ring, &mut stream, 4)), json!(if readable(fd2) { Some(0) } else { None }));
                // A read on the second ring completes while nobody polls that ring.
                let mut rd = Box::pin(r.read(Vec::with_capacity(8)));
                let mut ctx2 = Context::from_waker(Waker::noop());
                let _ = rd.as_mut().poll(&mut ctx2);
                ring2.poll(Some(Duration::ZERO)).expect("Ring::poll");
                differ(&mut out, "pollable while the read is in flight", json!(yielded(ring, &mut stream, 2)), json!(if readable(fd2) { Some(0) } else { None }));
                assert_eq!(unsafe { libc::write(w.as_fd().unwrap().as_raw_fd(), b"x".as_ptr().cast(), 1) }, 1);
                let mut seen = false;
                for _ in 0..200 {
                    if readable(fd2) { seen = true; break; }
                    std::thread::sleep(Duration::from_millis(5));
                }
                differ(&mut out, "pollable after a completion was posted", json!(yielded(ring, &mut stream, 400)), json!(if seen { Some(0) } else { None }));
                let data = block_on(&mut ring2, rd);
                differ(&mut out, "the read on the second ring", json!(data.map_err(|e| e.raw_os_error().unwrap_or(-1))), json!(Ok::<Vec<u8>, i32>(b"x".to_vec())));
                // Consumed: poll(2) says not readable, and the (edge-triggered) stream stays quiet
                // or has ended (this kernel completes a multishot poll of an io_uring descriptor
                // without IORING_CQE_F_MORE after the first event); it must not report readiness.
                let after = yielded(ring, &mut stream, 2).filter(|v| *v != -2);
                differ(&mut out, "pollable after the completion was consumed", json!(after), json!(if readable(fd2) { Some(0) } else { None }));
                drop(stream);
                let _ = ring.poll(Some(Duration::ZERO));
                drop((r, w));
                drop(ring2);
            }
            "read_pool" | "recv_pool" | "read_multishot" | "recv_multishot" | "to_direct" | "to_file" => {
                // Buffer selection has no system call counterpart (C08 / C15); the descriptor
                // conversions are used by every other case of this file.
            }
            other => out.push(json!({"field": "operation unknown to the replayer", "expected": other, "observed": null})),
        }
        let _ = (c, d);
    });
    out
}

fn main() {
    let args: Vec<String> = std::env::args().collect();
    let mut cases_path = String::new();
    let (mut from, mut to) = (0usize, usize::MAX);
    let mut out_path = String::new();
    let mut progress_path = String::new();
    let mut i = 1;
    while i < args.len() {
        let v = args.get(i + 1).cloned().unwrap_or_default();
        match args[i].as_str() {
            "--cases" | "--replay-file" => cases_path = v,
            "--from" => from = v.parse().unwrap(),
            "--to" => to = v.parse().unwrap(),
            "--out" => out_path = v,
            "--progress" => progress_path = v,
            other => {
                eprintln!("unknown argument {other}");
                std::process::exit(2);
            }
        }
        i += 2;
    }
    let text = std::fs::read_to_string(&cases_path).expect("cases file");
    let cases: Vec<Value> = text.lines().filter(|l| !l.trim().is_empty()).map(|l| serde_json::from_str(l).unwrap()).collect();
    let mut out: Box<dyn std::io::Write> =
        if out_path.is_empty() { Box::new(std::io::stdout()) } else { Box::new(std::fs::File::create(&out_path).unwrap()) };
    if std::env::var_os("VERIF_PANIC_MSG").is_none() {
        std::panic::set_hook(Box::new(|_| {}));
    }
    let dir = std::env::temp_dir().join(format!("a10-verif-posix-{}-{}", std::process::id(), from));
    std::fs::create_dir_all(&dir).expect("scratch directory");
    unsafe { libc::umask(0o022) };
    let to = to.min(cases.len());
    let mut bad = 0;
    let mut skipped = 0;
    for (ci, case) in cases.iter().enumerate().take(to).skip(from) {
        if !progress_path.is_empty() && ci % 8 == 0 {
            let mut raw = Vec::new();
            raw.extend_from_slice(&(ci as u64).to_le_bytes());
            raw.extend_from_slice(&0u64.to_le_bytes());
            let _ = std::fs::write(&progress_path, raw);
        }
        let case = if case.get("case").is_some() { &case["case"] } else { case };
        let problems = match catch_unwind(AssertUnwindSafe(|| run_case(case, &dir))) {
            Ok(p) => p,
            Err(p) => {
                RK.with(|c| std::mem::forget(c.borrow_mut().take()));
                let msg = p.downcast_ref::<String>().cloned().or_else(|| p.downcast_ref::<&str>().map(|s| (*s).to_string())).unwrap_or_default();
                if msg.starts_with("fixture: ") {
                    // The environment cannot provide the fixture (e.g. no IPv6 loopback): nothing to compare.
                    skipped += 1;
                    Vec::new()
                } else {
                    vec![json!({"field": "panic", "expected": null, "observed": msg})]
                }
            }
        };
        if let Some(mut d) = problems.into_iter().next() {
            bad += 1;
            d["path"] = json!(ci);
            d["step"] = json!(0);
            d["tag"] = json!("C13");
            d["case"] = case.clone();
            writeln!(out, "{d}").unwrap();
        }
    }
    RK.with(|c| drop(c.borrow_mut().take()));
    let _ = std::fs::remove_dir_all(&dir);
    if !progress_path.is_empty() {
        let mut raw = Vec::new();
        raw.extend_from_slice(&u64::MAX.to_le_bytes());
        raw.extend_from_slice(&0u64.to_le_bytes());
        let _ = std::fs::write(&progress_path, raw);
    }
    writeln!(out, "{}", json!({"summary": true, "paths": to.saturating_sub(from), "steps": to.saturating_sub(from), "diverged_paths": bad, "skipped_for_lack_of_fixture": skipped})).unwrap();
}

//! C08 (thread level): ReadBufs of a ReadBufPool given back on several threads
//! while the kernel selects buffers at any time, under the baton scheduler.
//!
//! Set-up: a pool of N buffers, all of them selected by earlier reads, so the
//! application owns N ReadBufs and the ring's counters are at N (or further,
//! `--rounds` repeats select-all / give-back-all first).  Then every ReadBuf is
//! dropped on its own logical thread while a kernel thread performs up to K
//! buffer selections at arbitrary points.
//!
//! Oracle (PoolMT.tla, Exclusive / Conserved): the kernel may only select a
//! buffer whose release has been published (tail stored) and that it has not
//! selected since; at the end the ring offers exactly the buffers given back
//! and not selected.
//!
//! usage: sched_pool --bufs N --takes K [--rounds R] --preemptions B [--max-exec K] [--random R] [--out FILE] [--replay-file FILE]

use std::collections::BTreeMap;
use std::future::Future;
use std::io::Write as _;
use std::sync::{Arc, Mutex};
use std::task::{Context, Poll};
use std::time::Duration;

use a10::io::{ReadBuf, ReadBufPool};
use a10_verif_harness::sched::{self, Body, Execution};
use a10_verif_harness::simk;
use a10_verif_harness::{alloc, events, wakers};
use serde_json::{Value, json};

#[derive(Clone)]
struct Params {
    bufs: u16,
    takes: usize,
    rounds: usize,
}

struct Outcome {
    exec: Execution,
    problems: Vec<Value>,
}

/// One read into a pool buffer, answered by the kernel with one byte.
fn read_one(ring: &mut a10::Ring, rfd: i32, fd: &'static a10::AsyncFd, pool: &ReadBufPool, group: u16) -> Result<ReadBuf, String> {
    let waker = wakers::waker(0);
    let mut ctx = Context::from_waker(&waker);
    let mut f = Box::pin(fd.read(pool.get()));
    if !f.as_mut().poll(&mut ctx).is_pending() {
        return Err("read completed without the kernel".into());
    }
    ring.poll(Some(Duration::ZERO)).map_err(|e| e.to_string())?;
    let req = simk::kernel().rings[&rfd].inflight.first().cloned().ok_or("no request")?;
    let (flags, n) = simk::kernel().take_buffer(rfd, group, b"x").map_err(|e| format!("take_buffer {e}"))?;
    simk::kernel().complete(rfd, req.sqe.user_data(), n, flags);
    ring.poll(Some(Duration::ZERO)).map_err(|e| e.to_string())?;
    match f.as_mut().poll(&mut ctx) {
        Poll::Ready(Ok(buf)) => Ok(buf),
        Poll::Ready(Err(e)) => Err(format!("read failed: {e}")),
        Poll::Pending => Err("read still pending".into()),
    }
}

fn run_once(p: &Params, prefix: Vec<usize>, random: Option<u64>) -> Outcome {
    simk::reset();
    wakers::reset();
    events::clear();
    alloc::begin();
    let mut ring = a10::Ring::config().with_submission_queue_size(4).build().expect("ring");
    let rfd = *simk::kernel().rings.keys().next().unwrap();
    let fdn = simk::kernel().alloc_fd();
    let fd_ptr = Box::into_raw(Box::new(unsafe { a10::AsyncFd::from_raw_fd(fdn, ring.sq()) }));
    let fd: &'static a10::AsyncFd = unsafe { &*fd_ptr };
    let pool = ReadBufPool::new(ring.sq(), p.bufs, 8).expect("pool");
    let group = events::take().iter().find(|e| e.name == "PoolNew").expect("PoolNew").f[0] as u16;
    // Advance the counters: select everything, give everything back, `rounds` times; then select
    // everything once more and keep the buffers.
    let mut held: Vec<ReadBuf> = Vec::new();
    let mut setup_error = None;
    for round in 0..=p.rounds {
        for _ in 0..p.bufs {
            match read_one(&mut ring, rfd, fd, &pool, group) {
                Ok(b) => held.push(b),
                Err(e) => setup_error = Some(e),
            }
        }
        if round < p.rounds {
            held.clear();
        }
    }
    events::clear();
    simk::kernel().take_notes();
    let mut problems = Vec::new();
    if let Some(e) = setup_error {
        problems.push(json!({"field": "set-up", "expected": "buffers selected", "observed": e}));
    }
    let taken: Arc<Mutex<Vec<(u16, bool)>>> = Arc::new(Mutex::new(Vec::new()));
    let mut bodies: Vec<Body> = Vec::new();
    let nthreads = held.len();
    let done = Arc::new(std::sync::atomic::AtomicUsize::new(0));
    for buf in held.drain(..) {
        let done = done.clone();
        bodies.push(Box::new(move || {
            sched::yield_now("drop.readbuf");
            alloc::tracked(|| drop(buf));
            done.fetch_add(1, std::sync::atomic::Ordering::SeqCst);
        }));
    }
    {
        let taken = taken.clone();
        let takes = p.takes;
        let done = done.clone();
        bodies.push(Box::new(move || {
            let mut n = 0;
            let mut selected: BTreeMap<u16, usize> = BTreeMap::new();
            while n < takes {
                sched::yield_now("kernel.select");
                let r = simk::kernel().take_buffer(rfd, group, b"k");
                match r {
                    Ok((flags, _)) => {
                        let bid = (flags >> 16) as u16;
                        // Published releases of this buffer so far (the event is emitted, without a
                        // scheduling point in between, right before the tail is stored).
                        let published = events::peek(|evs| evs.iter().filter(|e| e.name == "BufRelease" && e.f[1] as u16 == bid).count());
                        let before = selected.entry(bid).or_default();
                        let ok = published > *before;
                        *before += 1;
                        taken.lock().unwrap().push((bid, ok));
                        n += 1;
                        sched::note_progress();
                    }
                    Err(_) => {
                        if done.load(std::sync::atomic::Ordering::SeqCst) >= nthreads {
                            break;
                        }
                        sched::yield_idle("kernel.nobufs");
                    }
                }
            }
        }));
    }
    let exec = sched::execute(bodies, prefix, random, 0, 20_000);
    let evs = events::take();
    let taken = taken.lock().unwrap().clone();
    for (i, (bid, ok)) in taken.iter().enumerate() {
        if !ok {
            problems.push(json!({"field": "the kernel selected a buffer that was not on offer (still owned by a ReadBuf, or selected twice)",
                "expected": "a published, unselected buffer", "observed": {"selection": i, "buffer": bid}}));
            break;
        }
    }
    for (t, msg) in &exec.panics {
        problems.push(json!({"field": "panic", "expected": null, "observed": {"thread": t, "message": msg}}));
    }
    if exec.deadlock {
        problems.push(json!({"field": "deadlock", "expected": null, "observed": exec.stuck}));
    }
    if problems.is_empty() {
        // Conservation at rest.
        let mut want: BTreeMap<u16, i64> = BTreeMap::new();
        for e in evs.iter().filter(|e| e.name == "BufRelease") {
            *want.entry(e.f[1] as u16).or_default() += 1;
        }
        for (bid, _) in &taken {
            *want.entry(*bid).or_default() -= 1;
        }
        let mut want: Vec<u16> = want.into_iter().filter(|(_, n)| *n > 0).map(|(b, _)| b).collect();
        want.sort_unstable();
        let mut got: Vec<u16> = simk::kernel().offered_buffers(rfd, group).iter().map(|(b, _)| *b).collect();
        got.sort_unstable();
        if want != got {
            problems.push(json!({"field": "buffers on offer at rest", "expected": want, "observed": got}));
        }
    }
    drop(pool);
    drop(unsafe { Box::from_raw(fd_ptr) });
    drop(ring);
    simk::forget_closed_rings();
    let _ = alloc::end();
    Outcome { exec, problems }
}

fn main() {
    let args: Vec<String> = std::env::args().collect();
    let mut p = Params { bufs: 2, takes: 2, rounds: 0 };
    let mut preemptions = 2usize;
    let mut max_exec = 200_000u64;
    let mut out_path = String::new();
    let mut replay_file = String::new();
    let mut random_runs = 0u64;
    let mut seed = 1u64;
    let mut i = 1;
    while i < args.len() {
        let v = args.get(i + 1).cloned().unwrap_or_default();
        match args[i].as_str() {
            "--bufs" => p.bufs = v.parse().unwrap(),
            "--takes" => p.takes = v.parse().unwrap(),
            "--rounds" => p.rounds = v.parse().unwrap(),
            "--preemptions" => preemptions = v.parse().unwrap(),
            "--max-exec" => max_exec = v.parse().unwrap(),
            "--random" => random_runs = v.parse().unwrap(),
            "--seed" => seed = v.parse().unwrap(),
            "--out" => out_path = v,
            "--replay-file" => replay_file = v,
            other => {
                eprintln!("unknown argument {other}");
                std::process::exit(2);
            }
        }
        i += 2;
    }
    if std::env::var_os("VERIF_PANIC_MSG").is_none() {
        std::panic::set_hook(Box::new(|_| {}));
    }
    simk::install();
    events::install();
    let mut out: Box<dyn std::io::Write> =
        if out_path.is_empty() { Box::new(std::io::stdout()) } else { Box::new(std::fs::File::create(&out_path).unwrap()) };
    let config = |p: &Params| json!({"bufs": p.bufs, "takes": p.takes, "rounds": p.rounds});
    if !replay_file.is_empty() {
        let v: Value = serde_json::from_str(&std::fs::read_to_string(&replay_file).expect("replay file")).unwrap();
        let c = &v["config"];
        p = Params { bufs: c["bufs"].as_u64().unwrap() as u16, takes: c["takes"].as_u64().unwrap() as usize, rounds: c["rounds"].as_u64().unwrap_or(0) as usize };
        let prefix: Vec<usize> = v["schedule"].as_array().map(|a| a.iter().filter_map(Value::as_u64).map(|x| x as usize).collect()).unwrap_or_default();
        let o = run_once(&p, prefix, None);
        for pr in &o.problems {
            writeln!(out, "{}", json!({"tag": "C08", "field": pr["field"], "expected": pr["expected"], "observed": pr["observed"]})).unwrap();
        }
        writeln!(out, "{}", json!({"summary": true, "paths": 1, "steps": o.exec.steps, "diverged_paths": usize::from(!o.problems.is_empty())})).unwrap();
        return;
    }
    let mut bad = 0u64;
    let mut steps = 0u64;
    let mut visit = |o: &Outcome, out: &mut Box<dyn std::io::Write>| {
        steps += o.exec.steps;
        if let Some(pr) = o.problems.first() {
            bad += 1;
            if bad <= 20 {
                let schedule: Vec<usize> = o.exec.trace.iter().map(|c| c.chosen).collect();
                writeln!(out, "{}", json!({"path": bad, "step": 0, "tag": "C08", "field": pr["field"], "expected": pr["expected"], "observed": pr["observed"],
                    "config": config(&p), "schedule": schedule, "model": "PoolMT",
                    "log": o.exec.log.iter().map(|(t, l)| format!("{t}:{l}")).collect::<Vec<_>>()})).unwrap();
            }
        }
    };
    let (executions, complete) = sched::explore(preemptions, max_exec, |prefix| {
        let o = run_once(&p, prefix, None);
        visit(&o, &mut out);
        (o.exec.trace.clone(), true)
    });
    let mut randoms = 0;
    for r in 0..random_runs {
        let o = run_once(&p, Vec::new(), Some(seed.wrapping_mul(0x9E37_79B9_7F4A_7C15).wrapping_add(r + 1) | 1));
        visit(&o, &mut out);
        randoms += 1;
    }
    writeln!(out, "{}", json!({"summary": true, "paths": executions + randoms, "steps": steps, "diverged_paths": bad, "complete": complete,
        "config": config(&p), "preemption_bound": preemptions})).unwrap();
}

//! Replays the request-encoding table of `spec/Abi.tla` (C13): every case is an
//! operation, a descriptor kind and an argument tuple together with the
//! submission queue entry the io_uring ABI prescribes for the corresponding
//! POSIX call.  The operation is built through a10's public API, submitted to
//! the simulated kernel, and the entry the kernel receives is compared field by
//! field; then a scripted result is delivered and the future's output checked
//! (success value, and a negative result as exactly that error).
//!
//! usage: replay_abi --cases FILE [--from N] [--to M] [--out FILE] [--progress FILE]

use std::future::Future;
use std::io::Write as _;
use std::net::{Ipv4Addr, Ipv6Addr, SocketAddrV4, SocketAddrV6};
use std::os::fd::{AsRawFd, OwnedFd};
use std::panic::{AssertUnwindSafe, catch_unwind};
use std::path::PathBuf;
use std::pin::Pin;
use std::task::{Context, Poll};
use std::time::Duration;

use a10::fd::Kind;
use a10::fs::{self, MetadataInterest, OpenOptions};
use a10::io::SpliceFlag;
use a10::net::{self, Domain, Protocol, RecvFlag, SendFlag, Type, option};
use a10::process::{self, WaitOn, WaitOption};
use a10_verif_harness::abi::Sqe;
use a10_verif_harness::{simk, wakers};
use serde_json::{Value, json};

const DIRECT_SLOT: i32 = 2000;
const ERRNO: i32 = 28; // ENOSPC: not special to any operation

struct Fixture {
    ring: a10::Ring,
    rfd: i32,
    file: &'static a10::AsyncFd,
    file_id: i32,
    direct: &'static a10::AsyncFd,
    other: OwnedFd,
    pool: a10::io::ReadBufPool,
    group: u16,
}

thread_local! {
    /// Descriptor of the second ring of the "pollable" case.
    static RING2: std::cell::Cell<i32> = const { std::cell::Cell::new(-1) };
    static FIXTURE: std::cell::RefCell<Option<Fixture>> = const { std::cell::RefCell::new(None) };
}

fn poll_once<F: Future + Unpin>(fut: &mut F) -> Poll<F::Output> {
    let waker = wakers::waker(0);
    let mut ctx = Context::from_waker(&waker);
    Pin::new(fut).poll(&mut ctx)
}

fn new_fixture() -> Fixture {
    simk::install();
    let mut ring = a10::Ring::config().with_submission_queue_size(8).with_direct_descriptors(2048).build().expect("ring");
    let rfd = *simk::kernel().rings.keys().max().unwrap();
    let sq = ring.sq();
    let file_id = simk::kernel().alloc_fd();
    let file: &'static a10::AsyncFd = Box::leak(Box::new(unsafe { a10::AsyncFd::from_raw_fd(file_id, sq.clone()) }));
    // A direct descriptor, through the crate's own conversion.
    let base_id = simk::kernel().alloc_fd();
    let base: &'static a10::AsyncFd = Box::leak(Box::new(unsafe { a10::AsyncFd::from_raw_fd(base_id, sq) }));
    let mut conv = Box::pin(base.to_direct_descriptor());
    assert!(poll_once(&mut conv).is_pending());
    ring.poll(Some(Duration::ZERO)).expect("poll");
    {
        let mut k = simk::kernel();
        let req = k.rings[&rfd].inflight[0].clone();
        unsafe { (req.sqe.addr() as *mut i32).write(DIRECT_SLOT) };
        k.rings.get_mut(&rfd).unwrap().files.as_mut().unwrap()[DIRECT_SLOT as usize] = true;
        k.complete(rfd, req.sqe.user_data(), 1, 0);
    }
    ring.poll(Some(Duration::ZERO)).expect("poll");
    let direct = match poll_once(&mut conv) {
        Poll::Ready(Ok(d)) => d,
        other => panic!("to_direct_descriptor on the simulated kernel: {other:?}"),
    };
    drop(conv);
    let direct: &'static a10::AsyncFd = Box::leak(Box::new(direct));
    let other: OwnedFd = std::fs::File::open("/dev/null").expect("/dev/null").into();
    let pool = a10::io::ReadBufPool::new(ring.sq(), 4, 32).expect("pool");
    let group = *simk::kernel().rings[&rfd].pbuf.keys().next().expect("registered buffer ring");
    simk::kernel().take_notes();
    Fixture { ring, rfd, file, file_id, direct, other, pool, group }
}

fn with_fixture<R>(f: impl FnOnce(&mut Fixture) -> R) -> R {
    FIXTURE.with(|c| {
        let mut c = c.borrow_mut();
        if c.is_none() {
            *c = Some(new_fixture());
        }
        f(c.as_mut().unwrap())
    })
}

/// What the replayer knows about the pointers of this case.
#[derive(Default)]
struct Ptrs {
    buf: Option<usize>,
    /// (base, length) of every buffer of a vectored operation.
    iov: Vec<(usize, usize)>,
    path: Option<Vec<u8>>,
    path2: Option<Vec<u8>>,
    sockaddr: Option<Vec<u8>>,
    mem: Option<usize>,
    optval: Option<Vec<u8>>,
}

fn u64_of(v: &Value) -> u64 {
    let hi = v[0].as_i64().unwrap_or(0) as u32 as u64;
    let lo = v[1].as_i64().unwrap_or(0) as i32 as u32 as u64;
    (hi << 32) | lo
}

fn cstr_at(ptr: u64) -> Vec<u8> {
    if ptr == 0 {
        return b"<null>".to_vec();
    }
    unsafe { std::ffi::CStr::from_ptr(ptr as *const libc::c_char).to_bytes().to_vec() }
}

fn bytes_at(ptr: u64, len: usize) -> Vec<u8> {
    if ptr == 0 {
        return Vec::new();
    }
    unsafe { std::slice::from_raw_parts(ptr as *const u8, len).to_vec() }
}

fn compare(case: &Value, fx: &Fixture, sqe: &Sqe, p: &Ptrs, out: &mut Vec<Value>) {
    let e = &case["e"];
    let kind = case["kind"].as_str().unwrap_or("file");
    let target = if kind == "direct" { DIRECT_SLOT } else { fx.file_id };
    let mut bad = |field: &str, expected: Value, observed: Value| {
        out.push(json!({"field": format!("submission entry: {field}"), "expected": expected, "observed": observed}));
    };
    if i64::from(sqe.opcode()) != e["opcode"].as_i64().unwrap() {
        bad("opcode", e["opcode"].clone(), json!(sqe.opcode()));
        return;
    }
    let want_fd = match e["fd"].as_str().unwrap() {
        "TARGET" => target,
        "CWD" => libc::AT_FDCWD,
        "NONE" => -1,
        "OTHER" => fx.other.as_raw_fd(),
        "RING2" => RING2.with(std::cell::Cell::get),
        _ => e["fdv"].as_i64().unwrap() as i32,
    };
    if sqe.fd() != want_fd {
        bad("fd", json!(want_fd), json!(sqe.fd()));
    }
    let fixed = sqe.flags() & 1 != 0;
    if fixed != e["fixed"].as_bool().unwrap() {
        bad("IOSQE_FIXED_FILE", e["fixed"].clone(), json!(fixed));
    }
    // IOSQE_ASYNC (16) only tells the kernel how to execute the request, not what it does.
    let select = e["select"].as_bool() == Some(true);
    if (sqe.flags() & 32 != 0) != select {
        bad("IOSQE_BUFFER_SELECT", json!(select), json!(sqe.flags() & 32 != 0));
    }
    if sqe.flags() & !(1 | 16 | 32) != 0 {
        bad("other submission flags", json!(0), json!(sqe.flags() & !(1 | 16 | 32)));
    }
    // off / addr2
    match e["off"].as_str().unwrap() {
        "NUM" => {
            if sqe.off() != u64_of(&e["offv"]) {
                bad("off", json!(u64_of(&e["offv"])), json!(sqe.off()));
            }
        }
        "CUR" => {
            if sqe.off() != u64::MAX {
                bad("off (current position = -1)", json!(u64::MAX), json!(sqe.off()));
            }
        }
        "PATH2" => {
            if Some(cstr_at(sqe.off())) != p.path2 {
                bad("second path", json!(p.path2.as_ref().map(|b| String::from_utf8_lossy(b).into_owned())), json!(String::from_utf8_lossy(&cstr_at(sqe.off()))));
            }
        }
        "SOCKADDR" => {
            let want = p.sockaddr.clone().unwrap_or_default();
            if bytes_at(sqe.off(), want.len()) != want {
                bad("destination address bytes", json!(want), json!(bytes_at(sqe.off(), want.len())));
            }
        }
        "ADDRLENPTR" => {
            let n = if sqe.off() == 0 { 0 } else { unsafe { (sqe.off() as *const u32).read() } };
            if (n as usize) < std::mem::size_of::<libc::sockaddr_in>() {
                bad("address length the kernel may write", json!(">= sizeof(sockaddr_in)"), json!(n));
            }
        }
        "ANY" => {}
        "ALLOC" => {
            // IORING_FILE_INDEX_ALLOC: the kernel reads a 32 bit offset.
            if sqe.off() as u32 != u32::MAX {
                bad("off (IORING_FILE_INDEX_ALLOC)", json!(u32::MAX), json!(sqe.off()));
            }
        }
        "STATXBUF" | "SIGINFO" => {
            if sqe.off() == 0 {
                bad("result structure pointer", json!("non-null"), json!(0));
            }
        }
        other => bad("off tag unknown to the replayer", json!(other), Value::Null),
    }
    // addr
    match e["addr"].as_str().unwrap() {
        "ZERO" => {
            if sqe.addr() != 0 {
                bad("addr", json!(0), json!(sqe.addr()));
            }
        }
        "NUM" => {
            if sqe.addr() != u64_of(&e["addrv"]) {
                bad("addr", json!(u64_of(&e["addrv"])), json!(sqe.addr()));
            }
        }
        "MINUS1" => {
            if sqe.addr() != u64::MAX {
                bad("addr (absent offset = -1)", json!(u64::MAX), json!(sqe.addr()));
            }
        }
        "BUF" => {
            let len = e["len"].as_i64().unwrap();
            if len != 0 && Some(sqe.addr() as usize) != p.buf {
                bad("buffer address", json!(p.buf), json!(sqe.addr()));
            }
        }
        "IOV" => {
            let n = sqe.len() as usize;
            let got: Vec<(usize, usize)> = (0..n.min(8)).map(|i| unsafe { (sqe.addr() as *const libc::iovec).add(i).read() }).map(|v| (v.iov_base as usize, v.iov_len)).collect();
            let same = got.len() == p.iov.len() && got.iter().zip(&p.iov).all(|(g, w)| g.1 == w.1 && (w.1 == 0 || g.0 == w.0));
            if !same {
                bad("iovec array", json!(p.iov), json!(got));
            }
        }
        "PATH" | "EMPTYPATH" => {
            let want = if e["addr"] == "EMPTYPATH" { Some(Vec::new()) } else { p.path.clone() };
            if Some(cstr_at(sqe.addr())) != want {
                bad("path", json!(want.map(|b| String::from_utf8_lossy(&b).into_owned())), json!(String::from_utf8_lossy(&cstr_at(sqe.addr()))));
            }
        }
        "SOCKADDR" => {
            if e["opcode"].as_i64() == Some(13) {
                if sqe.addr() == 0 {
                    bad("address storage pointer", json!("non-null"), json!(0));
                }
            } else {
                let want = p.sockaddr.clone().unwrap_or_default();
                if bytes_at(sqe.addr(), want.len()) != want {
                    bad("address bytes", json!(want), json!(bytes_at(sqe.addr(), want.len())));
                }
            }
        }
        "MSGHDR" => {
            if sqe.addr() == 0 {
                bad("msghdr pointer", json!("non-null"), json!(0));
            } else {
                let hdr = unsafe { (sqe.addr() as *const libc::msghdr).read() };
                let got: Vec<(usize, usize)> = (0..hdr.msg_iovlen.min(8)).map(|i| unsafe { hdr.msg_iov.add(i).read() }).map(|v| (v.iov_base as usize, v.iov_len)).collect();
                let same = got.len() == p.iov.len() && got.iter().zip(&p.iov).all(|(g, w)| g.1 == w.1 && (w.1 == 0 || g.0 == w.0));
                if !same {
                    bad("msghdr iovecs", json!(p.iov), json!(got));
                }
                if let Some(want) = &p.sockaddr {
                    if hdr.msg_namelen as usize != want.len() || bytes_at(hdr.msg_name as u64, want.len()) != *want {
                        bad("msghdr destination address", json!(want), json!({"len": hdr.msg_namelen, "bytes": bytes_at(hdr.msg_name as u64, want.len())}));
                    }
                } else if hdr.msg_name.is_null() || (hdr.msg_namelen as usize) < std::mem::size_of::<libc::sockaddr_in>() {
                    bad("msghdr address storage", json!("non-null, >= sizeof(sockaddr_in)"), json!({"len": hdr.msg_namelen}));
                }
            }
        }
        "FDS" | "FDPTR" => {
            if sqe.addr() == 0 {
                bad("descriptor array pointer", json!("non-null"), json!(0));
            } else if e["addr"] == "FDPTR" && unsafe { (sqe.addr() as *const i32).read() } != fx.file_id {
                bad("descriptor to register", json!(fx.file_id), json!(unsafe { (sqe.addr() as *const i32).read() }));
            }
        }
        "MEM" => {
            if Some(sqe.addr() as usize) != p.mem {
                bad("memory address", json!(p.mem), json!(sqe.addr()));
            }
        }
        other => bad("addr tag unknown to the replayer", json!(other), Value::Null),
    }
    let want_len = e["len"].as_i64().unwrap() as i32 as u32;
    if sqe.len() != want_len {
        bad("len", json!(want_len), json!(sqe.len()));
    }
    let mut want_opf = e["opf"].as_i64().unwrap() as u32;
    if e["opf31"].as_bool() == Some(true) {
        want_opf |= 1 << 31;
    }
    if sqe.op_flags() != want_opf {
        bad("operation flags word", json!(want_opf), json!(sqe.op_flags()));
    }
    if i64::from(sqe.ioprio()) != e["ioprio"].as_i64().unwrap() {
        bad("ioprio", e["ioprio"].clone(), json!(sqe.ioprio()));
    }
    let want_idx: u32 = match e["idx"].as_str().unwrap() {
        "ALLOC" => u32::MAX,
        "TARGET+1" => target as u32 + 1,
        "TARGET" => target as u32,
        "OTHER" => fx.other.as_raw_fd() as u32,
        _ => e["idxv"].as_i64().unwrap() as u32,
    };
    if sqe.file_index() != want_idx {
        bad("file_index / fd_in / length word", json!(want_idx), json!(sqe.file_index()));
    }
    let raw_40_44 = u32::from_ne_bytes(sqe.0[40..44].try_into().unwrap());
    let want_40_44 = if select { u32::from(fx.group) } else { 0 };
    if raw_40_44 != want_40_44 {
        bad("buf_group / personality", json!(want_40_44), json!(raw_40_44));
    }
    match e["addr3"].as_str().unwrap() {
        "ZERO" => {
            if sqe.addr3() != 0 {
                bad("addr3", json!(0), json!(sqe.addr3()));
            }
        }
        "OPTVAL" => {
            if sqe.addr3() == 0 {
                bad("option value pointer", json!("non-null"), json!(0));
            } else if let Some(want) = &p.optval {
                if bytes_at(sqe.addr3(), want.len()) != *want {
                    bad("option value bytes", json!(want), json!(bytes_at(sqe.addr3(), want.len())));
                }
            }
        }
        other => bad("addr3 tag unknown to the replayer", json!(other), Value::Null),
    }
}

/// Poll `fut` once, submit and return the entry the kernel consumed.
fn submit<F: Future + Unpin>(fx: &mut Fixture, fut: &mut F) -> Result<Sqe, String> {
    simk::kernel().take_notes();
    if poll_once(fut).is_ready() {
        return Err("the operation finished without reaching the kernel".into());
    }
    fx.ring.poll(Some(Duration::ZERO)).map_err(|e| format!("poll: {e}"))?;
    let notes = simk::kernel().take_notes();
    let mut consumed: Vec<Sqe> = notes.iter().filter_map(|n| if let simk::Note::Consumed { sqe, .. } = n { Some(*sqe) } else { None }).collect();
    match consumed.len() {
        1 => Ok(consumed.pop().unwrap()),
        n => Err(format!("{n} submissions reached the kernel")),
    }
}

fn finish<F: Future + Unpin>(fx: &mut Fixture, fut: &mut F, sqe: &Sqe, res: i32) -> Option<F::Output> {
    if !simk::kernel().complete(fx.rfd, sqe.user_data(), res, 0) {
        // Operations the simulated kernel answers itself (none here) or lost.
        simk::kernel().post_raw(fx.rfd, simk::Cqe { user_data: sqe.user_data(), res, flags: 0 });
    }
    fx.ring.poll(Some(Duration::ZERO)).ok()?;
    match poll_once(fut) {
        Poll::Ready(out) => Some(out),
        Poll::Pending => None,
    }
}

fn errno_of<T>(r: &std::io::Result<T>) -> Option<i32> {
    r.as_ref().err().and_then(std::io::Error::raw_os_error)
}

macro_rules! run_op {
    // With buffer selection: the kernel picks a pool buffer and reports it in the completion flags.
    ($case:expr, $fx:expr, $out:expr, $ptrs:expr, $make:expr, $ok_res:expr, $check_ok:expr, select ($rfd:expr, $group:expr)) => {{
        for fail in [false, true] {
            let (mut fut, ptrs) = $make;
            let ptrs: Ptrs = ptrs;
            match submit($fx, &mut fut) {
                Err(msg) => {
                    $out.push(json!({"field": "submission", "expected": "one entry", "observed": msg}));
                    break;
                }
                Ok(sqe) => {
                    if !fail {
                        compare($case, $fx, &sqe, &ptrs, $out);
                    }
                    let (res, flags) = if fail { (-ERRNO, 0) } else {
                        match simk::kernel().take_buffer($rfd, $group, b"abc") {
                            Ok((fl, n)) => (n, fl),
                            Err(e) => (e, 0),
                        }
                    };
                    simk::kernel().complete($rfd, sqe.user_data(), res, flags);
                    let _ = $fx.ring.poll(Some(Duration::ZERO));
                    match poll_once(&mut fut) {
                        Poll::Pending => $out.push(json!({"field": "result", "expected": "ready", "observed": "pending"})),
                        Poll::Ready(r) => {
                            if fail {
                                if errno_of(&r) != Some(ERRNO) {
                                    $out.push(json!({"field": "error result", "expected": ERRNO, "observed": format!("{:?}", r.map(|_| ()))}));
                                }
                            } else {
                                match r {
                                    Err(e) => $out.push(json!({"field": "successful result", "expected": res, "observed": format!("{e:?}")})),
                                    Ok(v) => {
                                        #[allow(clippy::redundant_closure_call)]
                                        if let Some(problem) = $check_ok(v, res) {
                                            $out.push(problem);
                                        }
                                    }
                                }
                            }
                        }
                    }
                }
            }
        }
        let _ = $ok_res;
    }};
    // Build the future twice: once completed successfully, once with an error.
    ($case:expr, $fx:expr, $out:expr, $ptrs:expr, $make:expr, $ok_res:expr, $check_ok:expr) => {{
        for fail in [false, true] {
            let (mut fut, ptrs) = $make;
            let ptrs: Ptrs = ptrs;
            let _ = &$ptrs;
            match submit($fx, &mut fut) {
                Err(msg) => {
                    $out.push(json!({"field": "submission", "expected": "one entry", "observed": msg}));
                    break;
                }
                Ok(sqe) => {
                    if !fail {
                        compare($case, $fx, &sqe, &ptrs, $out);
                    }
                    let res: i32 = if fail { -ERRNO } else { $ok_res(&sqe) };
                    match finish($fx, &mut fut, &sqe, res) {
                        None => $out.push(json!({"field": "result", "expected": "ready", "observed": "pending"})),
                        Some(r) => {
                            if fail {
                                if errno_of(&r) != Some(ERRNO) {
                                    $out.push(json!({"field": "error result", "expected": ERRNO, "observed": format!("{:?}", r.map(|_| ()))}));
                                }
                            } else {
                                match r {
                                    Err(e) => $out.push(json!({"field": "successful result", "expected": res, "observed": format!("{e:?}")})),
                                    Ok(v) => {
                                        #[allow(clippy::redundant_closure_call)]
                                        if let Some(problem) = $check_ok(v, res) {
                                            $out.push(problem);
                                        }
                                    }
                                }
                            }
                        }
                    }
                }
            }
        }
    }};
}

fn flags_from<T: Copy + std::ops::BitOr<Output = T>>(bits: u32, table: &[(u32, T)], zero: Option<T>) -> Option<T> {
    let mut acc = zero;
    let mut left = bits;
    for (b, f) in table {
        if bits & b == *b && *b != 0 {
            acc = Some(match acc {
                Some(a) => a | *f,
                None => *f,
            });
            left &= !b;
        }
    }
    if left != 0 { None } else { acc }
}

fn sockaddr_for(len: i64) -> (Vec<u8>, u8) {
    // (expected kernel bytes, which address type)
    match len {
        16 => {
            let mut b = vec![0u8; 16];
            b[0..2].copy_from_slice(&(libc::AF_INET as u16).to_ne_bytes());
            b[2..4].copy_from_slice(&8080u16.to_be_bytes());
            b[4..8].copy_from_slice(&[127, 0, 0, 9]);
            (b, 4)
        }
        28 => {
            let mut b = vec![0u8; 28];
            b[0..2].copy_from_slice(&(libc::AF_INET6 as u16).to_ne_bytes());
            b[2..4].copy_from_slice(&8081u16.to_be_bytes());
            b[4..8].copy_from_slice(&7u32.to_ne_bytes()); // flowinfo: passed through as is, as std does (see SockAddr.tla)
            b[8..24].copy_from_slice(&Ipv6Addr::new(1, 2, 3, 4, 5, 6, 7, 8).octets());
            b[24..28].copy_from_slice(&3u32.to_ne_bytes()); // scope id
            (b, 6)
        }
        _ => (Vec::new(), 0),
    }
}

fn v4() -> SocketAddrV4 {
    SocketAddrV4::new(Ipv4Addr::new(127, 0, 0, 9), 8080)
}

fn v6() -> SocketAddrV6 {
    SocketAddrV6::new(Ipv6Addr::new(1, 2, 3, 4, 5, 6, 7, 8), 8081, 7, 3)
}

#[allow(clippy::too_many_lines)]
fn run_case(case: &Value) -> Vec<Value> {
    let mut out = Vec::new();
    let op = case["op"].as_str().unwrap_or("").to_string();
    let kind = case["kind"].as_str().unwrap_or("file").to_string();
    let a = case["args"]["a"].as_i64().unwrap_or(0);
    let b = case["args"]["b"].as_i64().unwrap_or(0);
    let c = case["args"]["c"].as_i64().unwrap_or(0);
    let d = case["args"]["d"].as_i64().unwrap_or(0);
    let o = u64_of(&case["args"]["o"]);
    let cur = case["args"]["o"][0].as_i64() == Some(0) && case["args"]["o"][1].as_i64() == Some(-1);
    let k = if kind == "direct" { Kind::Direct } else { Kind::File };
    with_fixture(|fx| {
        let fd: &'static a10::AsyncFd = if kind == "direct" { fx.direct } else { fx.file };
        let sq = fx.ring.sq();
        let none = Ptrs::default();
        match op.as_str() {
            "read" => run_op!(case, fx, &mut out, none, {
                let v: Vec<u8> = Vec::with_capacity(a as usize);
                let p = Ptrs { buf: Some(v.as_ptr() as usize), ..Ptrs::default() };
                let f = fd.read(v);
                (if cur { f } else { f.from(o) }, p)
            }, |s: &Sqe| (s.len() as i32).min(1), |v: Vec<u8>, res: i32| (v.len() != res as usize).then(|| json!({"field": "buffer length after read", "expected": res, "observed": v.len()}))),
            "write" => run_op!(case, fx, &mut out, none, {
                let v: Vec<u8> = vec![b'w'; a as usize];
                let p = Ptrs { buf: Some(v.as_ptr() as usize), ..Ptrs::default() };
                let f = fd.write(v);
                (if cur { f } else { f.at(o) }, p)
            }, |s: &Sqe| s.len() as i32, |n: usize, res: i32| (n != res as usize).then(|| json!({"field": "bytes written", "expected": res, "observed": n}))),
            "readv" | "writev" => {
                macro_rules! vectored {
                    ($n:literal) => {{
                        if op == "readv" {
                            run_op!(case, fx, &mut out, none, {
                                let bufs: [Vec<u8>; $n] = std::array::from_fn(|i| Vec::with_capacity(4 + i));
                                let p = Ptrs { iov: bufs.iter().map(|v| (v.as_ptr() as usize, v.capacity())).collect(), ..Ptrs::default() };
                                let f = fd.read_vectored(bufs);
                                (if cur { f } else { f.from(o) }, p)
                            }, |_s: &Sqe| if $n == 1 { 3 } else { 5 }, |v: [Vec<u8>; $n], _res: i32| {
                                // 4, 5, 6 bytes of capacity: five bytes fill the first buffer and one byte of the second.
                                let lens: Vec<usize> = v.iter().map(Vec::len).collect();
                                let mut want: Vec<usize> = if $n == 1 { vec![3] } else { vec![4, 1] };
                                want.resize($n, 0);
                                (lens != want).then(|| json!({"field": "buffer lengths after the vectored read", "expected": want, "observed": lens}))
                            })
                        } else {
                            run_op!(case, fx, &mut out, none, {
                                let bufs: [Vec<u8>; $n] = std::array::from_fn(|i| vec![b'v'; 3 + i]);
                                let p = Ptrs { iov: bufs.iter().map(|v| (v.as_ptr() as usize, v.len())).collect(), ..Ptrs::default() };
                                let f = fd.write_vectored(bufs);
                                (if cur { f } else { f.at(o) }, p)
                            }, |_s: &Sqe| 3, |n: usize, res: i32| (n != res as usize).then(|| json!({"field": "bytes written", "expected": res, "observed": n})))
                        }
                    }};
                }
                match a {
                    1 => vectored!(1),
                    2 => vectored!(2),
                    _ => vectored!(3),
                }
            }
            "fsync" => run_op!(case, fx, &mut out, none, { (if a == 1 { fd.sync_data() } else { fd.sync_all() }, Ptrs::default()) }, |_s: &Sqe| 0, |(): (), _res: i32| None::<Value>),
            "statx" => {
                let table = [(1, MetadataInterest::TYPE), (2, MetadataInterest::MODE), (32, MetadataInterest::ACCESSED_TIME), (64, MetadataInterest::MODIFIED_TIME),
                    (512, MetadataInterest::SIZE), (1024, MetadataInterest::BLOCKS), (2048, MetadataInterest::CREATED_TIME)];
                let Some(mask) = flags_from(a as u32, &table, None) else {
                    out.push(json!({"field": "replayer: metadata interest", "expected": a, "observed": null}));
                    return;
                };
                run_op!(case, fx, &mut out, none, { (fd.metadata().only(mask), Ptrs::default()) }, |s: &Sqe| {
                    // The kernel fills the statx structure.
                    let st = s.off() as *mut libc::statx;
                    unsafe {
                        (*st).stx_mask = s.len();
                        (*st).stx_size = 12345;
                        (*st).stx_mode = (libc::S_IFREG | 0o640) as u16;
                        (*st).stx_blksize = 512;
                    }
                    0
                }, |m: fs::Metadata, _res: i32| (m.len() != 12345 || !m.is_file()).then(|| json!({"field": "metadata decoded from the statx structure", "expected": {"len": 12345, "is_file": true}, "observed": {"len": m.len(), "is_file": m.is_file()}})))
            }
            "fadvise" => {
                let adv = [fs::AdviseFlag::NORMAL, fs::AdviseFlag::RANDOM, fs::AdviseFlag::SEQUENTIAL, fs::AdviseFlag::WILL_NEED, fs::AdviseFlag::DONT_NEED, fs::AdviseFlag::NO_REUSE];
                run_op!(case, fx, &mut out, none, { (fd.advise(o, a as u32, adv[b as usize]), Ptrs::default()) }, |_s: &Sqe| 0, |(): (), _res: i32| None::<Value>)
            }
            "fallocate" => run_op!(case, fx, &mut out, none, { (fd.allocate(o, a as u32), Ptrs::default()) }, |_s: &Sqe| 0, |(): (), _res: i32| None::<Value>),
            "ftruncate" => run_op!(case, fx, &mut out, none, { (fd.truncate(o), Ptrs::default()) }, |_s: &Sqe| 0, |(): (), _res: i32| None::<Value>),
            "close" => {
                // A descriptor of its own (closing consumes it).
                for fail in [false, true] {
                    let victim = if kind == "direct" {
                        // Another handle to the same slot: only the request encoding is of interest.
                        let id = simk::kernel().alloc_fd();
                        let base = unsafe { a10::AsyncFd::from_raw_fd(id, sq.clone()) };
                        let mut conv = Box::pin(base.to_direct_descriptor());
                        let _ = poll_once(&mut conv);
                        let _ = fx.ring.poll(Some(Duration::ZERO));
                        {
                            let mut kern = simk::kernel();
                            let req = kern.rings[&fx.rfd].inflight.last().unwrap().clone();
                            unsafe { (req.sqe.addr() as *mut i32).write(DIRECT_SLOT) };
                            kern.complete(fx.rfd, req.sqe.user_data(), 1, 0);
                        }
                        let _ = fx.ring.poll(Some(Duration::ZERO));
                        let Poll::Ready(Ok(dfd)) = poll_once(&mut conv) else { panic!("to_direct_descriptor") };
                        drop(conv);
                        drop(base);
                        let _ = fx.ring.poll(Some(Duration::ZERO));
                        dfd
                    } else {
                        unsafe { a10::AsyncFd::from_raw_fd(fx.file_id, sq.clone()) }
                    };
                    let mut fut = victim.close();
                    match submit(fx, &mut fut) {
                        Err(msg) => out.push(json!({"field": "submission", "expected": "one entry", "observed": msg})),
                        Ok(sqe) => {
                            if !fail {
                                compare(case, fx, &sqe, &none, &mut out);
                            }
                            let res = if fail { -ERRNO } else { 0 };
                            match finish(fx, &mut fut, &sqe, res) {
                                Some(r) if fail => {
                                    if errno_of(&r) != Some(ERRNO) {
                                        out.push(json!({"field": "error result", "expected": ERRNO, "observed": format!("{r:?}")}));
                                    }
                                }
                                Some(Ok(())) => {}
                                other => out.push(json!({"field": "close result", "expected": "Ok", "observed": format!("{other:?}")})),
                            }
                        }
                    }
                }
            }
            "open" | "open_tmpfile" => {
                let calls: Vec<String> = case["args"]["calls"].as_array().map(|v| v.iter().filter_map(|s| s.as_str().map(str::to_string)).collect()).unwrap_or_default();
                let path = PathBuf::from(format!("/tmp/a10-verif-abi/{}", a));
                run_op!(case, fx, &mut out, none, {
                    let mut oo = OpenOptions::new();
                    if op == "open_tmpfile" {
                        oo = if a == 1 { oo.write_only() } else { oo.write() };
                    }
                    for call in &calls {
                        oo = match call.as_str() {
                            "read" => oo.read(),
                            "write" => oo.write(),
                            "write_only" => oo.write_only(),
                            "append" => oo.append(),
                            "truncate" => oo.truncate(),
                            "create" => oo.create(),
                            "create_new" => oo.create_new(),
                            "data_sync" => oo.data_sync(),
                            "sync" => oo.sync(),
                            "direct" => oo.direct(),
                            other => panic!("unknown builder call {other}"),
                        };
                    }
                    let oo = oo.mode(b as u32).kind(k);
                    let p = Ptrs { path: Some(path.as_os_str().as_encoded_bytes().to_vec()), ..Ptrs::default() };
                    (if op == "open_tmpfile" { oo.open_temp_file(sq.clone(), path.clone()) } else { oo.open(sq.clone(), path.clone()) }, p)
                }, |_s: &Sqe| if kind == "direct" { 77 } else { simk::kernel().alloc_fd() }, |f: a10::AsyncFd, _res: i32| {
                    let problem = (f.kind() != k).then(|| json!({"field": "kind of the opened descriptor", "expected": kind, "observed": format!("{:?}", f.kind())}));
                    std::mem::forget(f);
                    problem
                })
            }
            "mkdir" => run_op!(case, fx, &mut out, none, {
                let path = PathBuf::from("/tmp/a10-verif-abi/dir");
                (fs::create_dir(sq.clone(), path.clone()), Ptrs { path: Some(path.as_os_str().as_encoded_bytes().to_vec()), ..Ptrs::default() })
            }, |_s: &Sqe| 0, |(): (), _res: i32| None::<Value>),
            "rename" => run_op!(case, fx, &mut out, none, {
                let (from, to) = (PathBuf::from("/tmp/a10-verif-abi/from"), PathBuf::from("/tmp/a10-verif-abi/to"));
                let p = Ptrs { path: Some(from.as_os_str().as_encoded_bytes().to_vec()), path2: Some(to.as_os_str().as_encoded_bytes().to_vec()), ..Ptrs::default() };
                (fs::rename(sq.clone(), from, to), p)
            }, |_s: &Sqe| 0, |(): (), _res: i32| None::<Value>),
            "unlink" => run_op!(case, fx, &mut out, none, {
                let path = PathBuf::from("/tmp/a10-verif-abi/victim");
                let p = Ptrs { path: Some(path.as_os_str().as_encoded_bytes().to_vec()), ..Ptrs::default() };
                (if a == 1 { fs::remove_dir(sq.clone(), path) } else { fs::remove_file(sq.clone(), path) }, p)
            }, |_s: &Sqe| 0, |(): (), _res: i32| None::<Value>),
            "socket" => {
                let dom = match a { 1 => Domain::UNIX, 2 => Domain::IPV4, _ => Domain::IPV6 };
                let ty = match b { 1 => Type::STREAM, 2 => Type::DGRAM, _ => Type::SEQPACKET };
                let pr = match c { 0 => None, 6 => Some(Protocol::TCP), _ => Some(Protocol::UDP) };
                run_op!(case, fx, &mut out, none, { (net::socket(sq.clone(), dom, ty, pr).kind(k), Ptrs::default()) },
                    |_s: &Sqe| if kind == "direct" { 78 } else { simk::kernel().alloc_fd() }, |f: a10::AsyncFd, _res: i32| {
                    let problem = (f.kind() != k).then(|| json!({"field": "kind of the new socket", "expected": kind, "observed": format!("{:?}", f.kind())}));
                    std::mem::forget(f);
                    problem
                })
            }
            "connect" | "bind" => {
                let (bytes, which) = sockaddr_for(a);
                macro_rules! with_addr {
                    ($addr:expr) => {{
                        if op == "connect" {
                            run_op!(case, fx, &mut out, none, { (fd.connect($addr), Ptrs { sockaddr: Some(bytes.clone()), ..Ptrs::default() }) }, |_s: &Sqe| 0, |(): (), _res: i32| None::<Value>)
                        } else {
                            run_op!(case, fx, &mut out, none, { (fd.bind($addr), Ptrs { sockaddr: Some(bytes.clone()), ..Ptrs::default() }) }, |_s: &Sqe| 0, |(): (), _res: i32| None::<Value>)
                        }
                    }};
                }
                match which {
                    4 => with_addr!(v4()),
                    6 => with_addr!(v6()),
                    _ => {
                        // sockaddr_un: a10 may pass the exact or the full length (C16); checked there.
                    }
                }
            }
            "listen" => run_op!(case, fx, &mut out, none, { (fd.listen(a as u32), Ptrs::default()) }, |_s: &Sqe| 0, |(): (), _res: i32| None::<Value>),
            "accept" => {
                if b == 1 {
                    // Multishot: a stream of descriptors.
                    let mut stream = fd.multishot_accept();
                    simk::kernel().take_notes();
                    let waker = wakers::waker(0);
                    let mut ctx = Context::from_waker(&waker);
                    let first = Pin::new(&mut stream).poll_next(&mut ctx);
                    if first.is_ready() {
                        out.push(json!({"field": "submission", "expected": "pending", "observed": "ready"}));
                    }
                    let _ = fx.ring.poll(Some(Duration::ZERO));
                    let notes = simk::kernel().take_notes();
                    let consumed: Vec<Sqe> = notes.iter().filter_map(|n| if let simk::Note::Consumed { sqe, .. } = n { Some(*sqe) } else { None }).collect();
                    if let [sqe] = consumed.as_slice() {
                        compare(case, fx, sqe, &none, &mut out);
                        let res = if kind == "direct" { 79 } else { simk::kernel().alloc_fd() };
                        simk::kernel().complete(fx.rfd, sqe.user_data(), res, 0);
                        let _ = fx.ring.poll(Some(Duration::ZERO));
                        match Pin::new(&mut stream).poll_next(&mut ctx) {
                            Poll::Ready(Some(Ok(f))) => {
                                if f.kind() != k {
                                    out.push(json!({"field": "kind of the accepted descriptor", "expected": kind, "observed": format!("{:?}", f.kind())}));
                                }
                                std::mem::forget(f);
                            }
                            other => out.push(json!({"field": "multishot accept result", "expected": "a descriptor", "observed": format!("{other:?}")})),
                        }
                    } else {
                        out.push(json!({"field": "submission", "expected": "one entry", "observed": consumed.len()}));
                    }
                    drop(stream);
                    let _ = fx.ring.poll(Some(Duration::ZERO));
                } else {
                    run_op!(case, fx, &mut out, none, { (fd.accept::<SocketAddrV4>(), Ptrs::default()) }, |s: &Sqe| {
                        // The kernel reports the peer address.
                        let (bytes, _) = sockaddr_for(16);
                        unsafe {
                            std::ptr::copy_nonoverlapping(bytes.as_ptr(), s.addr() as *mut u8, 16);
                            (s.off() as *mut u32).write(16);
                        }
                        if kind == "direct" { 80 } else { simk::kernel().alloc_fd() }
                    }, |(f, addr): (a10::AsyncFd, SocketAddrV4), _res: i32| {
                        let problem = if f.kind() != k {
                            Some(json!({"field": "kind of the accepted descriptor", "expected": kind, "observed": format!("{:?}", f.kind())}))
                        } else if addr != v4() {
                            Some(json!({"field": "peer address", "expected": format!("{:?}", v4()), "observed": format!("{addr:?}")}))
                        } else {
                            None
                        };
                        std::mem::forget(f);
                        problem
                    })
                }
            }
            "send" => {
                let table = [(1, SendFlag::OOB), (4, SendFlag::DONT_ROUTE), (128, SendFlag::EOR), (32768, SendFlag::MORE), (2048, SendFlag::CONFIRM)];
                let flags = flags_from(b as u32, &table, None);
                run_op!(case, fx, &mut out, none, {
                    let v: Vec<u8> = vec![b's'; a as usize];
                    let p = Ptrs { buf: Some(v.as_ptr() as usize), ..Ptrs::default() };
                    let f = fd.send(v);
                    let f = match flags { Some(fl) => f.flags(fl), None => f };
                    (if c == 1 { f.zc() } else { f }, p)
                }, |s: &Sqe| s.len() as i32, |n: usize, res: i32| (n != res as usize).then(|| json!({"field": "bytes sent", "expected": res, "observed": n})))
            }
            "sendto" => {
                let table = [(1, SendFlag::OOB), (4, SendFlag::DONT_ROUTE), (128, SendFlag::EOR), (32768, SendFlag::MORE), (2048, SendFlag::CONFIRM)];
                let flags = flags_from(b as u32, &table, None);
                let (bytes, which) = sockaddr_for(c);
                macro_rules! to {
                    ($addr:expr) => {{
                        run_op!(case, fx, &mut out, none, {
                            let v: Vec<u8> = vec![b't'; a as usize];
                            let p = Ptrs { buf: Some(v.as_ptr() as usize), sockaddr: Some(bytes.clone()), ..Ptrs::default() };
                            let f = fd.send_to(v, $addr);
                            (match flags { Some(fl) => f.flags(fl), None => f }, p)
                        }, |s: &Sqe| s.len() as i32, |n: usize, res: i32| (n != res as usize).then(|| json!({"field": "bytes sent", "expected": res, "observed": n})))
                    }};
                }
                match which {
                    4 => to!(v4()),
                    6 => to!(v6()),
                    _ => {}
                }
            }
            "recv" => {
                let table = [(1, RecvFlag::OOB), (2, RecvFlag::PEEK), (256, RecvFlag::WAIT_ALL), (1_073_741_824, RecvFlag::CMSG_CLOEXEC)];
                let flags = flags_from(b as u32, &table, None);
                run_op!(case, fx, &mut out, none, {
                    let v: Vec<u8> = Vec::with_capacity(a as usize);
                    let p = Ptrs { buf: Some(v.as_ptr() as usize), ..Ptrs::default() };
                    let f = fd.recv(v);
                    (match flags { Some(fl) => f.flags(fl), None => f }, p)
                }, |s: &Sqe| (s.len() as i32).min(1), |v: Vec<u8>, res: i32| (v.len() != res as usize).then(|| json!({"field": "buffer length after recv", "expected": res, "observed": v.len()})))
            }
            "recvfrom" => {
                let table = [(1, RecvFlag::OOB), (2, RecvFlag::PEEK)];
                let flags = flags_from(a as u32, &table, None);
                run_op!(case, fx, &mut out, none, {
                    let v: Vec<u8> = Vec::with_capacity(9);
                    let p = Ptrs { iov: vec![(v.as_ptr() as usize, 9)], ..Ptrs::default() };
                    let f = fd.recv_from::<_, SocketAddrV4>(v);
                    (match flags { Some(fl) => f.flags(fl), None => f }, p)
                }, |s: &Sqe| {
                    let hdr = s.addr() as *mut libc::msghdr;
                    let (bytes, _) = sockaddr_for(16);
                    unsafe {
                        std::ptr::copy_nonoverlapping(bytes.as_ptr(), (*hdr).msg_name.cast::<u8>(), 16);
                        (*hdr).msg_namelen = 16;
                        (*hdr).msg_flags = 0;
                    }
                    3
                }, |(v, addr, _fl): (Vec<u8>, SocketAddrV4, i32), res: i32| (v.len() != res as usize || addr != v4()).then(|| json!({"field": "recv_from result", "expected": {"len": res, "addr": format!("{:?}", v4())}, "observed": {"len": v.len(), "addr": format!("{addr:?}")}})))
            }
            "sendv" => {
                let table = [(1, SendFlag::OOB), (4, SendFlag::DONT_ROUTE)];
                let flags = flags_from(a as u32, &table, None);
                run_op!(case, fx, &mut out, none, {
                    let bufs: [Vec<u8>; 2] = [vec![b'a'; 3], vec![b'b'; 2]];
                    let p = Ptrs { iov: bufs.iter().map(|v| (v.as_ptr() as usize, v.len())).collect(), sockaddr: Some(sockaddr_for(16).0), ..Ptrs::default() };
                    let f = fd.send_to_vectored(bufs, v4());
                    (match flags { Some(fl) => f.flags(fl), None => f }, p)
                }, |_s: &Sqe| 5, |n: usize, res: i32| (n != res as usize).then(|| json!({"field": "bytes sent", "expected": res, "observed": n})))
            }
            "shutdown" => {
                let how = match a { 0 => std::net::Shutdown::Read, 1 => std::net::Shutdown::Write, _ => std::net::Shutdown::Both };
                run_op!(case, fx, &mut out, none, { (fd.shutdown(how), Ptrs::default()) }, |_s: &Sqe| 0, |(): (), _res: i32| None::<Value>)
            }
            "getsockopt" => match a {
                0 => run_op!(case, fx, &mut out, none, { (fd.socket_option::<option::KeepAlive>(), Ptrs::default()) }, |s: &Sqe| { unsafe { (s.addr3() as *mut i32).write(1) }; 4 }, |v: bool, _res: i32| (!v).then(|| json!({"field": "SO_KEEPALIVE value", "expected": true, "observed": v}))),
                1 => run_op!(case, fx, &mut out, none, { (fd.socket_option::<option::Linger>(), Ptrs::default()) }, |s: &Sqe| { unsafe { (s.addr3() as *mut libc::linger).write(libc::linger { l_onoff: 1, l_linger: 9 }) }; 8 }, |v: Option<u32>, _res: i32| (v != Some(9)).then(|| json!({"field": "SO_LINGER value", "expected": 9, "observed": format!("{v:?}")}))),
                _ => run_op!(case, fx, &mut out, none, { (fd.socket_option::<option::TcpNoDelay>(), Ptrs::default()) }, |s: &Sqe| { unsafe { (s.addr3() as *mut i32).write(1) }; 4 }, |v: bool, _res: i32| (!v).then(|| json!({"field": "TCP_NODELAY value", "expected": true, "observed": v}))),
            },
            "setsockopt" => match a {
                0 => run_op!(case, fx, &mut out, none, { (fd.set_socket_option::<option::KeepAlive>(true), Ptrs { optval: Some(1i32.to_ne_bytes().to_vec()), ..Ptrs::default() }) }, |_s: &Sqe| 0, |(): (), _res: i32| None::<Value>),
                1 => run_op!(case, fx, &mut out, none, { (fd.set_socket_option::<option::Linger>(Some(9)), Ptrs { optval: Some([1i32.to_ne_bytes(), 9i32.to_ne_bytes()].concat()), ..Ptrs::default() }) }, |_s: &Sqe| 0, |(): (), _res: i32| None::<Value>),
                _ => run_op!(case, fx, &mut out, none, { (fd.set_socket_option::<option::TcpNoDelay>(true), Ptrs { optval: Some(1i32.to_ne_bytes().to_vec()), ..Ptrs::default() }) }, |_s: &Sqe| 0, |(): (), _res: i32| None::<Value>),
            },
            "splice" => {
                let table = [(1, SpliceFlag::MOVE), (4, SpliceFlag::MORE)];
                let flags = flags_from(b as u32, &table, None);
                let other = fx.other.try_clone().expect("dup");
                // Keep the duplicate's number equal to the original for the comparison.
                drop(other);
                let target_fd = unsafe { std::os::fd::BorrowedFd::borrow_raw(fx.other.as_raw_fd()) };
                run_op!(case, fx, &mut out, none, {
                    let f = if c == 0 { fd.splice_to(target_fd, a as u32) } else { fd.splice_from(target_fd, a as u32) };
                    let f = match d { 1 => f.from(o), 2 => f.at(o), _ => f };
                    (match flags { Some(fl) => f.flags(fl), None => f }, Ptrs::default())
                }, |s: &Sqe| s.len() as i32, |n: usize, res: i32| (n != res as usize).then(|| json!({"field": "bytes spliced", "expected": res, "observed": n})))
            }
            "madvise" => {
                let adv = [a10::mem::AdviseFlag::NORMAL, a10::mem::AdviseFlag::RANDOM, a10::mem::AdviseFlag::SEQUENTIAL, a10::mem::AdviseFlag::WILL_NEED, a10::mem::AdviseFlag::DONT_NEED];
                let addr = 0x7000_0000_usize;
                run_op!(case, fx, &mut out, none, { (a10::mem::advise(sq.clone(), addr as *mut (), a as u32, adv[b as usize]), Ptrs { mem: Some(addr), ..Ptrs::default() }) }, |_s: &Sqe| 0, |(): (), _res: i32| None::<Value>)
            }
            "waitid" => {
                let on = match a { 0 => WaitOn::All, 1 => WaitOn::Process(b as u32), _ => WaitOn::Group(b as u32) };
                let opt = match c { 4 => WaitOption::EXITED, 12 => WaitOption::CONTINUED, _ => WaitOption::NO_WAIT };
                if c == 12 || c == 4 + 16_777_216 {
                    // Combinations of options cannot be expressed with a10's WaitOption.
                    return;
                }
                run_op!(case, fx, &mut out, none, { (process::wait(sq.clone(), on).flags(opt), Ptrs::default()) }, |s: &Sqe| {
                    let info = s.off() as *mut libc::siginfo_t;
                    unsafe { (*info).si_signo = libc::SIGCHLD };
                    0
                }, |info: process::WaitInfo, _res: i32| (format!("{:?}", info.signal()) != format!("{:?}", process::Signal::CHILD)).then(|| json!({"field": "siginfo decoded", "expected": "SIGCHLD", "observed": format!("{:?}", info.signal())})))
            }
            "read_pool" => {
                let pool = fx.pool.clone();
                let (rfd, group) = (fx.rfd, fx.group);
                run_op!(case, fx, &mut out, none, {
                    let f = fd.read(pool.get());
                    (if cur { f } else { f.from(o) }, Ptrs::default())
                }, |_s: &Sqe| 3, |b: a10::io::ReadBuf, _res: i32| (b.len() != 3).then(|| json!({"field": "length of the selected buffer", "expected": 3, "observed": b.len()})), select (rfd, group))
            }
            "recv_pool" => {
                let table = [(2, RecvFlag::PEEK), (256, RecvFlag::WAIT_ALL)];
                let flags = flags_from(b as u32, &table, None);
                let pool = fx.pool.clone();
                let (rfd, group) = (fx.rfd, fx.group);
                run_op!(case, fx, &mut out, none, {
                    let f = fd.recv(pool.get());
                    (match flags { Some(fl) => f.flags(fl), None => f }, Ptrs::default())
                }, |_s: &Sqe| 3, |b: a10::io::ReadBuf, _res: i32| (b.len() != 3).then(|| json!({"field": "length of the selected buffer", "expected": 3, "observed": b.len()})), select (rfd, group))
            }
            "read_multishot" | "recv_multishot" => {
                let table = [(2, RecvFlag::PEEK)];
                let flags = flags_from(b as u32, &table, None);
                let waker = wakers::waker(0);
                let mut ctx = Context::from_waker(&waker);
                simk::kernel().take_notes();
                macro_rules! stream {
                    ($s:expr) => {{
                        let mut stream = $s;
                        if Pin::new(&mut stream).poll_next(&mut ctx).is_ready() {
                            out.push(json!({"field": "submission", "expected": "pending", "observed": "ready"}));
                        }
                        let _ = fx.ring.poll(Some(Duration::ZERO));
                        let notes = simk::kernel().take_notes();
                        let consumed: Vec<Sqe> = notes.iter().filter_map(|n| if let simk::Note::Consumed { sqe, .. } = n { Some(*sqe) } else { None }).collect();
                        if let [sqe] = consumed.as_slice() {
                            compare(case, fx, sqe, &none, &mut out);
                            let taken = simk::kernel().take_buffer(fx.rfd, fx.group, b"abc");
                            match taken {
                                Ok((fl, n)) => {
                                    simk::kernel().complete(fx.rfd, sqe.user_data(), n, fl | simk::CQE_F_MORE);
                                }
                                Err(e) => out.push(json!({"field": "buffer selection", "expected": "a buffer", "observed": e})),
                            }
                            let _ = fx.ring.poll(Some(Duration::ZERO));
                            match Pin::new(&mut stream).poll_next(&mut ctx) {
                                Poll::Ready(Some(Ok(b))) => {
                                    if b.len() != 3 {
                                        out.push(json!({"field": "length of the selected buffer", "expected": 3, "observed": b.len()}));
                                    }
                                }
                                other => out.push(json!({"field": "multishot result", "expected": "a buffer", "observed": format!("{:?}", other.map(|o| o.map(|r| r.map(|_| ()))))})),
                            }
                        } else {
                            out.push(json!({"field": "submission", "expected": "one entry", "observed": consumed.len()}));
                        }
                        drop(stream);
                        let _ = fx.ring.poll(Some(Duration::ZERO));
                    }};
                }
                if op == "read_multishot" {
                    stream!(fd.multishot_read(fx.pool.clone()));
                } else {
                    let s = fd.multishot_recv(fx.pool.clone());
                    stream!(match flags { Some(fl) => s.flags(fl), None => s });
                }
            }
            "pollable" => {
                // Ring::pollable of a second ring, submitted on the fixture's ring.
                let ring2 = a10::Ring::config().with_submission_queue_size(2).build().expect("second ring");
                let rfd2 = *simk::kernel().rings.keys().max().unwrap();
                RING2.with(|c| c.set(rfd2));
                let waker = wakers::waker(0);
                let mut ctx = Context::from_waker(&waker);
                simk::kernel().take_notes();
                let mut stream = ring2.pollable(sq.clone());
                if Pin::new(&mut stream).poll_next(&mut ctx).is_ready() {
                    out.push(json!({"field": "submission", "expected": "pending", "observed": "ready"}));
                }
                let _ = fx.ring.poll(Some(Duration::ZERO));
                let notes = simk::kernel().take_notes();
                let consumed: Vec<Sqe> = notes.iter().filter_map(|n| if let simk::Note::Consumed { sqe, .. } = n { Some(*sqe) } else { None }).collect();
                if let [sqe] = consumed.as_slice() {
                    compare(case, fx, sqe, &none, &mut out);
                    // Readable twice (the request stays armed), then an error ends it.
                    for round in 0..2 {
                        simk::kernel().complete(fx.rfd, sqe.user_data(), 1, simk::CQE_F_MORE);
                        let _ = fx.ring.poll(Some(Duration::ZERO));
                        match Pin::new(&mut stream).poll_next(&mut ctx) {
                            Poll::Ready(Some(Ok(()))) => {}
                            other => out.push(json!({"field": format!("pollable result {round}"), "expected": "Some(Ok(()))", "observed": format!("{other:?}")})),
                        }
                    }
                    simk::kernel().complete(fx.rfd, sqe.user_data(), -libc::EBADF, 0);
                    let _ = fx.ring.poll(Some(Duration::ZERO));
                    match Pin::new(&mut stream).poll_next(&mut ctx) {
                        Poll::Ready(Some(Err(ref err))) if err.raw_os_error() == Some(libc::EBADF) => {}
                        other => out.push(json!({"field": "pollable error result", "expected": "Some(Err(EBADF))", "observed": format!("{other:?}")})),
                    }
                } else {
                    out.push(json!({"field": "submission", "expected": "one entry", "observed": consumed.len()}));
                }
                drop(stream);
                let _ = fx.ring.poll(Some(Duration::ZERO));
                drop(ring2);
            }
            "pipe" => run_op!(case, fx, &mut out, none, { (a10::pipe::pipe(sq.clone()).kind(k), Ptrs::default()) }, |s: &Sqe| {
                let fds = s.addr() as *mut i32;
                let (x, y) = if kind == "direct" {
                    (81, 82)
                } else {
                    let x = simk::kernel().alloc_fd();
                    let y = simk::kernel().alloc_fd();
                    (x, y)
                };
                unsafe {
                    fds.write(x);
                    fds.add(1).write(y);
                }
                0
            }, |fds: [a10::AsyncFd; 2], _res: i32| {
                let problem = (fds[0].kind() != k || fds[1].kind() != k).then(|| json!({"field": "kind of the pipe descriptors", "expected": kind, "observed": format!("{:?} {:?}", fds[0].kind(), fds[1].kind())}));
                std::mem::forget(fds);
                problem
            }),
            "to_direct" => run_op!(case, fx, &mut out, none, { (fx.file.to_direct_descriptor(), Ptrs::default()) }, |s: &Sqe| {
                unsafe { (s.addr() as *mut i32).write(83) };
                1
            }, |f: a10::AsyncFd, _res: i32| {
                let problem = (f.kind() != Kind::Direct).then(|| json!({"field": "kind after to_direct_descriptor", "expected": "direct", "observed": format!("{:?}", f.kind())}));
                std::mem::forget(f);
                problem
            }),
            "to_file" => run_op!(case, fx, &mut out, none, { (fx.direct.to_file_descriptor(), Ptrs::default()) }, |_s: &Sqe| simk::kernel().alloc_fd(), |f: a10::AsyncFd, _res: i32| {
                let problem = (f.kind() != Kind::File).then(|| json!({"field": "kind after to_file_descriptor", "expected": "file", "observed": format!("{:?}", f.kind())}));
                std::mem::forget(f);
                problem
            }),
            other => out.push(json!({"field": "operation unknown to the replayer", "expected": other, "observed": null})),
        }
        let _ = (b, c, d, o);
    });
    out
}

fn main() {
    let args: Vec<String> = std::env::args().collect();
    let mut cases_path = String::new();
    let (mut from, mut to) = (0usize, usize::MAX);
    let mut out_path = String::new();
    let mut progress_path = String::new();
    let mut i = 1;
    while i < args.len() {
        let v = args.get(i + 1).cloned().unwrap_or_default();
        match args[i].as_str() {
            "--cases" | "--replay-file" => cases_path = v,
            "--from" => from = v.parse().unwrap(),
            "--to" => to = v.parse().unwrap(),
            "--out" => out_path = v,
            "--progress" => progress_path = v,
            other => {
                eprintln!("unknown argument {other}");
                std::process::exit(2);
            }
        }
        i += 2;
    }
    let text = std::fs::read_to_string(&cases_path).expect("cases file");
    let cases: Vec<Value> = text.lines().filter(|l| !l.trim().is_empty()).map(|l| serde_json::from_str(l).unwrap()).collect();
    let mut out: Box<dyn std::io::Write> =
        if out_path.is_empty() { Box::new(std::io::stdout()) } else { Box::new(std::fs::File::create(&out_path).unwrap()) };
    if std::env::var_os("VERIF_PANIC_MSG").is_none() {
        std::panic::set_hook(Box::new(|_| {}));
    }
    let to = to.min(cases.len());
    let mut bad = 0;
    for (ci, case) in cases.iter().enumerate().take(to).skip(from) {
        if !progress_path.is_empty() && ci % 16 == 0 {
            let mut raw = Vec::new();
            raw.extend_from_slice(&(ci as u64).to_le_bytes());
            raw.extend_from_slice(&0u64.to_le_bytes());
            let _ = std::fs::write(&progress_path, raw);
        }
        let case = if case.get("case").is_some() { &case["case"] } else { case };
        let problems = match catch_unwind(AssertUnwindSafe(|| run_case(case))) {
            Ok(p) => p,
            Err(p) => {
                // The fixture may be in an unknown state: start over.
                FIXTURE.with(|c| std::mem::forget(c.borrow_mut().take()));
                vec![json!({"field": "panic", "expected": null, "observed": p.downcast_ref::<String>().cloned().or_else(|| p.downcast_ref::<&str>().map(|s| (*s).to_string()))})]
            }
        };
        if let Some(mut d) = problems.into_iter().next() {
            bad += 1;
            d["path"] = json!(ci);
            d["step"] = json!(0);
            d["tag"] = json!("C13");
            d["case"] = case.clone();
            writeln!(out, "{d}").unwrap();
        }
    }
    if !progress_path.is_empty() {
        let mut raw = Vec::new();
        raw.extend_from_slice(&u64::MAX.to_le_bytes());
        raw.extend_from_slice(&0u64.to_le_bytes());
        let _ = std::fs::write(&progress_path, raw);
    }
    writeln!(out, "{}", json!({"summary": true, "paths": to.saturating_sub(from), "steps": 2 * to.saturating_sub(from), "diverged_paths": bad})).unwrap();
}

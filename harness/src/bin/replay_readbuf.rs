//! Replays the behaviours enumerated by `spec/ReadBufEdit.tla` against a real
//! `ReadBuf` that the simulated kernel filled, sitting in a pool whose other
//! slots hold canaries.
//!
//! usage: replay_readbuf --cases FILE [--from N] [--to M] [--out FILE] [--progress FILE]

use std::future::Future;
use std::io::Write as _;
use std::ops::Bound;
use std::panic::{AssertUnwindSafe, catch_unwind};
use std::task::{Context, Poll};
use std::time::Duration;

use a10::io::{ReadBuf, ReadBufPool};
use a10_verif_harness::simk;
use a10_verif_harness::{events, wakers};
use serde_json::{Value, json};

const POOL: u16 = 4;
const CANARY: u8 = 0xC5;

struct World {
    ring: a10::Ring,
    rfd: i32,
    fd: &'static a10::AsyncFd,
    pool: ReadBufPool,
    group: u16,
    base: usize,
    cap: usize,
}

fn panic_message(p: Box<dyn std::any::Any + Send>) -> String {
    if let Some(s) = p.downcast_ref::<&str>() {
        (*s).to_string()
    } else if let Some(s) = p.downcast_ref::<String>() {
        s.clone()
    } else {
        "panic".to_string()
    }
}

impl World {
    fn new(cap: usize) -> World {
        simk::reset();
        events::clear();
        let ring = a10::Ring::config().with_submission_queue_size(4).build().expect("ring");
        let rfd = *simk::kernel().rings.keys().next().unwrap();
        let fdn = simk::kernel().alloc_fd();
        let fd: &'static a10::AsyncFd = Box::leak(Box::new(unsafe { a10::AsyncFd::from_raw_fd(fdn, ring.sq()) }));
        let pool = ReadBufPool::new(ring.sq(), POOL, cap as u32).expect("pool");
        let evs = events::take();
        let new = evs.iter().find(|e| e.name == "PoolNew").expect("PoolNew");
        World { ring, rfd, fd, pool, group: new.f[0] as u16, base: new.f[3] as usize, cap }
    }

    /// One read on `buf`; the kernel answers with `bytes`. Returns the request's
    /// (addr, len, buffer_select) and the buffer.
    fn read(&mut self, buf: ReadBuf, bytes: &[u8]) -> Result<(ReadBuf, usize, usize, bool), String> {
        let waker = wakers::waker(0);
        let mut ctx = Context::from_waker(&waker);
        let mut f = Box::pin(self.fd.read(buf));
        if !f.as_mut().poll(&mut ctx).is_pending() {
            return Err("read completed without the kernel".into());
        }
        self.ring.poll(Some(Duration::ZERO)).map_err(|e| e.to_string())?;
        let req = simk::kernel().rings[&self.rfd].inflight.first().cloned().ok_or("no request")?;
        let select = req.sqe.flags() & simk::SQE_BUFFER_SELECT != 0;
        let (addr, len) = (req.sqe.addr() as usize, req.sqe.len() as usize);
        let ud = req.sqe.user_data();
        if select {
            let (flags, n) = simk::kernel().take_buffer(self.rfd, self.group, bytes).map_err(|e| format!("take_buffer {e}"))?;
            simk::kernel().complete(self.rfd, ud, n, flags);
        } else {
            let n = bytes.len().min(len);
            unsafe { (addr as *mut u8).copy_from_nonoverlapping(bytes.as_ptr(), n) };
            simk::kernel().complete(self.rfd, ud, n as i32, 0);
        }
        self.ring.poll(Some(Duration::ZERO)).map_err(|e| e.to_string())?;
        match f.as_mut().poll(&mut ctx) {
            Poll::Ready(Ok(buf)) => Ok((buf, addr, len, select)),
            Poll::Ready(Err(e)) => Err(format!("read failed: {e}")),
            Poll::Pending => Err("read still pending".into()),
        }
    }

    fn slot_of(&self, ptr: usize) -> usize {
        (ptr - self.base) / self.cap
    }

    fn offered(&self) -> Vec<u16> {
        simk::kernel().offered_buffers(self.rfd, self.group).iter().map(|(b, _)| *b).collect()
    }
}

fn bytes_of(v: &Value) -> Vec<u8> {
    v.as_array().map(|a| a.iter().filter_map(Value::as_u64).map(|b| b as u8).collect()).unwrap_or_default()
}

fn bound(kind: &str, x: usize) -> Bound<usize> {
    match kind {
        "included" => Bound::Included(x),
        "excluded" => Bound::Excluded(x),
        _ => Bound::Unbounded,
    }
}

fn run_case(world: &mut World, case: &Value) -> Option<Value> {
    let init = bytes_of(&case["init"]);
    let cap = world.cap;
    // Fill: the kernel selects a buffer and writes the initial contents.
    let (mut buf, _, _, select) = match world.read(world.pool.get(), &init) {
        Ok(r) => r,
        Err(e) => return Some(json!({"field": "initial fill", "expected": init, "observed": e})),
    };
    if !select {
        return Some(json!({"field": "initial fill", "expected": "buffer selected by the kernel", "observed": "address passed"}));
    }
    if buf.as_slice() != init.as_slice() {
        return Some(json!({"field": "contents after the initial fill", "expected": init, "observed": buf.as_slice()}));
    }
    let slot_ptr = buf.as_slice().as_ptr() as usize;
    // An empty fill still owns a slot; find it through the spare capacity.
    let slot_ptr = if init.is_empty() { buf.spare_capacity_mut().as_ptr() as usize } else { slot_ptr };
    let slot = world.slot_of(slot_ptr);
    let slot_base = world.base + slot * cap;
    // Spare bytes of our slot: 0; every other slot: canaries.
    unsafe {
        for i in init.len()..cap {
            (slot_base as *mut u8).add(i).write(0);
        }
        for s in 0..POOL as usize {
            if s != slot {
                ((world.base + s * cap) as *mut u8).write_bytes(CANARY, cap);
            }
        }
    }
    let calls = case["calls"].as_array().cloned().unwrap_or_default();
    for (ci, call) in calls.iter().enumerate() {
        let name = call["name"].as_str().unwrap_or("");
        let args = &call["args"];
        let k = args["k"].as_u64().unwrap_or(0) as usize;
        let bytes = bytes_of(&args["bytes"]);
        let exp_result = call["result"].as_str().unwrap_or("");
        let offered_before = world.offered();
        let mut result = "ok".to_string();
        let mut extra: Option<Value> = None;
        match name {
            "truncate" => buf.truncate(k),
            "clear" => buf.clear(),
            "remove" => {
                let range = (
                    bound(args["sk"].as_str().unwrap_or(""), args["a"].as_u64().unwrap_or(0) as usize),
                    bound(args["ek"].as_str().unwrap_or(""), args["b"].as_u64().unwrap_or(0) as usize),
                );
                if let Err(p) = catch_unwind(AssertUnwindSafe(|| buf.remove(range))) {
                    let _ = panic_message(p);
                    result = "panic".into();
                }
            }
            "set_len" => {
                let before = buf.len();
                unsafe { buf.set_len(k) };
                if k > before && before < buf.len() {
                    result = "grown".into();
                }
            }
            "extend" => {
                if buf.extend_from_slice(&bytes).is_err() {
                    result = "err".into();
                }
            }
            "spare" => {
                let n = buf.spare_capacity_mut().len();
                if n != k {
                    extra = Some(json!({"field": "spare capacity", "expected": k, "observed": n}));
                }
            }
            "read_again" => {
                let len_before = buf.len();
                let taken = std::mem::replace(&mut buf, world.pool.get());
                match world.read(taken, &bytes) {
                    Ok((b, addr, len, select)) => {
                        buf = b;
                        // The request must target the spare capacity of the same slot.
                        if select || addr != slot_base + len_before || len != cap - len_before {
                            extra = Some(json!({"field": "second read request", "expected": {"addr_offset": len_before, "len": cap - len_before, "select": false},
                                "observed": {"addr_offset": addr as i64 - slot_base as i64, "len": len, "select": select}}));
                        }
                    }
                    Err(e) => extra = Some(json!({"field": "second read", "expected": "ok", "observed": e})),
                }
            }
            "release" => {
                let owned_before = !offered_before.contains(&(slot as u16));
                buf.release();
                let offered = world.offered();
                let mut want = offered_before.clone();
                if exp_result == "slot" {
                    want.push(slot as u16);
                }
                if offered != want {
                    extra = Some(json!({"field": "buffer ring after release", "expected": want, "observed": offered, "owned_before": owned_before}));
                }
                result = exp_result.to_string();
            }
            other => return Some(json!({"field": "unknown call", "expected": other, "observed": null})),
        }
        if extra.is_none() && result != exp_result && !(exp_result == "grown" && result == "ok") {
            extra = Some(json!({"field": "result of the call", "expected": exp_result, "observed": result}));
        }
        let after = bytes_of(&call["after"]);
        if extra.is_none() {
            let got = buf.as_slice();
            if exp_result == "grown" {
                // Only the length and the kept prefix are fixed by the specification.
                let keep = after.iter().rposition(|b| *b != 0).map_or(0, |p| p + 1).min(got.len());
                if got.len() != after.len() || got[..keep] != after[..keep] {
                    extra = Some(json!({"field": "contents", "expected": after, "observed": got}));
                }
            } else if got != after.as_slice() || buf.len() != after.len() || buf.is_empty() != after.is_empty() {
                extra = Some(json!({"field": "contents", "expected": after, "observed": got}));
            }
        }
        if extra.is_none() && call["owned"].as_bool() == Some(true) && !buf.is_empty() && buf.as_slice().as_ptr() as usize != slot_base {
            extra = Some(json!({"field": "slot of the buffer", "expected": slot, "observed": world.slot_of(buf.as_slice().as_ptr() as usize)}));
        }
        if extra.is_none() {
            // Nothing outside the slot was touched.
            for s in 0..POOL as usize {
                if s == slot {
                    continue;
                }
                let mem = unsafe { std::slice::from_raw_parts((world.base + s * cap) as *const u8, cap) };
                if mem.iter().any(|b| *b != CANARY) {
                    extra = Some(json!({"field": "neighbouring slot modified", "expected": "untouched", "observed": {"slot": s, "bytes": mem}}));
                }
            }
        }
        if extra.is_none() && name != "release" && world.offered() != offered_before {
            extra = Some(json!({"field": "buffer ring changed by an edit", "expected": offered_before, "observed": world.offered()}));
        }
        if let Some(mut e) = extra {
            e["call_index"] = json!(ci);
            e["call"] = call.clone();
            return Some(e);
        }
    }
    // Dropping gives the slot back exactly once (if still owned).
    let offered_before = world.offered();
    let owned = !offered_before.contains(&(slot as u16));
    drop(buf);
    let offered = world.offered();
    let mut want = offered_before;
    if owned {
        want.push(slot as u16);
    }
    if offered != want {
        return Some(json!({"field": "buffer ring after drop", "expected": want, "observed": offered}));
    }
    if offered.len() != POOL as usize {
        return Some(json!({"field": "buffers available after the behaviour", "expected": POOL, "observed": offered}));
    }
    None
}

fn main() {
    let args: Vec<String> = std::env::args().collect();
    let mut cases_path = String::new();
    let (mut from, mut to) = (0usize, usize::MAX);
    let mut out_path = String::new();
    let mut progress_path = String::new();
    let mut i = 1;
    while i < args.len() {
        let v = args.get(i + 1).cloned().unwrap_or_default();
        match args[i].as_str() {
            "--cases" | "--replay-file" => cases_path = v,
            "--from" => from = v.parse().unwrap(),
            "--to" => to = v.parse().unwrap(),
            "--out" => out_path = v,
            "--progress" => progress_path = v,
            other => {
                eprintln!("unknown argument {other}");
                std::process::exit(2);
            }
        }
        i += 2;
    }
    // Stream the case file (it can hold millions of cases): only the lines of this worker's range are parsed.
    use std::io::BufRead as _;
    let file = std::io::BufReader::new(std::fs::File::open(&cases_path).expect("cases file"));
    let cases = file.lines().map_while(Result::ok).filter(|l| !l.trim().is_empty()).enumerate().skip(from).take_while(|(i, _)| *i < to);
    let mut out: Box<dyn std::io::Write> =
        if out_path.is_empty() { Box::new(std::io::stdout()) } else { Box::new(std::fs::File::create(&out_path).unwrap()) };
    std::panic::set_hook(Box::new(|_| {}));
    simk::install();
    events::install();
    let mut bad = 0;
    let mut steps = 0;
    let mut seen = 0usize;
    let mut world: Option<World> = None;
    for (ci, line) in cases {
        seen += 1;
        let case: Value = serde_json::from_str(&line).unwrap();
        let case = &case;
        if !progress_path.is_empty() && ci % 64 == 0 {
            let mut raw = Vec::new();
            raw.extend_from_slice(&(ci as u64).to_le_bytes());
            raw.extend_from_slice(&0u64.to_le_bytes());
            let _ = std::fs::write(&progress_path, raw);
        }
        let case = if case.get("case").is_some() { &case["case"] } else { case };
        let cap = case["cap"].as_u64().unwrap_or(3) as usize;
        if world.as_ref().is_none_or(|w| w.cap != cap) {
            world = Some(World::new(cap));
        }
        steps += case["calls"].as_array().map_or(0, Vec::len);
        let r = catch_unwind(AssertUnwindSafe(|| run_case(world.as_mut().unwrap(), case)));
        let d = match r {
            Ok(d) => d,
            Err(p) => Some(json!({"field": "panic outside a rejected call", "expected": null, "observed": panic_message(p)})),
        };
        if let Some(mut d) = d {
            bad += 1;
            d["path"] = json!(ci);
            d["step"] = json!(0);
            // Conservation of the pool's buffers is C08, the editing semantics C15.
            let conservation = d["field"].as_str().is_some_and(|f| f.starts_with("buffer ring after") || f.starts_with("buffers available after"));
            d["tag"] = json!(if conservation { "C08" } else { "C15" });
            d["case"] = case.clone();
            writeln!(out, "{d}").unwrap();
            // Start from a clean pool after a divergence.
            world = None;
        }
    }
    if !progress_path.is_empty() {
        let mut raw = Vec::new();
        raw.extend_from_slice(&u64::MAX.to_le_bytes());
        raw.extend_from_slice(&0u64.to_le_bytes());
        let _ = std::fs::write(&progress_path, raw);
    }
    writeln!(out, "{}", json!({"summary": true, "paths": seen, "steps": steps, "diverged_paths": bad})).unwrap();
}

//! Baton-passing scheduler: logical threads are real OS threads, but exactly
//! one holds the baton and runs; at every scheduling point of a10
//! (`a10::verif::yield_point`) the running thread hands the baton back and the
//! next thread is chosen by a *schedule*.  Because only one thread runs at a
//! time every recorded trace has an exact global order, and "nobody can run" is
//! detected as a deadlock instead of hanging.
//!
//! Schedules are explored by stateless depth-first search with a preemption
//! bound (re-executing the scenario from scratch for every schedule).

use std::cell::Cell;
use std::panic::{AssertUnwindSafe, catch_unwind};
use std::sync::{Arc, Condvar, Mutex};

use crate::alloc;
use crate::simk::{self, BlockAction, BlockInfo};

#[derive(Clone, Debug, PartialEq, Eq)]
enum TState {
    /// Waiting at a scheduling point, can continue.
    Ready,
    /// Failed to take a lock: can only continue after someone else made a step.
    LockWait { epoch: u64 },
    /// Blocked in `io_uring_enter` until ring `fd` has a completion.
    BlockedCq { fd: i32 },
    /// Blocked until a custom condition of the scenario holds.
    BlockedOn { cond: usize },
    /// Retry loop: becomes `OthersWait` on what the thread had seen at its previous wait.
    SpinWait,
    /// Can continue once other threads (or the kernel) made more than `seen` steps.
    OthersWait { seen: u64 },
    /// A simulated kernel thread: blocked until ring `fd` has an unconsumed
    /// submission or condition `cond` holds.
    BlockedSq { fd: i32, cond: usize },
    Finished,
}

#[derive(Clone, Debug)]
pub struct ChoicePoint {
    pub options: Vec<usize>,
    pub chosen: usize,
    /// The thread that was running and could have continued (if any).
    pub current: Option<usize>,
}

struct Inner {
    current: Option<usize>,
    states: Vec<TState>,
    epoch: u64,
    /// Decisions to follow (indices into the options of successive choice points).
    prefix: Vec<usize>,
    trace: Vec<ChoicePoint>,
    deadlock: bool,
    /// Labels of the scheduling points taken, for replay files / debugging.
    log: Vec<(usize, &'static str)>,
    steps: u64,
    max_steps: u64,
    conds: Vec<bool>,
    random: Option<u64>,
    /// Steps of others each thread had seen at its previous wait in a retry loop.
    last_wait: Vec<u64>,
    /// Productive steps taken by each thread itself.
    own: Vec<u64>,
}

pub struct Sched {
    inner: Mutex<Inner>,
    cv: Condvar,
}

thread_local! {
    static ME: Cell<Option<usize>> = const { Cell::new(None) };
}
static ACTIVE: Mutex<Option<Arc<Sched>>> = Mutex::new(None);

/// Logical id of the calling thread in the current scheduled run.
pub fn me() -> Option<usize> {
    ME.with(Cell::get)
}

fn active() -> Option<Arc<Sched>> {
    ACTIVE.lock().unwrap_or_else(|e| e.into_inner()).clone()
}

/// Result of one scheduled execution.
#[derive(Debug)]
pub struct Execution {
    pub trace: Vec<ChoicePoint>,
    pub deadlock: bool,
    /// Threads that had not finished when the run ended (deadlock).
    pub stuck: Vec<(usize, String)>,
    pub panics: Vec<(usize, String)>,
    pub log: Vec<(usize, &'static str)>,
    pub steps: u64,
}

impl Inner {
    fn runnable(&self, t: usize) -> bool {
        match &self.states[t] {
            TState::Ready => true,
            TState::LockWait { epoch } => self.epoch > *epoch,
            TState::BlockedCq { fd } => simk::kernel().rings.get(fd).is_some_and(|r| r.cq_ready() > 0 || !r.backlog.is_empty()),
            TState::BlockedOn { cond } => self.conds[*cond],
            TState::SpinWait => true,
            TState::OthersWait { seen } => self.epoch - self.own[t] > *seen,
            TState::BlockedSq { fd, cond } => self.conds[*cond] || simk::kernel().rings.get(fd).is_some_and(|r| r.sq_pending() > 0),
            TState::Finished => false,
        }
    }

    /// Choose the next thread to run. `me` is the thread giving up the baton
    /// (None at start or when it finished/blocked).
    fn pick(&mut self, me: Option<usize>) -> Option<usize> {
        let options: Vec<usize> = (0..self.states.len()).filter(|t| self.runnable(*t)).collect();
        if options.is_empty() {
            return None;
        }
        let me_runnable = me.filter(|m| options.contains(m));
        if options.len() == 1 {
            return Some(options[0]);
        }
        // Order the options so that index 0 is the default (no preemption).
        let mut ordered = options.clone();
        if let Some(m) = me_runnable {
            ordered.retain(|t| *t != m);
            ordered.insert(0, m);
        }
        let k = self.trace.len();
        let chosen = if k < self.prefix.len() {
            self.prefix[k].min(ordered.len() - 1)
        } else if let Some(seed) = self.random.as_mut() {
            // xorshift
            *seed ^= *seed << 13;
            *seed ^= *seed >> 7;
            *seed ^= *seed << 17;
            // Mostly continue, sometimes switch.
            if *seed % 4 == 0 { (*seed >> 8) as usize % ordered.len() } else { 0 }
        } else {
            0
        };
        self.trace.push(ChoicePoint { options: ordered.clone(), chosen, current: me_runnable });
        Some(ordered[chosen])
    }
}

impl Sched {
    fn hand_over(&self, me: usize, new_state: TState, label: &'static str) {
        let mut g = self.inner.lock().unwrap_or_else(|e| e.into_inner());
        // A waiting thread (failed try_lock, idle kernel) becomes runnable again
        // only after another thread has made a *productive* step; waiting steps do
        // not count, so two waiters cannot keep each other busy for ever.
        let new_state = match new_state {
            TState::LockWait { .. } => TState::LockWait { epoch: g.epoch },
            TState::SpinWait => {
                let previous = g.last_wait[me];
                g.last_wait[me] = g.epoch - g.own[me];
                TState::OthersWait { seen: previous }
            }
            other => {
                g.epoch += 1;
                g.own[me] += 1;
                other
            }
        };
        g.states[me] = new_state;
        g.steps += 1;
        g.log.push((me, label));
        if g.steps > g.max_steps {
            g.deadlock = true;
        }
        let next = if g.deadlock { None } else { g.pick(Some(me)) };
        match next {
            Some(t) => g.current = Some(t),
            None => {
                if g.states.iter().any(|s| *s != TState::Finished) {
                    g.deadlock = true;
                }
                g.current = None;
            }
        }
        self.cv.notify_all();
        // Wait for the baton (or for the run to be aborted).
        while g.current != Some(me) && !g.deadlock {
            g = self.cv.wait(g).unwrap_or_else(|e| e.into_inner());
        }
        if g.current == Some(me) {
            g.states[me] = TState::Ready;
        }
    }

    fn is_deadlocked(&self) -> bool {
        self.inner.lock().unwrap_or_else(|e| e.into_inner()).deadlock
    }
}

/// The callback installed into a10: a scheduling point.
fn on_yield(label: &'static str) {
    let Some(me) = ME.with(Cell::get) else { return };
    let Some(s) = active() else { return };
    if s.is_deadlocked() {
        // The run is being aborted; destructors running during the unwind must
        // not panic again.
        if !std::thread::panicking() {
            std::panic::resume_unwind(Box::new("deadlock"));
        }
        return;
    }
    alloc::untracked(|| {
        if label == "lock.wait" {
            let epoch = s.inner.lock().unwrap_or_else(|e| e.into_inner()).epoch;
            s.hand_over(me, TState::LockWait { epoch }, label);
        } else if label.ends_with(".wait") {
            // A retry loop whose progress may come from the thread's own system
            // call: continue once anything happened since its previous wait.
            s.hand_over(me, TState::SpinWait, label);
        } else {
            s.hand_over(me, TState::Ready, label);
        }
        if s.is_deadlocked() && !std::thread::panicking() {
            // Unwind this logical thread: nobody can make progress any more.
            std::panic::resume_unwind(Box::new("deadlock"));
        }
    });
}

/// An explicit scheduling point of the scenario itself.
pub fn yield_now(label: &'static str) {
    on_yield(label);
}

/// The calling thread changed shared state outside a10 (e.g. the simulated
/// kernel published a completion): waiting threads may be able to continue.
pub fn note_progress() {
    if let Some(s) = active() {
        s.inner.lock().unwrap_or_else(|e| e.into_inner()).epoch += 1;
    }
}

/// A scheduling point of a thread that has nothing to do right now: it is not
/// scheduled again before some other thread has taken a step.
pub fn yield_idle(label: &'static str) {
    let Some(me) = ME.with(Cell::get) else { return };
    let Some(s) = active() else { return };
    if s.is_deadlocked() {
        if !std::thread::panicking() {
            std::panic::resume_unwind(Box::new("deadlock"));
        }
        return;
    }
    let epoch = s.inner.lock().unwrap_or_else(|e| e.into_inner()).epoch;
    s.hand_over(me, TState::LockWait { epoch }, label);
    if s.is_deadlocked() && !std::thread::panicking() {
        std::panic::resume_unwind(Box::new("deadlock"));
    }
}

/// Set a scenario condition (threads blocked on it become runnable).
pub fn set_cond(cond: usize, value: bool) {
    if let Some(s) = active() {
        s.inner.lock().unwrap_or_else(|e| e.into_inner()).conds[cond] = value;
    }
}

/// Block the calling logical thread until condition `cond` is set.
pub fn block_on(cond: usize, label: &'static str) {
    let Some(me) = ME.with(Cell::get) else { return };
    let Some(s) = active() else { return };
    loop {
        let ok = s.inner.lock().unwrap_or_else(|e| e.into_inner()).conds[cond];
        if ok {
            return;
        }
        s.hand_over(me, TState::BlockedOn { cond }, label);
        if s.is_deadlocked() {
            std::panic::resume_unwind(Box::new("deadlock"));
        }
    }
}

/// Block the calling logical thread (a simulated kernel thread) until ring `fd`
/// has an unconsumed submission or condition `cond` is set.
pub fn block_on_sq(fd: i32, cond: usize, label: &'static str) {
    let Some(me) = ME.with(Cell::get) else { return };
    let Some(s) = active() else { return };
    s.hand_over(me, TState::BlockedSq { fd, cond }, label);
    if s.is_deadlocked() {
        std::panic::resume_unwind(Box::new("deadlock"));
    }
}

/// `io_uring_enter` has to wait for a completion: the logical thread blocks.
fn on_block(info: &BlockInfo) -> BlockAction {
    let Some(me) = ME.with(Cell::get) else {
        return if info.timeout.is_some() { BlockAction::Timeout } else { BlockAction::Deadlock };
    };
    let Some(s) = active() else { return BlockAction::Deadlock };
    if let Some((0, 0)) = info.timeout {
        return BlockAction::Timeout;
    }
    s.hand_over(me, TState::BlockedCq { fd: info.ring }, "enter.blocked");
    if s.is_deadlocked() {
        return BlockAction::Deadlock;
    }
    BlockAction::Retry
}

pub type Body = Box<dyn FnOnce() + Send + 'static>;

/// Run `bodies` as logical threads under the schedule given by `prefix`
/// (beyond it: never preempt), or by a seeded random walk.
pub fn execute(bodies: Vec<Body>, prefix: Vec<usize>, random: Option<u64>, nconds: usize, max_steps: u64) -> Execution {
    let n = bodies.len();
    let sched = Arc::new(Sched {
        inner: Mutex::new(Inner {
            current: None,
            states: vec![TState::Ready; n],
            epoch: 0,
            prefix,
            trace: Vec::new(),
            deadlock: false,
            log: Vec::new(),
            steps: 0,
            max_steps,
            conds: vec![false; nconds],
            random,
            last_wait: vec![0; n],
            own: vec![0; n],
        }),
        cv: Condvar::new(),
    });
    *ACTIVE.lock().unwrap_or_else(|e| e.into_inner()) = Some(sched.clone());
    a10::verif::install_yield(Some(on_yield));
    simk::set_on_block(Some(Box::new(on_block)));
    let panics = Arc::new(Mutex::new(Vec::new()));
    let mut handles = Vec::new();
    for (id, body) in bodies.into_iter().enumerate() {
        let s = sched.clone();
        let panics = panics.clone();
        handles.push(std::thread::spawn(move || {
            ME.with(|m| m.set(Some(id)));
            // Wait for the first turn.
            {
                let mut g = s.inner.lock().unwrap_or_else(|e| e.into_inner());
                while g.current != Some(id) && !g.deadlock {
                    g = s.cv.wait(g).unwrap_or_else(|e| e.into_inner());
                }
            }
            if !s.is_deadlocked() {
                if let Err(p) = catch_unwind(AssertUnwindSafe(body)) {
                    let msg = p.downcast_ref::<&str>().map(|m| (*m).to_string()).or_else(|| p.downcast_ref::<String>().cloned()).unwrap_or_else(|| "panic".into());
                    if msg != "deadlock" {
                        panics.lock().unwrap().push((id, msg));
                    }
                }
            }
            // Finished: pass the baton on.
            let mut g = s.inner.lock().unwrap_or_else(|e| e.into_inner());
            let finished_normally = !g.deadlock;
            if finished_normally {
                g.states[id] = TState::Finished;
                g.epoch += 1;
                match g.pick(None) {
                    Some(t) => g.current = Some(t),
                    None => {
                        if g.states.iter().any(|st| *st != TState::Finished) {
                            g.deadlock = true;
                        }
                        g.current = None;
                    }
                }
            }
            s.cv.notify_all();
        }));
    }
    // Start.
    {
        let mut g = sched.inner.lock().unwrap_or_else(|e| e.into_inner());
        match g.pick(None) {
            Some(t) => g.current = Some(t),
            None => g.deadlock = true,
        }
        sched.cv.notify_all();
    }
    for h in handles {
        let _ = h.join();
    }
    a10::verif::install_yield(None);
    simk::set_on_block(None);
    *ACTIVE.lock().unwrap_or_else(|e| e.into_inner()) = None;
    let g = sched.inner.lock().unwrap_or_else(|e| e.into_inner());
    let stuck = g.states.iter().enumerate().filter(|(_, s)| **s != TState::Finished).map(|(i, s)| (i, format!("{s:?}"))).collect();
    Execution {
        trace: g.trace.clone(),
        deadlock: g.deadlock,
        stuck,
        panics: panics.lock().unwrap().clone(),
        log: g.log.clone(),
        steps: g.steps,
    }
}

/// Depth-first enumeration of schedules with at most `max_preemptions`
/// preemptions. `run` executes the scenario under a decision prefix and
/// returns the choice points it met plus whether the search should go on.
/// Returns (executions, search completed).
pub fn explore(
    max_preemptions: usize,
    max_executions: u64,
    mut run: impl FnMut(Vec<usize>) -> (Vec<ChoicePoint>, bool),
) -> (u64, bool) {
    // Each stack entry: (number of options, chosen index, choosing > 0 is a preemption).
    let mut stack: Vec<(usize, usize, bool)> = Vec::new();
    let mut executions = 0;
    // The schedule about to be executed is written here first, so that a
    // crash of the code under test can be attributed to a schedule.
    let mut current = std::env::var_os("SCHED_CURRENT").and_then(|p| std::fs::File::create(p).ok());
    loop {
        let prefix: Vec<usize> = stack.iter().map(|c| c.1).collect();
        if let Some(f) = current.as_mut() {
            use std::io::{Seek, Write};
            let text = format!("{prefix:?}\n");
            let _ = f.seek(std::io::SeekFrom::Start(0));
            let _ = f.write_all(text.as_bytes());
            let _ = f.set_len(text.len() as u64);
        }
        let (trace, go_on) = run(prefix);
        executions += 1;
        if !go_on || executions >= max_executions {
            return (executions, false);
        }
        // Adopt the choice points discovered beyond the prefix (all took option 0).
        for cp in trace.iter().skip(stack.len()) {
            stack.push((cp.options.len(), 0, cp.current.is_some()));
        }
        // Backtrack to the deepest choice point with an untried option within the bound.
        loop {
            let Some((nopts, chosen, preemptible)) = stack.pop() else { return (executions, true) };
            let used: usize = stack.iter().filter(|c| c.1 > 0 && c.2).count();
            let next = chosen + 1;
            if next < nopts && (!preemptible || used < max_preemptions) {
                stack.push((nopts, next, preemptible));
                break;
            }
        }
    }
}

#!/usr/bin/env python3
"""Turn TLC's labelled edge export (lines `<<"EDGE", from, actJson, to>>`) into a
set of paths from the initial state that together cover every exported
transition, for the replay harness.

Output (directory):  acts.json   list of distinct action records (parsed JSON)
                     paths.jsonl one path per line: list of indices into acts.json
                     meta.json   counts (states, edges, paths, steps)
"""
import json, re, sys, collections, random

def parse_tla_string(s, i):
    # s[i] == '"'; returns (python string, index after closing quote)
    assert s[i] == '"'
    out = []
    i += 1
    while True:
        c = s[i]
        if c == '\\':
            n = s[i + 1]
            out.append({'"': '"', '\\': '\\', 'n': '\n', 't': '\t'}.get(n, n))
            i += 2
        elif c == '"':
            return ''.join(out), i + 1
        else:
            out.append(c)
            i += 1

def parse_edge(line):
    # <<"EDGE", "from", "json", "to">>
    i = line.index('"')
    parts = []
    while len(parts) < 4:
        s, i = parse_tla_string(line, i)
        parts.append(s)
        if len(parts) < 4:
            i = line.index('"', i)
    return parts[1], parts[2], parts[3]

def main():
    log, outdir = sys.argv[1], sys.argv[2]
    max_len = int(sys.argv[3]) if len(sys.argv) > 3 else 60
    seed = int(sys.argv[4]) if len(sys.argv) > 4 else 0
    rnd = random.Random(seed)
    node_id = {}
    act_id = {}
    acts = []
    succ = collections.defaultdict(list)   # u -> list of (act, v)
    edges = set()
    init = None
    with open(log, errors='replace') as f:
        for line in f:
            if not line.startswith('<<"EDGE"'):
                continue
            u, a, v = parse_edge(line)
            if init is None:
                init = u
            ui = node_id.setdefault(u, len(node_id))
            vi = node_id.setdefault(v, len(node_id))
            ai = act_id.get(a)
            if ai is None:
                ai = act_id[a] = len(acts)
                acts.append(json.loads(a))
            e = (ui, ai, vi)
            if e not in edges:
                edges.add(e)
                succ[ui].append((ai, vi))
    if init is None:
        sys.exit('no EDGE lines in ' + log)
    # The initial state is the one with no incoming edge found first: TLC
    # explores breadth first, so the first from-state printed is the initial one.
    root = node_id[init]
    # BFS tree.
    parent = {root: None}
    order = [root]
    dq = collections.deque([root])
    while dq:
        u = dq.popleft()
        for (a, v) in succ[u]:
            if v not in parent:
                parent[v] = (u, a)
                order.append(v)
                dq.append(v)
    def prefix(u):
        p = []
        while parent[u] is not None:
            pu, a = parent[u]
            p.append((pu, a, u))
            u = pu
        p.reverse()
        return p
    uncovered = set(e for e in edges if e[0] in parent)
    unc_out = collections.defaultdict(list)
    for (u, a, v) in uncovered:
        unc_out[u].append((a, v))
    for u in unc_out:
        rnd.shuffle(unc_out[u])
    paths = []
    steps = 0
    for u in order:            # increasing depth
        while unc_out[u]:
            path = prefix(u)
            for e in path:
                if e in uncovered:
                    uncovered.discard(e)
                    try:
                        unc_out[e[0]].remove((e[1], e[2]))
                    except ValueError:
                        pass
            cur = u
            while len(path) < max_len and unc_out[cur]:
                a, v = unc_out[cur].pop()
                uncovered.discard((cur, a, v))
                path.append((cur, a, v))
                cur = v
            if len(path) < max_len and not unc_out[cur]:
                # try to walk on through covered edges to a node with uncovered edges (1 step lookahead)
                for (a, v) in succ[cur]:
                    if unc_out[v] and len(path) + 1 < max_len:
                        path.append((cur, a, v))
                        cur = v
                        while len(path) < max_len and unc_out[cur]:
                            a2, v2 = unc_out[cur].pop()
                            uncovered.discard((cur, a2, v2))
                            path.append((cur, a2, v2))
                            cur = v2
                        break
            paths.append([a for (_, a, _) in path])
            steps += len(path)
    import os
    os.makedirs(outdir, exist_ok=True)
    with open(os.path.join(outdir, 'acts.json'), 'w') as f:
        json.dump(acts, f)
    with open(os.path.join(outdir, 'paths.jsonl'), 'w') as f:
        for p in paths:
            f.write(json.dumps(p) + '\n')
    meta = {'states': len(node_id), 'edges': len(edges), 'reachable_edges': len([e for e in edges if e[0] in parent]),
            'paths': len(paths), 'steps': steps, 'distinct_acts': len(acts), 'uncovered': len(uncovered)}
    with open(os.path.join(outdir, 'meta.json'), 'w') as f:
        json.dump(meta, f)
    print(json.dumps(meta))

if __name__ == '__main__':
    main()

"""Shared machinery of ./check: hashing, building, TLC runs, replay fan-out, evidence."""
import fcntl, hashlib, json, os, re, subprocess, sys, time, glob, shutil

VERIF = os.path.dirname(os.path.dirname(os.path.abspath(__file__)))
REPO = os.environ.get('VERIF_REPO', '/repo')
BUILD = os.path.join(VERIF, 'build')
SPEC = os.path.join(VERIF, 'spec')
HARNESS = os.path.join(VERIF, 'harness')
TARGET = os.path.join(BUILD, 'target')
TLC_WORKERS = int(os.environ.get('VERIF_TLC_WORKERS', '8'))
REPLAY_PROCS = int(os.environ.get('VERIF_REPLAY_PROCS', '8'))


class ToolError(Exception):
    pass


def sh(cmd, **kw):
    return subprocess.run(cmd, shell=isinstance(cmd, str), stdout=subprocess.PIPE, stderr=subprocess.STDOUT,
                          stdin=subprocess.DEVNULL, text=True, **kw)


def _hash_files(paths):
    h = hashlib.sha256()
    for p in sorted(paths):
        if os.path.isfile(p):
            h.update(p.encode())
            with open(p, 'rb') as f:
                h.update(f.read())
    return h.hexdigest()[:16]


def tree_hash():
    files = []
    for root in (os.path.join(REPO, 'src'),):
        for d, _, fs in os.walk(root):
            files += [os.path.join(d, f) for f in fs]
    files += [os.path.join(REPO, 'Cargo.toml'), os.path.join(REPO, 'Cargo.lock')]
    for d, _, fs in os.walk(os.path.join(HARNESS, 'src')):
        files += [os.path.join(d, f) for f in fs]
    files += [os.path.join(HARNESS, 'Cargo.toml'), os.path.join(HARNESS, '.cargo', 'config.toml')]
    files += glob.glob(os.path.join(SPEC, '*'))
    files += glob.glob(os.path.join(VERIF, 'tools', '*.py'))
    files += [os.path.join(VERIF, 'check'), os.path.join(VERIF, 'KNOWN_FINDINGS.txt')]
    return _hash_files(files)


class Lock:
    def __init__(self, name):
        os.makedirs(BUILD, exist_ok=True)
        self.path = os.path.join(BUILD, name + '.lock')

    def __enter__(self):
        self.f = open(self.path, 'w')
        fcntl.flock(self.f, fcntl.LOCK_EX)
        return self

    def __exit__(self, *a):
        fcntl.flock(self.f, fcntl.LOCK_UN)
        self.f.close()


def build_harness(release=False):
    """Rebuild the harness against the current /repo working tree."""
    with Lock('cargo'):
        cmd = ['cargo', 'build', '--offline'] + (['--release'] if release else [])
        env = dict(os.environ, CARGO_NET_OFFLINE='true')
        r = subprocess.run(cmd, cwd=HARNESS, env=env, stdout=subprocess.PIPE, stderr=subprocess.STDOUT,
                           stdin=subprocess.DEVNULL, text=True)
        if r.returncode != 0:
            raise ToolError('harness (with /repo) failed to build:\n' + r.stdout[-4000:])
    return os.path.join(TARGET, 'release' if release else 'debug')


# --------------------------------------------------------------------------- known findings

def known_findings():
    """Returns (findings, fixed): lists of dicts with property, deviation, text."""
    findings, fixed = [], []
    path = os.path.join(VERIF, 'KNOWN_FINDINGS.txt')
    if not os.path.exists(path):
        return findings, fixed
    for line in open(path):
        line = line.strip()
        if not line or line.startswith('#'):
            continue
        m = re.match(r'finding:\s+property=(\S+)\s+deviation=(\S+)\s+(.*)', line)
        if m:
            findings.append({'property': m.group(1), 'deviation': m.group(2), 'text': m.group(3)})
            continue
        m = re.match(r'fixed:\s+property=(\S+)\s+(\S+)\s+(.*)', line)
        if m:
            fixed.append({'property': m.group(1), 'commit': m.group(2), 'text': m.group(3)})
    return findings, fixed


def deviations_for(module_deviations):
    """Deviation names (restricted to those the module knows) enabled by the findings file."""
    findings, _ = known_findings()
    return sorted({f['deviation'] for f in findings if f['deviation'] in module_deviations})


# --------------------------------------------------------------------------- TLC

def tla_set(items):
    return '{' + ', '.join('"%s"' % i for i in items) + '}'


def write_cfg(name, text):
    d = os.path.join(BUILD, 'cfg')
    os.makedirs(d, exist_ok=True)
    p = os.path.join(d, name + '.cfg')
    with open(p, 'w') as f:
        f.write(text)
    return p


def run_tlc(name, module, cfg_path, workers=None, timeout=1200, extra=(), simulate=None, coverage=False):
    """Run TLC; returns dict(ok, generated, distinct, depth, violated, log, wall_s)."""
    workers = workers or TLC_WORKERS
    meta = os.path.join(BUILD, 'tlc', name)
    shutil.rmtree(meta, ignore_errors=True)
    os.makedirs(meta, exist_ok=True)
    log = os.path.join(BUILD, 'tlc', name + '.log')
    cmd = ['timeout', str(timeout), 'tlc', '-workers', str(workers), '-metadir', meta, '-cleanup',
           '-noGenerateSpecTE', '-config', cfg_path]
    if coverage:
        cmd += ['-coverage', '1']
    if simulate:
        cmd += ['-simulate', simulate]
    cmd += list(extra) + [os.path.join(SPEC, module + '.tla')]
    t0 = time.time()
    env = dict(os.environ)
    with open(log, 'w') as f:
        r = subprocess.run(cmd, cwd=SPEC, stdout=f, stderr=subprocess.STDOUT, stdin=subprocess.DEVNULL, env=env)
    wall = time.time() - t0
    out = {'name': name, 'module': module, 'log': log, 'wall_s': round(wall, 2), 'rc': r.returncode,
           'ok': False, 'generated': 0, 'distinct': 0, 'depth': 0, 'violated': None, 'error': None}
    text = open(log, errors='replace').read()
    m = re.findall(r'(\d[\d,]*) states generated, (\d[\d,]*) distinct states found', text)
    if m:
        out['generated'] = int(m[-1][0].replace(',', ''))
        out['distinct'] = int(m[-1][1].replace(',', ''))
    m = re.search(r'depth of the complete state graph search is (\d+)', text)
    if m:
        out['depth'] = int(m.group(1))
    m = re.search(r'Invariant (\S+) is violated', text)
    if m:
        out['violated'] = m.group(1)
    m = re.search(r'Temporal properties were violated', text)
    if m:
        out['violated'] = out['violated'] or 'temporal property'
    if r.returncode == 124:
        out['error'] = 'timeout'
    elif 'Error:' in text and not out['violated']:
        e = re.search(r'Error: (.*)', text)
        out['error'] = e.group(1)[:300] if e else 'error'
    out['ok'] = (r.returncode == 0 and not out['violated'] and not out['error'])
    shutil.rmtree(meta, ignore_errors=True)
    return out


def parse_coverage(log):
    """Per-action counts from a -coverage run: {action: (distinct, total)}."""
    res = {}
    for m in re.finditer(r'<(\w+) line \d+, col \d+ to line \d+, col \d+ of module (\w+)>: (\d+):(\d+)',
                         open(log, errors='replace').read()):
        res[m.group(1)] = (int(m.group(3)), int(m.group(4)))
    return res


# --------------------------------------------------------------------------- replay fan-out

def replay_parallel(binary, common_args, npaths, outdir, procs=None, crash_tag=None):
    """Run `binary` over [0, npaths) in `procs` slices. Returns (records, summaries, crashes)."""
    procs = procs or REPLAY_PROCS
    os.makedirs(outdir, exist_ok=True)
    chunk = max(1, (npaths + procs - 1) // procs)
    jobs = []
    for i in range(procs):
        lo, hi = i * chunk, min(npaths, (i + 1) * chunk)
        if lo >= hi:
            break
        jobs.append([lo, hi, i, 0])
    records, summaries, crashes = [], [], []
    running = []

    def start(job):
        lo, hi, i, gen = job
        out = os.path.join(outdir, 'out.%d.%d.jsonl' % (i, gen))
        prog = os.path.join(outdir, 'progress.%d' % i)
        if os.path.exists(prog):
            os.unlink(prog)
        p = subprocess.Popen([binary] + common_args + ['--from', str(lo), '--to', str(hi), '--out', out, '--progress', prog],
                             stdin=subprocess.DEVNULL, stdout=subprocess.DEVNULL, stderr=subprocess.PIPE)
        running.append((p, job, out, prog))

    import struct
    stall_s = float(os.environ.get('VERIF_REPLAY_STALL_S', '6'))

    def read_progress(prog):
        try:
            raw = open(prog, 'rb').read(16)
            if len(raw) == 16:
                return struct.unpack('<QQ', raw)
        except OSError:
            pass
        return (-1, -1)

    def cpu_ticks(pid):
        try:
            fields = open('/proc/%d/stat' % pid).read().rsplit(')', 1)[1].split()
            return int(fields[11]) + int(fields[12])      # utime + stime
        except (OSError, IndexError, ValueError):
            return 0

    for j in jobs:
        start(j)
    last = {}
    cpu_seen = {}
    while running:
        time.sleep(0.05)
        for entry in list(running):
            p, job, out, prog = entry
            rc = p.poll()
            hung = False
            if rc is None:
                cur = read_progress(prog)
                prev = last.get(id(p))
                now = time.time()
                if prev is None or prev[0] != cur:
                    last[id(p)] = (cur, now)
                    cpu_seen.pop(id(p), None)
                    continue
                # Until the first progress record appears the process is loading its
                # input: allow a generous start-up time.
                limit = stall_s if cur[0] != -1 else 180
                if now - prev[1] < limit:
                    continue
                # No progress record for stall_s seconds.  A process that is merely starved of
                # CPU (a loaded machine) still accumulates CPU time, one that hangs on a lock
                # does not: give the former up to ten times as long (a busy loop ends there too).
                ticks = cpu_ticks(p.pid)
                seen = cpu_seen.get(id(p))
                cpu_seen[id(p)] = ticks
                if seen is not None and ticks > seen and now - prev[1] < 10 * limit:
                    continue
                if seen is None and now - prev[1] < 2 * limit:
                    continue
                p.kill()
                hung = True
            running.remove(entry)
            _, err = p.communicate()
            if os.path.exists(out):
                for line in open(out):
                    try:
                        r = json.loads(line)
                    except ValueError:
                        continue
                    (summaries if r.get('summary') else records).append(r)
            if p.returncode != 0:
                # The process died (signal / abort) or hung: data about the code under test.
                path_idx, step_idx = read_progress(prog)
                if path_idx >= (1 << 63):
                    path_idx = -1
                crashes.append({'path': path_idx, 'step': step_idx, 'rc': 'hang' if hung else p.returncode,
                                'stderr': (err or b'').decode(errors='replace')[-600:]})
                lo, hi, i, gen = job
                # Enough evidence after a few: do not re-run a slice for ever.
                if 0 <= path_idx < hi - 1 and gen < (5 if hung else 20):
                    start([path_idx + 1, hi, i, gen + 1])
    return records, summaries, crashes


# --------------------------------------------------------------------------- cache

def cache_get(key):
    p = os.path.join(BUILD, 'cache', key + '.json')
    if os.path.exists(p) and os.environ.get('VERIF_NO_CACHE') != '1':
        try:
            return json.load(open(p))
        except ValueError:
            return None
    return None


def cache_put(key, value):
    d = os.path.join(BUILD, 'cache')
    os.makedirs(d, exist_ok=True)
    tmp = os.path.join(d, key + '.json.tmp.%d' % os.getpid())
    with open(tmp, 'w') as f:
        json.dump(value, f)
    os.replace(tmp, os.path.join(d, key + '.json'))

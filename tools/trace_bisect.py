#!/usr/bin/env python3
"""Find the first recorded execution a trace specification rejects.

usage: trace_bisect.py <Trace_Module> <cfg file> <trace.ndjson>
The ndjson file holds executions separated by {"ev": "Reset"} lines.  Prints the
index and the events of the first execution that TLC does not accept (bisection
over prefixes; acceptance = invariant NotAtEnd reported violated)."""
import json, os, subprocess, sys, tempfile
SPEC = os.path.join(os.path.dirname(os.path.dirname(os.path.abspath(__file__))), 'spec')

def accepted(module, cfg, execs):
    with tempfile.NamedTemporaryFile('w', suffix='.ndjson', delete=False) as f:
        for ex in execs:
            for ev in ex:
                f.write(json.dumps(ev) + '\n')
        path = f.name
    meta = tempfile.mkdtemp()
    env = dict(os.environ, TRACE=path, JAVA_TOOL_OPTIONS='-Xss1g -Dtlc2.tool.queue.IStateQueue=StateDeque')
    r = subprocess.run(['timeout', '600', 'tlc', '-workers', '1', '-metadir', meta, '-noGenerateSpecTE', '-config', cfg, module + '.tla'],
                       cwd=SPEC, env=env, stdout=subprocess.PIPE, stderr=subprocess.STDOUT, text=True)
    os.unlink(path)
    subprocess.run(['rm', '-rf', meta])
    return 'Invariant NotAtEnd is violated' in r.stdout

def main():
    module, cfg, trace = sys.argv[1], os.path.abspath(sys.argv[2]), sys.argv[3]
    execs, cur = [], []
    for line in open(trace):
        ev = json.loads(line)
        cur.append(ev)
        if ev['ev'] == 'Reset':
            execs.append(cur)
            cur = []
    if cur:
        execs.append(cur)
    if accepted(module, cfg, execs):
        print('accepted')
        return
    lo, hi = 0, len(execs)       # prefix of length lo accepted, of length hi rejected
    while hi - lo > 1:
        mid = (lo + hi) // 2
        if accepted(module, cfg, execs[:mid]):
            lo = mid
        else:
            hi = mid
    print('first rejected execution: #%d of %d' % (hi - 1, len(execs)))
    for ev in execs[hi - 1]:
        print(json.dumps(ev))

if __name__ == '__main__':
    main()

#!/usr/bin/env python3
"""Confirm seeded changes independently: for each /tmp/seed/<Cxx>/OUT/<L> the
patch compiles, the repository's own test suite still passes with it, and the
demonstration passes without the patch and fails with it.  Confirmed seeds are
stored as /verif/seeded/<Cxx>_<L>/ (patch.diff, demo.rs, notes.md, meta.json).

usage: confirm_seeds.py <worker-id> <Cxx_L> [<Cxx_L> ...]
Works in a scratch worktree /var/tmp/confirm-<worker-id> which is removed at the end."""
import json, os, re, shutil, subprocess, sys, time

def sh(cmd, cwd=None, timeout=None, log=None):
    if log:
        with open(log, 'w') as f:
            try:
                r = subprocess.run(cmd, shell=True, cwd=cwd, stdout=f, stderr=subprocess.STDOUT, stdin=subprocess.DEVNULL, timeout=timeout)
                return r.returncode
            except subprocess.TimeoutExpired:
                return 124
    r = subprocess.run(cmd, shell=True, cwd=cwd, stdout=subprocess.PIPE, stderr=subprocess.STDOUT, stdin=subprocess.DEVNULL, text=True, timeout=timeout)
    return r.returncode, r.stdout

def section(notes, letter):
    m = re.search(r'^## %s\b.*?(?=^## [B-Z]\b|\Z)' % letter, notes, re.S | re.M)
    return m.group(0) if m else ''

def main():
    wid = sys.argv[1]
    seeds = sys.argv[2:]
    wt = '/var/tmp/confirm-%s' % wid
    rc, out = sh('git -C /repo worktree add -q --detach %s HEAD' % wt)
    if rc != 0:
        sys.exit(out)
    env = 'CARGO_TARGET_DIR=%s/target CARGO_NET_OFFLINE=true' % wt
    try:
        for seed in seeds:
            pid, letter = seed.split('_')
            src = '/tmp/seed/%s/OUT' % pid
            ported = os.path.join(src, '%s.ported.diff' % letter)
            original = os.path.join(src, '%s.patch.diff' % letter)
            patch = ported if os.path.exists(ported) else original
            demo = os.path.join(src, '%s.demo.rs' % letter)
            test_name = 'seed_%s_%s' % (pid.lower(), letter.lower())
            dst = '/verif/seeded/%s' % seed
            os.makedirs(dst, exist_ok=True)
            logs = os.path.join('/var/tmp', 'confirm-logs-%s' % seed)
            os.makedirs(logs, exist_ok=True)
            meta = {'property': pid, 'seed': seed, 'repo_commit': sh('git -C /repo rev-parse --short HEAD')[1].strip(), 'ran': []}
            sh('git checkout -q -- . && git clean -qfd tests', cwd=wt)
            shutil.copy(demo, os.path.join(wt, 'tests', test_name + '.rs'))
            # 1. demonstration without the change
            cmd = '%s timeout 900 cargo test --offline --test %s' % (env, test_name)
            rc1 = sh(cmd, cwd=wt, log=os.path.join(logs, 'demo_without.log'))
            meta['ran'].append({'what': 'demonstration on the unchanged tree', 'cmd': 'cargo test --offline --test ' + test_name, 'exit': rc1, 'expected': 'pass'})
            # 2. with the change
            rca, out = sh('git apply %s' % patch, cwd=wt)
            meta['applies'] = rca == 0
            if rca != 0:
                meta['error'] = out[-400:]
            else:
                rc2 = sh(cmd, cwd=wt, log=os.path.join(logs, 'demo_with.log'))
                text = open(os.path.join(logs, 'demo_with.log'), errors='replace').read()
                compiled = 'error: could not compile' not in text
                meta['ran'].append({'what': 'demonstration with the change applied', 'cmd': 'cargo test --offline --test ' + test_name, 'exit': rc2,
                                    'compiled': compiled, 'expected': 'fail'})
                os.unlink(os.path.join(wt, 'tests', test_name + '.rs'))
                t0 = time.time()
                rc3 = sh('%s timeout 1800 cargo test --workspace --no-fail-fast --offline' % env, cwd=wt, log=os.path.join(logs, 'suite_with.log'))
                text = open(os.path.join(logs, 'suite_with.log'), errors='replace').read()
                results = re.findall(r'test result: (\w+)\. (\d+) passed; (\d+) failed', text)
                meta['ran'].append({'what': "the repository's test suite with the change applied", 'cmd': 'cargo test --workspace --no-fail-fast --offline',
                                    'exit': rc3, 'results': results, 'wall_s': round(time.time() - t0), 'expected': 'pass'})
                meta['confirmed'] = bool(rc1 == 0 and rc2 not in (0, 124) and compiled and rc3 == 0) or bool(rc1 == 0 and rc2 == 124 and rc3 == 0)
                meta['demo_hangs_with_change'] = rc2 == 124
            notes = open(os.path.join(src, 'notes.md'), errors='replace').read() if os.path.exists(os.path.join(src, 'notes.md')) else ''
            sec = section(notes, letter)
            m = re.search(r'### What is needed[^\n]*\n(.*?)(?=^### |\Z)', sec, re.S | re.M)
            meta['needs_to_manifest'] = (m.group(1).strip() if m else '')[:1500]
            shutil.copy(patch, os.path.join(dst, 'patch.diff'))
            if patch == ported:
                shutil.copy(original, os.path.join(dst, 'original.patch.diff'))
                meta['ported'] = 'the sub-agent wrote its patch against an earlier commit of /repo (before verification hooks / fixes touched the same lines); patch.diff is the same change re-applied by hand on the current tree, original.patch.diff is what the sub-agent delivered'
            shutil.copy(demo, os.path.join(dst, 'demo.rs'))
            open(os.path.join(dst, 'notes.md'), 'w').write(sec or notes)
            json.dump(meta, open(os.path.join(dst, 'meta.json'), 'w'), indent=1)
            print(seed, 'confirmed' if meta.get('confirmed') else 'NOT CONFIRMED', [(r['what'][:30], r['exit']) for r in meta['ran']])
            sys.stdout.flush()
            shutil.rmtree(logs, ignore_errors=True) if meta.get('confirmed') else None
    finally:
        sh('git -C /repo worktree remove --force %s' % wt)
        shutil.rmtree(wt, ignore_errors=True)

if __name__ == '__main__':
    main()

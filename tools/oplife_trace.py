#!/usr/bin/env python3
"""Turn a hook-event trace recorded from the real kernel (A10_VERIF_TRACE) into
the event list Trace_OpLife.tla validates.  Pointers are renamed to slots: a
slot is taken at OpNew and returned after OpFree; nothing else is inferred.

usage: oplife_trace.py <trace.ndjson>... <out.ndjson>   -> prints statistics as JSON"""
import json, sys

MORE = 2      # IORING_CQE_F_MORE
SKIP = 32     # IORING_CQE_F_SKIP

def convert(paths, out_path, max_slots=128):
    out = open(out_path, 'w')
    stats = {'events_in': 0, 'events_out': 0, 'operations': 0, 'max_live': 0, 'unknown_routes': 0}
    def emit(ev, i, a=0, b=0):
        out.write(json.dumps({'ev': ev, 'i': i, 'a': a, 'b': b}) + '\n')
        stats['events_out'] += 1
    for path in paths:
        slot = {}            # pointer -> slot
        free = list(range(max_slots, 0, -1))
        # One process per file; a new file starts from a clean state: all live slots are dropped
        # by construction (the process ended), which the trace expresses with fresh slot numbers.
        for line in open(path):
            try:
                e = json.loads(line)
            except ValueError:
                continue
            stats['events_in'] += 1
            ev = e['ev']
            f = [int(x) for x in e['f']]
            if ev == 'OpNew':
                if not free:
                    raise SystemExit('more than %d live operations' % max_slots)
                s = free.pop()
                slot[f[0]] = s
                stats['operations'] += 1
                stats['max_live'] = max(stats['max_live'], len(slot))
                emit('New', s, f[1])
                continue
            if ev == 'SqAdd':
                raw = bytes.fromhex(e.get('raw', ''))
                if len(raw) < 40:
                    continue
                ud = int.from_bytes(raw[32:40], 'little')
                if ud <= 3:
                    continue
                s = slot.get(ud & ~1)
                emit('Publish', s if s else 0)
                continue
            if ev == 'CqEntry':
                ud, flags = f[3], f[5]
                if ud <= 3 or flags & SKIP:
                    continue
                s = slot.get(ud & ~1)
                if not s:
                    stats['unknown_routes'] += 1
                emit('Route', s if s else 0, 1 if flags & MORE else 0)
                continue
            names = {'OpSubmitted': 'Submitted', 'OpQueueFull': 'QueueFull', 'OpPending': 'Pending', 'OpEnd': 'End',
                     'OpRestart': 'Restart', 'OpReset': 'Reset'}
            if ev in names:
                emit(names[ev], slot.get(f[0] & ~1, 0))
            elif ev == 'OpUpdate':
                emit('Update', slot.get(f[0] & ~1, 0), 1 if f[3] & MORE else 0, f[1])
            elif ev == 'OpResult':
                emit('Result', slot.get(f[0] & ~1, 0), f[3])
            elif ev == 'OpDrop':
                emit('Drop', slot.get(f[0] & ~1, 0), f[1])
            elif ev == 'OpFree':
                s = slot.pop(f[0] & ~1, 0)
                emit('Free', s)
                if s:
                    free.append(s)
        stats['live_at_end'] = stats.get('live_at_end', 0) + len(slot)
    out.close()
    return stats

def convert_queues(paths, out_path, max_rings=64):
    """Queue-level events (SqAdd, CqPollBegin, CqReload, CqEntry, CqPollEnd) with ring ids renamed to
    slots (a slot per ring id as first seen; ids are not reused within a process)."""
    out = open(out_path, 'w')
    stats = {'events_out': 0, 'rings': 0}
    for path in paths:
        ring = {}
        for line in open(path):
            try:
                e = json.loads(line)
            except ValueError:
                continue
            ev = e['ev']
            if ev == 'SharedDrop':
                # The ring's shared state is freed: its address (the id) may be used by a later ring.
                ring.pop(int(e['f'][0]), None)
                continue
            if ev not in ('SqAdd', 'CqPollBegin', 'CqReload', 'CqEntry', 'CqPollEnd'):
                continue
            f = [int(x) for x in e['f']]
            if f[0] not in ring:
                stats['rings'] += 1
                ring[f[0]] = stats['rings']
                if ring[f[0]] > max_rings:
                    raise SystemExit('more than %d rings' % max_rings)
            r = ring[f[0]]
            if any(v >= 2 ** 31 for v in (f[1:4] if ev == 'SqAdd' else f[1:3])):
                raise SystemExit('counter value beyond the range of TLC integers in a recorded run')
            name = {'SqAdd': 'SqAdd', 'CqPollBegin': 'PollBegin', 'CqReload': 'Reload', 'CqEntry': 'Entry', 'CqPollEnd': 'PollEnd'}[ev]
            out.write(json.dumps({'ev': name, 'r': r, 'a': f[1], 'b': f[2], 'c': f[3] if ev == 'SqAdd' else 0}) + '\n')
            stats['events_out'] += 1
    out.close()
    return stats


if __name__ == '__main__':
    print(json.dumps(convert(sys.argv[1:-1], sys.argv[-1])))

#!/usr/bin/env python3
"""Print the prompt given to an independent seeding sub-agent for one property.
The agent gets only the property text and its own scratch worktree; nothing from /verif."""
import json, sys
pid = sys.argv[1]
for line in open('/verif/properties.jsonl'):
    p = json.loads(line)
    if p['id'] == pid:
        break
else:
    sys.exit('no such property')
wt = f'/tmp/seed/{pid}'
print(f"""You are helping to evaluate a verification framework for the Rust crate `a10` (an io_uring library: it exposes Linux io_uring operations as Futures). Your job is to play the role of a developer who introduces a subtle, realistic regression.

Your working directory is the git worktree {wt} (a scratch checkout of the crate). Work ONLY inside {wt}. Do not read or write /verif or /repo, and do not look at any other directory under /tmp/seed. There is no network; `cargo` works offline (always pass --offline).

Here is a semantic property the crate is supposed to satisfy:

  id: {p['id']}
  title: {p['title']}
  statement: {p['statement']}
  quantified over: {p['quantifier']['text']}
  why the existing tests cannot settle it: {p['why_tests_cant']}
  code locations involved: {json.dumps(p['anchors'].get('mechanism', []))}

TASK. Produce TWO independent source changes (call them A and B, at different code sites, each a separate small patch against the pristine worktree) to the crate's `src/` that each
  1. BREAK the property above (for some input / schedule / history / fault sequence),
  2. still COMPILE, and
  3. still PASS the existing test suite:  cd {wt} && cargo test --workspace --no-fail-fast --offline   (all tests must pass; run it and confirm; it takes well under a minute after the first build).
Prefer changes that look like plausible refactoring mistakes, optimisations or off-by-one errors, and that need something SPECIFIC to manifest — a particular interleaving or completion order, a fault at a particular point, a multi-step sequence of operations, an unusual input value, or two cooperating sites that each look fine alone — NOT changes that any ordinary use of the library would expose at once. Do not touch tests/, Cargo.toml, or anything but src/. Keep each change small (a few lines).

For each change also write a DEMONSTRATION: a new Rust integration test file (e.g. {wt}/tests/seed_{pid.lower()}_a.rs, run with `cargo test --offline --test seed_{pid.lower()}_a`) or a small example program that FAILS (assertion failure, panic, hang detected by a timeout, wrong output, leaked fd, etc.) with the change applied and PASSES on the pristine code. The demonstration may use the real kernel's io_uring (it works in this sandbox; pipes and socket pairs let you hold operations in flight for as long as you like), may use only the crate's public API plus std/libc (libc is already a dependency; no new crates), and should be deterministic. Look at {wt}/tests/util/mod.rs for helper ideas (you may copy what you need into your demo file). If the breakage genuinely cannot be shown on the real kernel (e.g. it needs 2^32 submissions), write the closest demonstration you can and explain precisely what would be needed.

Verify everything yourself: pristine code -> demo passes; patched code -> existing suite passes AND demo fails.

DELIVERABLES, written to {wt}/OUT/ :
  - A.patch.diff and B.patch.diff   (each `git diff` of src/ only, relative to the pristine HEAD, applying cleanly on its own with `git apply`)
  - A.demo.rs and B.demo.rs         (the demonstration test files; say in the notes where they must be placed and how to run them)
  - notes.md                        (for each of A and B: what was changed, why it breaks the property, exactly what is needed for it to manifest, the commands you ran and their outcomes)
When you are done, restore the worktree's src/ to pristine (git checkout -- src) but leave OUT/ in place. Your final message should be a short summary of A and B (site, effect, trigger) and whether each verification step succeeded.""")

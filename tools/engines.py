"""Verification engines: each runs TLC on a specification module and binds the
specification to the implementation by replaying TLC-generated behaviours
through the real crate.  An engine returns a JSON-serialisable dict:

  tlc:        list of TLC run summaries (contract checks and graph exports)
  replays:    list of replay summaries
  divergences: list of records {tag, field, expected, observed, path_acts, config, ...}
               (only the earliest divergence of each behaviour)
  errors:     tool errors (a non-empty list makes the check exit 2)
"""
import json, shutil, glob, os, subprocess, time

from vlib import (BUILD, SPEC, VERIF, ToolError, build_harness, cache_get, cache_put, deviations_for,
                  parse_coverage, replay_parallel, run_tlc, tla_set, tree_hash, write_cfg, known_findings)

RING_DEVIATIONS = ['WakeParkedOnlyAfterEnter', 'LeakFdOfAbandonedOp', 'LoseBufOfAbandonedOp', 'CloseQueuedAfterRingDrop']

RING_INVARIANTS = ['TypeOK', 'MemSafe', 'RoutedOK', 'DeliveredOK', 'DeliveredFinal', 'MultiPrefix',
                   'NeverSurfaces', 'NoLostWake', 'NoParkedBlock', 'FreedIsFinal', 'CancelOnlyDropped',
                   'NoLeakAtQuiescence', 'NoResLeak', 'BufPartition', 'AllBuffersBack', 'CloseOnce', 'RingGoneClean']

# name -> constants of MC_Ring and the matching replay parameters.
RING_CONFIGS = {
    'sm': dict(ops='{1, 2}', kind='K_sm', sqn=2, cqn=2, wakers='{1, 2}', maxpost=1, maxrestart=1, maxblocked=2,
               kinds='1=single,2=multi'),
    'st': dict(ops='{1, 2}', kind='K_st', sqn=2, cqn=2, wakers='{1, 2}', maxpost=1, maxrestart=1, maxblocked=2,
               kinds='1=single,2=twostep'),
    'm3': dict(ops='{2}', kind='K_sm', sqn=1, cqn=4, wakers='{1, 2}', maxpost=3, maxrestart=1, maxblocked=1,
               kinds='2=multi'),
    'q1': dict(ops='{1, 2}', kind='K_sm', sqn=1, cqn=2, wakers='{1}', maxpost=1, maxrestart=0, maxblocked=2,
               kinds='1=single,2=multi'),
    # descriptors: a single-shot accept and a multishot accept whose results are AsyncFds
    'fd': dict(ops='{1, 2}', kind='K_fd', sqn=2, cqn=2, wakers='{1}', maxpost=1, maxrestart=0, maxblocked=1,
               kinds='1=fdsingle,2=multi', trackres='TRUE', extra=['--track-res', '1'],
               variants=[('file', 0, 0, None, ['--direct', '0']), ('direct', 0, 0, None, ['--direct', '1'])]),
    # read buffer pool with two buffers: a single-shot and a multishot pool read
    'pool': dict(ops='{1, 2}', kind='K_pool', sqn=2, cqn=2, wakers='{1}', maxpost=1, maxrestart=0, maxblocked=1,
                 kinds='1=poolsingle,2=poolmulti', bufs='{0, 1}', extra=['--nbufs', '2'],
                 variants=[('base', 0, 0, None, [])]),
    # teardown: the Ring may be dropped at any point, handles before or after it
    'td': dict(ops='{1, 2}', kind='K_fd', sqn=2, cqn=2, wakers='{1}', maxpost=1, maxrestart=0, maxblocked=1,
               kinds='1=fdsingle,2=multi', trackres='TRUE', teardown='TRUE', extra=['--track-res', '1'],
               variants=[('file', 0, 0, None, ['--direct', '0'])]),
    'tdp': dict(ops='{1, 2}', kind='K_pool', sqn=2, cqn=2, wakers='{1}', maxpost=1, maxrestart=0, maxblocked=1,
                kinds='1=poolsingle,2=poolmulti', bufs='{0, 1}', teardown='TRUE', extra=['--nbufs', '2'],
                variants=[('base', 0, 0, None, [])]),
    'tds': dict(ops='{1, 2}', kind='K_st', sqn=2, cqn=2, wakers='{1}', maxpost=1, maxrestart=1, maxblocked=1,
                kinds='1=single,2=twostep', teardown='TRUE', variants=[('base', 0, 0, None, [])]),
    'smt': dict(ops='{1, 2, 3}', kind='K_smt', sqn=2, cqn=4, wakers='{1}', maxpost=1, maxrestart=0, maxblocked=1,
                kinds='1=single,2=multi,3=twostep'),
}


def ring_cfg_text(c, dev, mode):
    consts = """SPECIFICATION Spec
CONSTANTS
    Ops = %(ops)s
    Kind <- %(kind)s
    SQN = %(sqn)d
    CQN = %(cqn)d
    Wakers = %(wakers)s
    MaxPost = %(maxpost)d
    MaxRestart = %(maxrestart)d
    MaxBlocked = %(maxblocked)d
    Bufs = %(bufs)s
    TrackRes = %(trackres)s
    WithTeardown = %(teardown)s
""" % dict(dict(bufs='{}', trackres='FALSE', teardown='FALSE'), **c)
    consts += '    Dev = %s\nCONSTRAINT Bounded\nCHECK_DEADLOCK FALSE\n' % tla_set(dev)
    if mode == 'check':
        consts += 'VIEW view\nINVARIANTS\n' + ''.join('    %s\n' % i for i in RING_INVARIANTS)
    else:
        consts += 'VIEW viewNH\nACTION_CONSTRAINT LogEdge\n'
    return consts


def engine_ring(tier, seed):
    key = 'ring-%s-%s-%d' % (tier, tree_hash(), seed)
    cached = cache_get(key)
    if cached:
        cached['cached'] = True
        return cached
    t0 = time.time()
    res = {'engine': 'ring', 'tier': tier, 'tlc': [], 'replays': [], 'divergences': [], 'errors': [], 'samples': [],
           'cached': False}
    bindir = build_harness()
    binary = os.path.join(bindir, 'replay_ring')
    dev = deviations_for(RING_DEVIATIONS)
    configs = ['sm', 'st', 'm3', 'q1', 'fd', 'pool', 'td', 'tdp', 'tds'] if tier == 'quick' else ['sm', 'st', 'm3', 'q1', 'fd', 'pool', 'td', 'tdp', 'tds', 'smt']
    for name in configs:
        c = RING_CONFIGS[name]
        # 1. The contract (no deviation enabled) satisfies every invariant.
        cfg = write_cfg('ring_%s_check' % name, ring_cfg_text(c, [], 'check'))
        r = run_tlc('ring_%s_check' % name, 'MC_Ring', cfg, timeout=3000 if tier == 'thorough' else 900, coverage=True)
        r['purpose'] = 'contract: invariants with Dev = {}'
        r['coverage'] = {k: v for k, v in parse_coverage(r['log']).items()}
        res['tlc'].append(r)
        if not r['ok']:
            res['errors'].append('TLC %s: %s' % (r['name'], r['violated'] or r['error'] or 'failed'))
            continue
        # 2. Export the transition graph of the specification as implemented
        #    (known deviations enabled) and replay a covering set of paths.
        cfg = write_cfg('ring_%s_edges' % name, ring_cfg_text(c, dev, 'edges'))
        r = run_tlc('ring_%s_edges' % name, 'MC_Ring', cfg, timeout=3000)
        r['purpose'] = 'graph export with Dev = %s' % dev
        res['tlc'].append(r)
        if not r['ok']:
            res['errors'].append('TLC %s: %s' % (r['name'], r['violated'] or r['error'] or 'failed'))
            continue
        rdir = os.path.join(BUILD, 'replay', 'ring_' + name)
        p = subprocess.run(['python3', os.path.join(VERIF, 'tools', 'edges2paths.py'), r['log'], rdir, '60', str(seed)],
                           stdout=subprocess.PIPE, stderr=subprocess.STDOUT, text=True)
        if p.returncode != 0:
            res['errors'].append('edges2paths %s: %s' % (name, p.stdout[-500:]))
            continue
        meta = json.loads(p.stdout.strip().splitlines()[-1])
        if 'variants' in c:
            variants = list(c['variants'])
        else:
            variants = [('base', 0, 0, None, [])]
            variants += [('sqwrap', 0xFFFFFFFE, 0, 'C04', []), ('cqwrap', 0, 0xFFFFFFFF, 'C05', [])]
            if tier == 'thorough':
                variants += [('sqhalf', 0x7FFFFFFF, 0x7FFFFFFE, None, [])]
        base_bad = set()
        acts = json.load(open(os.path.join(rdir, 'acts.json')))
        paths = None
        for vi, (vname, sqi, cqi, override, vextra) in enumerate(variants):
            npaths = meta['paths']
            if vi != 0 and 'variants' not in c and tier == 'quick':
                npaths = min(npaths, 4000)   # the wrap variants replay a prefix of the path set in quick mode
            args = ['--dir', rdir, '--kinds', c['kinds'], '--sqn', str(c['sqn']), '--cqn', str(c['cqn']),
                    '--sq-init', str(sqi), '--cq-init', str(cqi)] + c.get('extra', []) + vextra
            recs, sums, crashes = replay_parallel(binary, args, npaths, os.path.join(rdir, 'out_' + vname))
            steps = sum(s['steps'] for s in sums)
            conf = {'kinds': c['kinds'], 'sqn': c['sqn'], 'cqn': c['cqn'], 'sq_init': sqi, 'cq_init': cqi,
                    'track_res': 1 if c.get('trackres') == 'TRUE' else 0,
                    'direct': 1 if vextra == ['--direct', '1'] else 0,
                    'nbufs': int(c['extra'][1]) if c.get('extra', [''])[0] == '--nbufs' else 0}
            first = {}
            for rec in recs:
                first.setdefault(rec['path'], rec)          # earliest record of a path
            if crashes:
                if paths is None:
                    paths = [json.loads(l) for l in open(os.path.join(rdir, 'paths.jsonl'))]
                for cr in crashes:
                    if cr['path'] < 0 or cr['path'] >= len(paths):
                        res['errors'].append('replay %s/%s crashed outside a path: %s' % (name, vname, cr))
                        continue
                    pa = [acts[a] for a in paths[cr['path']]]
                    step = min(cr['step'], len(pa))
                    aname = pa[step]['name'] if step < len(pa) else 'teardown'
                    tag = {'Poll': 'C02', 'Drop': 'C06', 'DropRes': 'C07', 'RingPoll': 'C05', 'DropRing': 'C12', 'teardown': 'C12'}.get(aname, 'C02')
                    first.setdefault(cr['path'], {'path': cr['path'], 'step': step, 'tag': tag,
                                                  'field': 'process crashed (rc %s) during %s' % (cr['rc'], aname),
                                                  'expected': None, 'observed': cr['stderr'][-300:],
                                                  'path_acts': pa, 'examined': step, 'path_len': len(pa)})
            for pidx, rec in first.items():
                if 'path_acts' not in rec:
                    if paths is None:
                        paths = [json.loads(l) for l in open(os.path.join(rdir, 'paths.jsonl'))]
                    rec['path_acts'] = [acts[a] for a in paths[pidx]]
                    rec['path_len'] = len(rec['path_acts'])
            ndiv = 0
            for pidx, rec in sorted(first.items()):
                if vi == 0:
                    base_bad.add(pidx)
                elif pidx in base_bad and 'variants' not in c:
                    continue                                   # consequence of a divergence already reported
                rec = dict(rec, config=conf, variant=vname, model='Ring/' + name)
                if override:
                    rec['tag_by_field'] = rec['tag']
                    rec['tag'] = override
                res['divergences'].append(rec)
                ndiv += 1
            res['replays'].append({'model': 'Ring/' + name, 'variant': vname, 'paths': npaths, 'steps': steps,
                                   'spec_states': meta['states'], 'spec_transitions': meta['edges'],
                                   'transitions_covered_by_paths': meta['edges'] - meta['uncovered'] if npaths == meta['paths'] else None,
                                   'distinct_actions': meta['distinct_acts'], 'diverged_paths': ndiv,
                                   'crashes': len(crashes), 'sq_init': sqi, 'cq_init': cqi})
        if len(res['samples']) < 4:
            if paths is None:
                paths = [json.loads(l) for l in open(os.path.join(rdir, 'paths.jsonl'))]
            pa = [acts[a] for a in paths[min(len(paths) - 1, 7 + seed % 50)]]
            res['samples'].append({'model': 'Ring/' + name,
                                   'behaviour': ['%s(o=%s,w=%s,%s)->%s' % (a['name'], a['o'], a['w'], a['k'], a['ret']) for a in pa]})
    res['wall_s'] = round(time.time() - t0, 1)
    # Do not cache tool errors.
    if not res['errors']:
        slim = dict(res)
        slim['divergences'] = res['divergences'][:200]
        slim['divergences_total'] = len(res['divergences'])
        cache_put(key, slim)
    res['divergences_total'] = len(res['divergences'])
    return res


# --------------------------------------------------------------------------- case-list engines

def extract_cases(log, out_path, marker='CASE'):
    """Lines `<<"CASE", "<json>">>` printed by TLC -> one JSON document per line."""
    from edges2paths import parse_tla_string
    n = 0
    seen = set()
    with open(out_path, 'w') as out:
        for line in open(log, errors='replace'):
            if line.startswith('<<"%s"' % marker):
                _, i = parse_tla_string(line, line.index('"'))
                i = line.index('"', i)
                body, _ = parse_tla_string(line, i)
                if body in seen:
                    continue
                seen.add(body)
                out.write(body + '\n')
                n += 1
    return n


def engine_cases(engine, module, cfg_text, binary_name, tier, seed, extra_args=(), model=None, timeout=1800,
                 cfg_name=None):
    """TLC checks `module` with `cfg_text` (its invariants are the contract) and
    prints one CASE line per enumerated case; the harness binary replays every
    case against the implementation."""
    key = '%s-%s-%s-%d' % (engine, tier, tree_hash(), seed)
    cached = cache_get(key)
    if cached:
        cached['cached'] = True
        return cached
    t0 = time.time()
    res = {'engine': engine, 'tier': tier, 'tlc': [], 'replays': [], 'divergences': [], 'errors': [], 'samples': [],
           'cached': False}
    bindir = build_harness()
    binary = os.path.join(bindir, binary_name)
    name = cfg_name or engine
    cfg = write_cfg(name, cfg_text)
    r = run_tlc(name, module, cfg, timeout=timeout)
    r['purpose'] = 'contract invariants + enumeration of the cases replayed against the implementation'
    res['tlc'].append(r)
    if not r['ok']:
        res['errors'].append('TLC %s: %s' % (r['name'], r['violated'] or r['error'] or 'failed'))
        return res
    rdir = os.path.join(BUILD, 'replay', name)
    os.makedirs(rdir, exist_ok=True)
    cases = os.path.join(rdir, 'cases.jsonl')
    n = extract_cases(r['log'], cases)
    if n == 0:
        res['errors'].append('%s: TLC enumerated no cases' % name)
        return res
    recs, sums, crashes = replay_parallel(binary, ['--cases', cases] + list(extra_args), n, os.path.join(rdir, 'out'))
    first = {}
    for rec in recs:
        first.setdefault(rec['path'], rec)
    all_cases = None
    for cr in crashes:
        if all_cases is None:
            all_cases = [json.loads(l) for l in open(cases)]
        if 0 <= cr['path'] < len(all_cases):
            first.setdefault(cr['path'], {'path': cr['path'], 'step': 0, 'tag': None,
                                          'field': 'process crashed / hung (rc %s)' % cr['rc'], 'expected': None,
                                          'observed': cr['stderr'][-300:], 'case': all_cases[cr['path']]})
        else:
            res['errors'].append('replay %s crashed outside a case: %s' % (name, cr))
    for pidx, rec in sorted(first.items()):
        rec = dict(rec, model=model or module)
        res['divergences'].append(rec)
    res['replays'].append({'model': model or module, 'variant': 'base', 'paths': n, 'steps': sum(s['steps'] for s in sums),
                           'spec_states': r['distinct'], 'spec_transitions': r['generated'],
                           'transitions_covered_by_paths': r['generated'] if not crashes else None,
                           'diverged_paths': len(first), 'crashes': len(crashes)})
    lines = open(cases).read().splitlines()
    for i in (0, len(lines) // 2, len(lines) - 1):
        res['samples'].append({'model': model or module, 'case': json.loads(lines[i])})
    res['wall_s'] = round(time.time() - t0, 1)
    res['divergences_total'] = len(res['divergences'])
    if not res['errors']:
        slim = dict(res)
        slim['divergences'] = res['divergences'][:200]
        cache_put(key, slim)
    return res


BUILD_CFG = """SPECIFICATION Spec
INVARIANTS
    AllOrNothing
    ReleasedOnce
    OutcomeByKernel
    GrantedSizes
    ExportCase
CHECK_DEADLOCK FALSE
"""


def engine_build(tier, seed):
    res = engine_cases('build', 'MC_Build', BUILD_CFG, 'replay_build', tier, seed, model='Build')
    for d in res['divergences']:
        d['tag'] = 'C18'
    return res


COMPOSITE_CFG = """SPECIFICATION Spec
CONSTANTS
    MaxBufs = 3
    MaxLen = %d
    Offsets <- OffsetsDef
    FlagVals = {0, 16384}
INVARIANTS
    SuccessMeansAll
    Tiled
    ZeroMeansZero
    ExportCase
CHECK_DEADLOCK FALSE
"""


def engine_composite(tier, seed):
    res = engine_cases('composite', 'MC_Composite', COMPOSITE_CFG % (2 if tier == 'quick' else 3), 'replay_composite',
                       tier, seed, model='Composite')
    for d in res['divergences']:
        d['tag'] = 'C10'
    return res


READBUF_CFG = """SPECIFICATION Spec
CONSTANTS
    C = %d
    Bytes = {1, 2}
    Depth = %d
INVARIANTS
    WithinCapacity
    RejectedUnchanged
    UnownedEmpty
    ExportCase
CHECK_DEADLOCK FALSE
"""


def merge_results(engine, parts):
    res = {'engine': engine, 'tlc': [], 'replays': [], 'divergences': [], 'errors': [], 'samples': [],
           'cached': all(p.get('cached') for p in parts), 'divergences_total': 0}
    for p in parts:
        for k in ('tlc', 'replays', 'divergences', 'errors', 'samples'):
            res[k] += p[k]
        res['divergences_total'] += p.get('divergences_total', len(p['divergences']))
    return res


def engine_readbuf(tier, seed):
    parts = [engine_cases('readbuf_c3', 'MC_ReadBufEdit', READBUF_CFG % (3, 2), 'replay_readbuf', tier, seed,
                          model='ReadBufEdit', cfg_name='readbuf_c3d2')]
    if tier == 'thorough':
        parts.append(engine_cases('readbuf_c4', 'MC_ReadBufEdit', READBUF_CFG % (4, 2), 'replay_readbuf', tier, seed,
                                  model='ReadBufEdit', cfg_name='readbuf_c4d2', timeout=3000))
        # (capacity 2, depth 3 enumerates 7.2 million cases, 3 GB of text: not worth its cost.)
    res = merge_results('readbuf', parts)
    for d in res['divergences']:
        d['tag'] = d.get('tag') or 'C15'
    return res


BUFLAWS_CFG = """SPECIFICATION Spec
CONSTANTS
    MaxCap = %d
    MaxArity = 3
    LimitLos = {0, 1, 2, 3, 7}
    LimitHis = {0, 1}
INVARIANTS
    PairsInside
    TotalsAgree
    InitExact
    LimitRespected
    ExportCase
CHECK_DEADLOCK FALSE
"""


def engine_buflaws(tier, seed):
    res = engine_cases('buflaws', 'MC_BufLaws', BUFLAWS_CFG % (2 if tier == 'quick' else 3), 'replay_buflaws', tier, seed,
                       model='BufLaws')
    for d in res['divergences']:
        d['tag'] = 'C14'
    return res


SOCKADDR_DEVIATIONS = ['UnixFullLength']
SOCKADDR_CFG = """SPECIFICATION Spec
CONSTANTS
    P = 108
    PathLens <- LensDef
    Octets <- IpsDef
    Ports <- PortsDef
    Words <- WordsDef
    Dev = %s
INVARIANTS
    ExactStructure
    FitsStorage
    ExportCase
CHECK_DEADLOCK FALSE
"""


def engine_sockaddr(tier, seed):
    dev = deviations_for(SOCKADDR_DEVIATIONS)
    res = engine_cases('sockaddr', 'MC_SockAddr', SOCKADDR_CFG % tla_set(dev), 'replay_sockaddr', tier, seed, model='SockAddr')
    for d in res['divergences']:
        d['tag'] = 'C16'
    return res


INOTIFY_DEVIATIONS = ['ReuseBufferWhileEventHeld']
INOTIFY_CFG = """SPECIFICATION Spec
CONSTANTS
    MaxRecs = %(maxrecs)d
    Wds <- %(wds)s
    KnownWds <- %(known)s
    RecKinds = %(kinds)s
    NameLens = %(names)s
    Dev = %(dev)s
INVARIANTS
    DecodedExactly
    WatchTable
    %(held)s
    ExportCase
CHECK_DEADLOCK FALSE
"""


def engine_inotify(tier, seed):
    dev = deviations_for(INOTIFY_DEVIATIONS)
    parts = []
    confs = [('inotify_2', dict(maxrecs=2, wds='WdsDef', known='KnownDef', kinds='{"plain", "isdir", "ignored", "overflow"}',
                                names='{0, 1, 2, 15, 16, 17}')),
             ('inotify_3', dict(maxrecs=3, wds='WdsSmall', known='KnownSmall', kinds='{"plain", "ignored", "overflow"}',
                                names='{0, 16}'))]
    # Names up to NAME_MAX: the largest record the kernel can produce must fit the read buffer.
    if tier == 'thorough':
        confs.append(('inotify_255', dict(maxrecs=2, wds='WdsSmall', known='KnownSmall', kinds='{"plain", "ignored"}',
                                          names='{0, 1, 31, 32, 33, 239, 240, 255}')))
    else:
        confs.append(('inotify_255', dict(maxrecs=2, wds='WdsSmall', known='KnownSmall', kinds='{"plain"}',
                                          names='{0, 239, 240, 255}')))
    for name, c in confs:
        # 1. contract (no deviation): HeldValid holds.
        cfg = write_cfg(name + '_contract', INOTIFY_CFG % dict(c, dev='{}', held='HeldValid'))
        r = run_tlc(name + '_contract', 'MC_Inotify', cfg, timeout=1800)
        r['purpose'] = 'contract: invariants with Dev = {}'
        if not r['ok']:
            return {'engine': 'inotify', 'tlc': [r], 'replays': [], 'divergences': [], 'samples': [],
                    'errors': ['TLC %s: %s' % (name, r['violated'] or r['error'])], 'cached': False}
        # 2. as implemented: enumerate and replay.
        p = engine_cases(name, 'MC_Inotify', INOTIFY_CFG % dict(c, dev=tla_set(dev), held='DecodedExactly'),
                         'replay_inotify', tier, seed, model='Inotify', cfg_name=name)
        p['tlc'].insert(0, r)
        parts.append(p)
    res = merge_results('inotify', parts)
    for d in res['divergences']:
        d['tag'] = 'C17'
    return res


# --------------------------------------------------------------------------- thread-level engines

SUBMITMT_CFG = """SPECIFICATION Spec
CONSTANTS
    Threads = %(threads)s
    Adds = %(adds)d
    N = %(n)d
    W = %(w)d
    Start = %(start)d
    Dev = %(dev)s
INVARIANTS
    NoOverrun
    NoTornOrForeign
    ExactlyOnceSoFar
    AllDelivered
    GhostAgrees
    GhostNoOverrun
    GhostWriterSafe
CHECK_DEADLOCK FALSE
"""

TRACE_SUBMITMT_CFG = """SPECIFICATION TraceSpec
CONSTANTS
    Threads = %(threads)s
    Adds = %(adds)d
    N = %(n)d
    W = 1048576
    Start = 0
    Dev = {}
INVARIANTS
    TraceInvariants
    NotAtEnd
CHECK_DEADLOCK FALSE
"""


def run_trace_validation(name, module, cfg_text, trace_path, timeout=900):
    """TLC trace validation: accepted iff the invariant NotAtEnd is 'violated'
    (the end of the recorded trace is reachable in the specification)."""
    cfg = write_cfg(name, cfg_text)
    env_backup = dict(os.environ)
    os.environ['TRACE'] = trace_path
    os.environ['JAVA_TOOL_OPTIONS'] = '-Xss1g -Dtlc2.tool.queue.IStateQueue=StateDeque'
    try:
        r = run_tlc(name, module, cfg, workers=1, timeout=timeout)
    finally:
        os.environ.clear()
        os.environ.update(env_backup)
    accepted = r['violated'] == 'NotAtEnd'
    r['accepted'] = accepted
    r['purpose'] = 'trace validation of recorded executions (accepted = end of trace reachable)'
    if accepted:
        r['ok'] = True
        r['violated'] = None
    return r


def sched_run(binary, args, outdir, tag, model, timeout=1800):
    os.makedirs(outdir, exist_ok=True)
    out = os.path.join(outdir, 'out.jsonl')
    cur = os.path.join(outdir, 'current_schedule')
    for f in (out, cur):
        if os.path.exists(f):
            os.unlink(f)
    p = subprocess.run(['timeout', str(timeout), binary] + args + ['--out', out], stdin=subprocess.DEVNULL,
                       stdout=subprocess.DEVNULL, stderr=subprocess.PIPE, env=dict(os.environ, SCHED_CURRENT=cur))
    recs, summary = [], None
    if os.path.exists(out):
        for line in open(out):
            try:
                j = json.loads(line)
            except ValueError:
                continue
            if j.get('summary'):
                summary = j
            else:
                j['tag'] = tag
                j['model'] = model
                recs.append(j)
    err = (p.stderr or b'').decode(errors='replace')[-400:]
    rc = p.returncode
    if summary is None and (rc < 0 or rc >= 128) and rc != 137:
        # The code under test took the process down (abort / fatal signal): that is a
        # result, not a tool failure.  The schedule being executed identifies it.
        sched = open(cur).read().strip() if os.path.exists(cur) else '?'
        recs.append({'tag': tag, 'model': model, 'path': 0, 'step': 0,
                     'field': 'the code under test crashed the process (exit status %d) under schedule %s of run %s: %s'
                              % (rc, sched, ' '.join(args), err[-200:].replace('\n', ' ')),
                     'expected': 'runs to completion', 'observed': 'crash', 'schedule': sched, 'args': args})
        summary = {'paths': 1, 'steps': 0, 'diverged_paths': 1, 'complete': False, 'crashed': True}
    return rc, recs, summary, err


def engine_submitmt(tier, seed):
    key = 'submitmt-%s-%s-%d' % (tier, tree_hash(), seed)
    cached = cache_get(key)
    if cached:
        cached['cached'] = True
        return cached
    t0 = time.time()
    res = {'engine': 'submitmt', 'tier': tier, 'tlc': [], 'replays': [], 'divergences': [], 'errors': [], 'samples': [],
           'cached': False}
    bindir = build_harness()
    binary = os.path.join(bindir, 'sched_submit')
    # 1. TLC: the contract at atomic-access granularity, every wrap position.
    models = [dict(threads='{1, 2}', adds=2, n=1, w=4, start=0), dict(threads='{1, 2}', adds=2, n=1, w=4, start=3),
              dict(threads='{1, 2}', adds=2, n=2, w=8, start=7), dict(threads='{1, 2, 3}', adds=1, n=2, w=8, start=6)]
    if tier == 'thorough':
        models += [dict(threads='{1, 2, 3}', adds=2, n=2, w=8, start=5), dict(threads='{1, 2}', adds=3, n=4, w=16, start=14)]
    for i, m in enumerate(models):
        cfg = write_cfg('submitmt_%d' % i, SUBMITMT_CFG % dict(m, dev='{}'))
        r = run_tlc('submitmt_%d' % i, 'MC_SubmitMT', cfg, timeout=1800)
        r['purpose'] = 'contract: %s' % m
        res['tlc'].append(r)
        if not r['ok']:
            res['errors'].append('TLC %s: %s' % (r['name'], r['violated'] or r['error']))
    # The pre-fix deviation must be refuted by the model (sanity of the invariants).
    cfg = write_cfg('submitmt_dev', SUBMITMT_CFG % dict(models[0], dev='{"LockedCheckOffByOne"}'))
    r = run_tlc('submitmt_dev', 'MC_SubmitMT', cfg, timeout=600)
    r['purpose'] = 'sanity: deviation LockedCheckOffByOne must violate an invariant'
    if not r['violated']:
        res['errors'].append('SubmitMT: the off-by-one deviation no longer violates any invariant (vacuous model?)')
    r['ok'] = True
    res['tlc'].append(r)
    cfg = write_cfg('submitmt_dev2', SUBMITMT_CFG % dict(models[2], dev='{"StaleTailRecheck"}'))
    r = run_tlc('submitmt_dev2', 'MC_SubmitMT', cfg, timeout=600)
    r['purpose'] = 'sanity: deviation StaleTailRecheck (locked check against the tail loaded before the lock) must violate an invariant'
    if not r['violated']:
        res['errors'].append('SubmitMT: the stale-tail deviation no longer violates any invariant (vacuous model?)')
    r['ok'] = True
    res['tlc'].append(r)
    # 2. The real code under every schedule with <= 2 preemptions.
    runs = [dict(threads=2, adds=2, sqn=1, sq_init=0, mode='sqpoll', pre=2, trace=True),
            dict(threads=2, adds=2, sqn=1, sq_init=0xFFFFFFFF, mode='sqpoll', pre=2),
            dict(threads=2, adds=2, sqn=2, sq_init=0xFFFFFFFE, mode='sqpoll', pre=1),
            dict(threads=2, adds=2, sqn=1, sq_init=0, mode='enter', pre=1),
            dict(threads=2, adds=1, sqn=2, sq_init=0xFFFFFFFF, mode='enter', pre=2, single=1),
            dict(threads=3, adds=2, sqn=2, sq_init=0x7FFFFFFF, mode='sqpoll', pre=0, random=2000)]
    if tier == 'thorough':
        runs += [dict(threads=2, adds=3, sqn=2, sq_init=0xFFFFFFFD, mode='sqpoll', pre=2),
                 dict(threads=3, adds=2, sqn=2, sq_init=0, mode='sqpoll', pre=1, random=5000, maxexec=150000),
                 dict(threads=2, adds=2, sqn=2, sq_init=0xFFFFFFFF, mode='enter', pre=2),
                 dict(threads=2, adds=2, sqn=1, sq_init=0, mode='enter', pre=2)]
    for i, rn in enumerate(runs):
        outdir = os.path.join(BUILD, 'replay', 'submitmt_%d' % i)
        args = ['--threads', str(rn['threads']), '--adds', str(rn['adds']), '--sqn', str(rn['sqn']),
                '--sq-init', str(rn['sq_init']), '--mode', rn['mode'], '--single', str(rn.get('single', 0)), '--preemptions', str(rn['pre']),
                '--max-exec', str(rn.get('maxexec', 60000 if tier == 'quick' else 1000000)), '--random', str(rn.get('random', 0)),
                '--seed', str(seed + 1)]
        trace_path = os.path.join(outdir, 'traces.jsonl')
        if rn.get('trace'):
            args += ['--trace-out', trace_path]
        rc, recs, summary, err = sched_run(binary, args, outdir, 'C04', 'SubmitMT')
        if summary is None:
            res['errors'].append('sched_submit run %d died (rc %s): %s' % (i, rc, err))
            continue
        res['divergences'] += recs
        res['replays'].append({'model': 'SubmitMT/real code under the baton scheduler', 'variant': json.dumps(rn), 'paths': summary['paths'],
                               'steps': summary['steps'], 'diverged_paths': summary['diverged_paths'],
                               'schedule_space_exhausted': summary.get('complete'), 'crashes': 0})
        # 3. Recorded executions are behaviours of the specification (TLC trace validation).
        if rn.get('trace') and os.path.exists(trace_path):
            nd = os.path.join(outdir, 'trace.ndjson')
            nev = ntr = 0
            with open(nd, 'w') as f:
                for line in open(trace_path):
                    for ev in json.loads(line):
                        f.write(json.dumps(ev) + '\n')
                        nev += 1
                    f.write(json.dumps({'ev': 'Reset', 'th': 0, 'head': 0, 'tail': 0, 'locked': 0, 'index': 0, 'len': 0}) + '\n')
                    ntr += 1
            if ntr and not recs:
                tv = run_trace_validation('trace_submitmt', 'Trace_SubmitMT',
                                          TRACE_SUBMITMT_CFG % dict(threads='{1, 2}', adds=rn['adds'], n=rn['sqn']), nd)
                tv['traces'] = ntr
                tv['events'] = nev
                res['tlc'].append(tv)
                if not tv['accepted']:
                    if tv['error']:
                        res['errors'].append('trace validation failed to run: %s' % tv['error'])
                    else:
                        res['divergences'].append({'tag': 'C04', 'model': 'SubmitMT', 'path': 0, 'step': 0,
                                                   'field': 'recorded executions are not behaviours of SubmitMT (TLC trace validation rejected %s)' % nd,
                                                   'expected': 'accepted', 'observed': 'rejected', 'trace_file': nd})
                res['samples'].append({'model': 'SubmitMT', 'recorded_execution': json.loads(open(trace_path).readline())})
    res['wall_s'] = round(time.time() - t0, 1)
    res['divergences_total'] = len(res['divergences'])
    if not res['errors']:
        cache_put(key, res)
    return res


CQSTEPS_CFG = """SPECIFICATION Spec
CONSTANTS
    N = %(n)d
    W = %(w)d
    Start = %(start)d
    Script <- %(script)s
    MaxPolls = %(polls)d
    Dev = %(dev)s
INVARIANTS
    InOrderOnce
    NeverReadsUnpublished
    ReservedIgnored
    AllProcessed
    PollMakesProgress
    GhostAgrees
    GhostNoOverrun
CHECK_DEADLOCK FALSE
"""


def engine_cq(tier, seed):
    """C05: Completions::poll at the granularity of its shared-memory accesses
    (CqSteps.tla, every wrap position of a small counter), and the real
    Ring::poll against a concurrently publishing, slot-reusing kernel under
    every schedule with a bounded number of preemptions."""
    key = 'cq-%s-%s-%d' % (tier, tree_hash(), seed)
    cached = cache_get(key)
    if cached:
        cached['cached'] = True
        return cached
    t0 = time.time()
    res = {'engine': 'cq', 'tier': tier, 'tlc': [], 'replays': [], 'divergences': [], 'errors': [], 'samples': [],
           'cached': False}
    bindir = build_harness()
    binary = os.path.join(bindir, 'sched_cq')
    models = [dict(n=2, w=8, start=0, script='Script6', polls=4), dict(n=2, w=8, start=7, script='Script6', polls=4),
              dict(n=4, w=8, start=6, script='Script6', polls=3), dict(n=1, w=4, start=3, script='Script4', polls=5)]
    if tier == 'thorough':
        models += [dict(n=2, w=8, start=s, script='Script6', polls=6) for s in (1, 2, 3, 4, 5, 6)]
        models += [dict(n=4, w=16, start=13, script='Script6', polls=5)]
    for i, m in enumerate(models):
        cfg = write_cfg('cqsteps_%d' % i, CQSTEPS_CFG % dict(m, dev='{}'))
        r = run_tlc('cqsteps_%d' % i, 'MC_CqSteps', cfg, timeout=1800)
        r['purpose'] = 'contract: %s' % m
        res['tlc'].append(r)
        if not r['ok']:
            res['errors'].append('TLC %s: %s' % (r['name'], r['violated'] or r['error']))
    for dev in ('StoreHeadEarly', 'NonModular'):
        cfg = write_cfg('cqsteps_dev_%s' % dev, CQSTEPS_CFG % dict(models[1], dev='{"%s"}' % dev))
        r = run_tlc('cqsteps_dev_%s' % dev, 'MC_CqSteps', cfg, timeout=600)
        r['purpose'] = 'sanity: deviation %s must violate an invariant' % dev
        if not r['violated']:
            res['errors'].append('CqSteps: deviation %s no longer violates any invariant (vacuous model?)' % dev)
        r['ok'] = True
        res['tlc'].append(r)
    runs = [dict(cqn=2, cq_init=0, pre=2), dict(cqn=2, cq_init=0xFFFFFFFF, pre=2), dict(cqn=4, cq_init=0xFFFFFFFD, pre=2),
            dict(cqn=4, cq_init=0, pre=2), dict(cqn=8, cq_init=0xFFFFFFFA, pre=2)]
    if tier == 'thorough':
        runs += [dict(cqn=2, cq_init=0xFFFFFFFE, pre=3), dict(cqn=4, cq_init=0xFFFFFFFE, pre=3),
                 dict(cqn=8, cq_init=0xFFFFFFFC, pre=3), dict(cqn=2, cq_init=0x7FFFFFFF, pre=3)]
    for i, rn in enumerate(runs):
        outdir = os.path.join(BUILD, 'replay', 'cq_%d' % i)
        args = ['--cqn', str(rn['cqn']), '--cq-init', str(rn['cq_init']), '--preemptions', str(rn['pre']),
                '--max-exec', str(100000 if tier == 'quick' else 2000000)]
        rc, recs, summary, err = sched_run(binary, args, outdir, 'C05', 'CqSteps')
        if summary is None:
            res['errors'].append('sched_cq run %d died (rc %s): %s' % (i, rc, err))
            continue
        res['divergences'] += recs
        res['replays'].append({'model': 'CqSteps/real Ring::poll under the baton scheduler', 'variant': json.dumps(rn),
                               'paths': summary['paths'], 'steps': summary['steps'], 'diverged_paths': summary['diverged_paths'],
                               'schedule_space_exhausted': summary.get('complete'), 'crashes': 0})
    res['wall_s'] = round(time.time() - t0, 1)
    res['divergences_total'] = len(res['divergences'])
    if not res['errors']:
        cache_put(key, res)
    return res


WAKEMT_CFG = """SPECIFICATION %(spec)s
CONSTANTS
    Wakers = %(wakers)s
    WakesPer = %(wakes)d
    MaxPolls = %(polls)d
    Mode = "%(mode)s"
    SQN = %(sqn)d
    Fill = %(fill)d
    Dev = %(dev)s
INVARIANTS
    TypeOK
    NoLostWake
    DroppedHarmless
    PollingBit
%(props)s
CHECK_DEADLOCK FALSE
"""

TRACE_WAKEMT_CFG = """SPECIFICATION TraceSpec
CONSTANTS
    Wakers = %(wakers)s
    WakesPer = %(wakes)d
    MaxPolls = %(polls)d
    Mode = "%(mode)s"
    SQN = %(sqn)d
    Fill = %(fill)d
    Dev = {}
INVARIANTS
    TraceInvariants
    NotAtEnd
CHECK_DEADLOCK FALSE
"""


def engine_wake(tier, seed):
    """C11: the PollingState handshake (WakeMT.tla: safety and, under fairness,
    liveness, for default / kernel-thread / single-issuer rings), the real
    Ring::poll(None) and SubmissionQueue::wake under every schedule with a
    bounded number of preemptions, and TLC validation of the recorded runs."""
    key = 'wake-%s-%s-%d' % (tier, tree_hash(), seed)
    cached = cache_get(key)
    if cached:
        cached['cached'] = True
        return cached
    t0 = time.time()
    res = {'engine': 'wake', 'tier': tier, 'tlc': [], 'replays': [], 'divergences': [], 'errors': [], 'samples': [],
           'cached': False}
    bindir = build_harness()
    binary = os.path.join(bindir, 'sched_wake')
    n = 0
    for mode in ('default', 'sqpoll', 'single'):
        for polls in (0, 2 if tier == 'quick' else 3):
            for fill in ((0, 2) if tier == 'quick' else (0, 1, 2)):
                m = dict(wakers='{1, 2}' if tier == 'quick' else '{1, 2, 3}', wakes=2, polls=polls, mode=mode, sqn=2, fill=fill,
                         spec='FairSpec' if polls == 0 else 'Spec', props='PROPERTIES\n    Served' if polls == 0 else '')
                cfg = write_cfg('wakemt_%d' % n, WAKEMT_CFG % dict(m, dev='{}'))
                r = run_tlc('wakemt_%d' % n, 'MC_WakeMT', cfg, timeout=3000)
                r['purpose'] = 'contract (%s): %s' % ('safety + liveness under weak fairness' if polls == 0 else 'safety, ring dropped after the polls',
                                                       {k: m[k] for k in ('wakers', 'wakes', 'polls', 'mode', 'sqn', 'fill')})
                res['tlc'].append(r)
                if not r['ok']:
                    res['errors'].append('TLC %s: %s' % (r['name'], r['violated'] or r['error']))
                n += 1
    for dev, mode in (('IgnoreAwoken', 'default'), ('SetOnlyIfPolling', 'default'), ('GiveUpWhenFull', 'sqpoll')):
        m = dict(wakers='{1, 2}', wakes=2, polls=2, mode=mode, sqn=2, fill=2, spec='Spec', props='')
        cfg = write_cfg('wakemt_dev_%s' % dev, WAKEMT_CFG % dict(m, dev='{"%s"}' % dev))
        r = run_tlc('wakemt_dev_%s' % dev, 'MC_WakeMT', cfg, timeout=600)
        r['purpose'] = 'sanity: deviation %s must violate NoLostWake' % dev
        if not r['violated']:
            res['errors'].append('WakeMT: deviation %s no longer violates any invariant (vacuous model?)' % dev)
        r['ok'] = True
        res['tlc'].append(r)
    runs = [dict(mode='default', wakers=1, wakes=1, polls=2, sqn=2, drop=0, pre=2),
            dict(mode='sqpoll', wakers=1, wakes=1, polls=2, sqn=2, drop=0, pre=2),
            dict(mode='single', wakers=1, wakes=1, polls=2, sqn=2, drop=0, pre=2),
            dict(mode='default', wakers=2, wakes=1, polls=3, sqn=1, drop=0, pre=2),
            dict(mode='sqpoll', wakers=2, wakes=1, polls=2, sqn=1, drop=0, pre=1),
            dict(mode='single', wakers=2, wakes=2, polls=2, sqn=1, drop=1, pre=2),
            dict(mode='default', wakers=1, wakes=2, polls=1, sqn=2, drop=1, pre=2),
            dict(mode='sqpoll', wakers=1, wakes=1, polls=2, sqn=2, drop=0, pre=2, fill=2),
            dict(mode='default', wakers=2, wakes=1, polls=2, sqn=1, drop=0, pre=2, fill=1),
            dict(mode='sqpoll', wakers=2, wakes=1, polls=2, sqn=1, drop=0, pre=1, fill=1)]
    if tier == 'thorough':
        runs += [dict(mode='default', wakers=1, wakes=2, polls=3, sqn=2, drop=0, pre=3),
                 dict(mode='sqpoll', wakers=2, wakes=1, polls=3, sqn=1, drop=0, pre=2),
                 dict(mode='single', wakers=1, wakes=2, polls=3, sqn=2, drop=0, pre=3),
                 dict(mode='default', wakers=2, wakes=2, polls=3, sqn=1, drop=1, pre=2),
                 dict(mode='sqpoll', wakers=2, wakes=2, polls=3, sqn=2, drop=0, pre=1, fill=2),
                 dict(mode='default', wakers=2, wakes=2, polls=4, sqn=2, drop=0, pre=0, random=20000)]
    for i, rn in enumerate(runs):
        outdir = os.path.join(BUILD, 'replay', 'wake_%d' % i)
        trace_path = os.path.join(outdir, 'traces.jsonl')
        args = ['--mode', rn['mode'], '--wakers', str(rn['wakers']), '--wakes', str(rn['wakes']), '--polls', str(rn['polls']),
                '--sqn', str(rn['sqn']), '--drop', str(rn['drop']), '--fill', str(rn.get('fill', 0)), '--preemptions', str(rn['pre']),
                '--max-exec', str(100000 if tier == 'quick' else 2000000), '--random', str(rn.get('random', 0)),
                '--seed', str(seed + 1), '--trace-out', trace_path]
        rc, recs, summary, err = sched_run(binary, args, outdir, 'C11', 'WakeMT')
        if summary is None:
            res['errors'].append('sched_wake run %d died (rc %s): %s' % (i, rc, err))
            continue
        res['divergences'] += recs
        res['replays'].append({'model': 'WakeMT/real Ring::poll(None) and SubmissionQueue::wake under the baton scheduler',
                               'variant': json.dumps(rn), 'paths': summary['paths'], 'steps': summary['steps'],
                               'diverged_paths': summary['diverged_paths'], 'schedule_space_exhausted': summary.get('complete'),
                               'runs_ending_with_the_poller_blocked_and_nothing_owed': summary.get('ended_with_poller_blocked'), 'crashes': 0})
        if os.path.exists(trace_path) and not recs:
            nd = os.path.join(outdir, 'trace.ndjson')
            nev = ntr = 0
            with open(nd, 'w') as f:
                for line in open(trace_path):
                    for ev in json.loads(line):
                        f.write(json.dumps(ev) + '\n')
                        nev += 1
                    f.write(json.dumps({'ev': 'Reset', 'th': 0, 'a': 0, 'b': 0}) + '\n')
                    ntr += 1
            if ntr:
                tv = run_trace_validation('trace_wakemt_%d' % i, 'Trace_WakeMT', TRACE_WAKEMT_CFG % dict(
                    wakers='{1}' if rn['wakers'] == 1 else '{1, 2}', wakes=rn['wakes'], polls=rn['polls'], mode=rn['mode'], sqn=rn['sqn'], fill=rn.get('fill', 0)), nd)
                tv['traces'] = ntr
                tv['events'] = nev
                res['tlc'].append(tv)
                if not tv['accepted']:
                    if tv['error']:
                        res['errors'].append('trace validation failed to run: %s' % tv['error'])
                    else:
                        res['divergences'].append({'tag': 'C11', 'model': 'WakeMT', 'path': 0, 'step': 0,
                                                   'field': 'recorded executions are not behaviours of WakeMT (TLC trace validation rejected %s)' % nd,
                                                   'expected': 'accepted', 'observed': 'rejected', 'trace_file': nd})
                if i == 0:
                    res['samples'].append({'model': 'WakeMT', 'recorded_execution': json.loads(open(trace_path).readline())})
    res['wall_s'] = round(time.time() - t0, 1)
    res['divergences_total'] = len(res['divergences'])
    if not res['errors']:
        cache_put(key, res)
    return res


ABI_CFG = """SPECIFICATION Spec
INVARIANTS
    WellFormed
    ExportCase
CHECK_DEADLOCK FALSE
"""


def engine_abi(tier, seed):
    """C13: the request-encoding table Abi.tla, one replayed case per operation x
    descriptor kind x argument tuple."""
    res = engine_cases('abi', 'MC_Abi', ABI_CFG, 'replay_abi', tier, seed, model='Abi')
    for d in res['divergences']:
        d['tag'] = 'C13'
    return res


OPLIFE_CFG = """SPECIFICATION TraceSpec
CONSTANTS
    Ids <- IdsDef
INVARIANTS
    TraceInvariants
    NotAtEnd
CHECK_DEADLOCK FALSE
"""

QUEUELIFE_CFG = """SPECIFICATION TraceSpec
CONSTANTS
    Rings <- RingsDef
INVARIANTS
    TraceInvariants
    NotAtEnd
CHECK_DEADLOCK FALSE
"""

OPLIFE_MODEL_CFG = """SPECIFICATION Spec
CONSTANTS
    Ids = {1, 2}
INVARIANTS
    TypeOK
    MemSafe
    DeadIsFinal
CONSTRAINT
    Small
CHECK_DEADLOCK FALSE
"""

# which property an event that no action of OpLife explains speaks about
OPLIFE_TAGS = {'New': 'C01', 'Publish': 'C01', 'Submitted': 'C02', 'QueueFull': 'C03', 'Route': 'C02', 'Update': 'C02',
               'Pending': 'C02', 'Result': 'C02', 'End': 'C02', 'Restart': 'C09', 'Reset': 'C10', 'Drop': 'C06', 'Free': 'C01'}


def engine_suite(tier, seed):
    """Direction B on the real kernel: the repository's own functional tests are
    run with the hooks compiled in (RUSTFLAGS --cfg a10_verif, own target
    directory), the recorded events of every operation (about 1 700 operations,
    15 000 events per run) are validated by TLC against OpLife.tla."""
    import oplife_trace
    from vlib import REPO
    key = 'suite-%s-%s-%d' % (tier, tree_hash(), seed)
    cached = cache_get(key)
    if cached:
        cached['cached'] = True
        return cached
    t0 = time.time()
    res = {'engine': 'suite', 'tier': tier, 'tlc': [], 'replays': [], 'divergences': [], 'errors': [], 'samples': [],
           'cached': False}
    # The contract itself (small instance).
    cfg = write_cfg('oplife_model', OPLIFE_MODEL_CFG)
    r = run_tlc('oplife_model', 'MC_OpLife', cfg, timeout=1200)
    r['purpose'] = 'OpLife contract: MemSafe / DeadIsFinal for two operations (results queue bounded)'
    res['tlc'].append(r)
    if not r['ok']:
        res['errors'].append('TLC %s: %s' % (r['name'], r['violated'] or r['error']))
    target = os.path.join(BUILD, 'suite_target')
    runs = [('functional', 'default', None), ('functional', 'two test threads', '2'), ('signals', 'signals', None)] if tier == 'quick' else \
           [('functional', 'default', None), ('functional', 'one test thread', '1'), ('functional', 'two test threads', '2'), ('functional', 'four', '4'),
            ('functional', 'sixteen', '16'), ('functional', 'two again', '2'), ('signals', 'signals', None)]
    for n, (suite, label, threads) in enumerate(runs):
        tdir = os.path.join(BUILD, 'suite_trace', 'run_%d' % n)
        shutil.rmtree(tdir, ignore_errors=True)
        os.makedirs(tdir)
        env = dict(os.environ, RUSTFLAGS='--cfg a10_verif', CARGO_TARGET_DIR=target, A10_VERIF_TRACE=tdir, CARGO_NET_OFFLINE='true')
        # Build first (no time limit to speak of), then run the tests in their own process group with a
        # short limit: the suite takes about a second, and whatever it leaves behind (its process tests
        # spawn `sleep` children) is removed with the group.
        with open(os.path.join(tdir, 'build.log'), 'w') as log:
            b = subprocess.run(['timeout', '1500', 'cargo', 'test', '--offline', '--test', suite, '--no-run'], cwd=REPO, env=env,
                               stdin=subprocess.DEVNULL, stdout=log, stderr=subprocess.STDOUT)
        if b.returncode != 0:
            res['errors'].append('building the test suite with the hooks failed: %s' % open(os.path.join(tdir, 'build.log'), errors='replace').read()[-300:])
            break
        cmd = ['cargo', 'test', '--offline', '--test', suite]
        if threads:
            cmd += ['--', '--test-threads', threads]
        with open(os.path.join(tdir, 'cargo.log'), 'w') as log:
            proc = subprocess.Popen(cmd, cwd=REPO, env=env, stdin=subprocess.DEVNULL, stdout=log, stderr=subprocess.STDOUT, start_new_session=True)
            try:
                proc.wait(timeout=240)
            except subprocess.TimeoutExpired:
                pass
            try:
                os.killpg(proc.pid, 9)
            except OSError:
                pass
            proc.wait()
            p = proc
        text = open(os.path.join(tdir, 'cargo.log'), errors='replace').read()
        if 'error: could not compile' in text or 'error[E' in text:
            res['errors'].append('building the test suite with the hooks failed: %s' % text[-300:])
            break
        traces = sorted(glob.glob(os.path.join(tdir, 'trace.*.ndjson')))
        if not traces:
            res['errors'].append('the test suite recorded no events (exit %d): %s' % (p.returncode, text[-300:]))
            break
        nd = os.path.join(tdir, 'oplife.ndjson')
        try:
            stats = oplife_trace.convert(traces, nd)
        except SystemExit as e:
            res['errors'].append('trace conversion: %s' % e)
            break
        tv = run_trace_validation('trace_oplife_%d' % n, 'MC_Trace_OpLife', OPLIFE_CFG, nd, timeout=1200)
        tv['traces'] = len(traces)
        tv['events'] = stats['events_out']
        tv['purpose'] = 'real kernel: %s tests (%s), %d operations, %d events; suite exit status %d' % (
            suite, label, stats['operations'], stats['events_out'], p.returncode)
        res['tlc'].append(tv)
        res['replays'].append({'model': 'OpLife/recorded from the functional test suite on the real kernel', 'variant': label,
                               'paths': stats['operations'], 'steps': stats['events_out'], 'diverged_paths': 0 if tv['accepted'] else 1,
                               'suite_exit_status': p.returncode, 'crashes': 0})
        if not tv['accepted']:
            if tv['error']:
                res['errors'].append('trace validation failed to run: %s' % tv['error'])
            else:
                lines = open(nd).read().splitlines()
                if tv.get('violated') in ('TraceInvariants',):
                    k = max(0, min(len(lines), tv.get('depth', 1) - 1) - 1)
                    ev = json.loads(lines[k]) if lines else {}
                    tag, what = ('C01', 'an invariant of OpLife (MemSafe / DeadIsFinal) is violated after event %d %s' % (k, ev))
                else:
                    k = max(0, min(len(lines) - 1, tv.get('distinct', 1) - 1))
                    ev = json.loads(lines[k]) if lines else {}
                    tag = OPLIFE_TAGS.get(ev.get('ev'), 'C02')
                    what = 'event %d %s of the recorded execution is not a step of OpLife' % (k, ev)
                history = [json.loads(l) for l in lines[:k + 1] if json.loads(l).get('i') == ev.get('i')][-12:]
                keep = os.path.join(BUILD, 'replay_files', 'suite_trace_%d.ndjson' % n)
                os.makedirs(os.path.dirname(keep), exist_ok=True)
                shutil.copy(nd, keep)
                res['divergences'].append({'tag': tag, 'model': 'OpLife', 'path': n, 'step': k, 'field': what, 'expected': 'a behaviour of OpLife',
                                           'observed': history, 'trace_file': keep})
        if n == 0:
            res['samples'].append({'model': 'OpLife', 'first_events': [json.loads(l) for l in open(nd).read().splitlines()[:12]]})
        # The queues of every ring (per-ring projection of SubmitMT / CqSteps).
        qd = os.path.join(tdir, 'queues.ndjson')
        try:
            qstats = oplife_trace.convert_queues(traces, qd)
        except SystemExit as e:
            res['errors'].append('queue trace conversion: %s' % e)
            break
        qv = run_trace_validation('trace_queuelife_%d' % n, 'Trace_QueueLife', QUEUELIFE_CFG, qd, timeout=1200)
        qv['traces'] = len(traces)
        qv['events'] = qstats['events_out']
        qv['purpose'] = 'real kernel: submission / completion queue positions of %d rings, %d events (%s)' % (qstats['rings'], qstats['events_out'], label)
        res['tlc'].append(qv)
        res['replays'].append({'model': 'QueueLife/recorded from the functional test suite on the real kernel', 'variant': label,
                               'paths': qstats['rings'], 'steps': qstats['events_out'], 'diverged_paths': 0 if qv['accepted'] else 1, 'crashes': 0})
        if not qv['accepted']:
            if qv['error']:
                res['errors'].append('queue trace validation failed to run: %s' % qv['error'])
            else:
                lines = open(qd).read().splitlines()
                k = max(0, min(len(lines) - 1, qv.get('distinct', 1) - 1))
                ev = json.loads(lines[k]) if lines else {}
                history = [json.loads(l) for l in lines[:k + 1] if json.loads(l).get('r') == ev.get('r')][-12:]
                keep = os.path.join(BUILD, 'replay_files', 'suite_queues_%d.ndjson' % n)
                os.makedirs(os.path.dirname(keep), exist_ok=True)
                shutil.copy(qd, keep)
                res['divergences'].append({'tag': 'C04' if ev.get('ev') == 'SqAdd' else 'C05', 'model': 'QueueLife', 'path': n, 'step': k,
                                           'field': 'event %d %s of the recorded execution is not a step of QueueLife' % (k, ev),
                                           'expected': 'a behaviour of QueueLife', 'observed': history, 'trace_file': keep})
    res['wall_s'] = round(time.time() - t0, 1)
    res['divergences_total'] = len(res['divergences'])
    if not res['errors']:
        cache_put(key, res)
    return res


POOLMT_CFG = """SPECIFICATION Spec
CONSTANTS
    Bufs = %(bufs)s
    Threads = %(threads)s
    W = %(w)d
    Start = %(start)d
    MaxTakes = %(takes)d
    Dev = %(dev)s
INVARIANTS
    Exclusive
    NoOverrun
    Conserved
    GhostAgrees
    GhostTakeSafe
    GhostConserved
CHECK_DEADLOCK FALSE
"""


def engine_pool(tier, seed):
    """C08 at thread level: PoolMT.tla (buffers given back on several threads while
    the kernel selects at any time, every wrap position of a small counter) and
    the real ReadBufPool under the baton scheduler."""
    key = 'pool-%s-%s-%d' % (tier, tree_hash(), seed)
    cached = cache_get(key)
    if cached:
        cached['cached'] = True
        return cached
    t0 = time.time()
    res = {'engine': 'pool', 'tier': tier, 'tlc': [], 'replays': [], 'divergences': [], 'errors': [], 'samples': [],
           'cached': False}
    bindir = build_harness()
    binary = os.path.join(bindir, 'sched_pool')
    models = [dict(bufs='{1, 2}', threads='{1, 2}', w=8, start=s, takes=3) for s in (0, 5, 6, 7)]
    models += [dict(bufs='{1, 2, 3, 4}', threads='{1, 2}', w=8, start=4, takes=3)]
    if tier == 'thorough':
        models += [dict(bufs='{1, 2}', threads='{1, 2, 3}', w=8, start=s, takes=4) for s in range(8)]
        models += [dict(bufs='{1, 2, 3, 4}', threads='{1, 2, 3}', w=16, start=12, takes=4)]
    for i, m in enumerate(models):
        cfg = write_cfg('poolmt_%d' % i, POOLMT_CFG % dict(m, dev='{}'))
        r = run_tlc('poolmt_%d' % i, 'MC_PoolMT', cfg, timeout=1800)
        r['purpose'] = 'contract: %s' % m
        res['tlc'].append(r)
        if not r['ok']:
            res['errors'].append('TLC %s: %s' % (r['name'], r['violated'] or r['error']))
    cfg = write_cfg('poolmt_dev', POOLMT_CFG % dict(models[0], dev='{"ClobberTail"}'))
    r = run_tlc('poolmt_dev', 'MC_PoolMT', cfg, timeout=600)
    r['purpose'] = 'sanity: deviation ClobberTail (the code before the fix) must violate an invariant'
    if not r['violated']:
        res['errors'].append('PoolMT: the ClobberTail deviation no longer violates any invariant (vacuous model?)')
    r['ok'] = True
    res['tlc'].append(r)
    runs = [dict(bufs=2, takes=3, rounds=0, pre=2, maxexec=1200), dict(bufs=2, takes=3, rounds=1, pre=1, maxexec=500),
            dict(bufs=4, takes=2, rounds=0, pre=1, maxexec=400)]
    if tier == 'thorough':
        runs = [dict(bufs=2, takes=3, rounds=0, pre=2, maxexec=8000), dict(bufs=2, takes=3, rounds=1, pre=2, maxexec=5000),
                dict(bufs=4, takes=3, rounds=0, pre=1, maxexec=4000), dict(bufs=2, takes=2, rounds=3, pre=1, maxexec=2000)]
    for i, rn in enumerate(runs):
        outdir = os.path.join(BUILD, 'replay', 'pool_%d' % i)
        args = ['--bufs', str(rn['bufs']), '--takes', str(rn['takes']), '--rounds', str(rn['rounds']), '--preemptions', str(rn['pre']),
                '--max-exec', str(rn['maxexec'])]
        rc, recs, summary, err = sched_run(binary, args, outdir, 'C08', 'PoolMT')
        if summary is None:
            res['errors'].append('sched_pool run %d died (rc %s): %s' % (i, rc, err))
            continue
        res['divergences'] += recs
        res['replays'].append({'model': 'PoolMT/real ReadBufPool under the baton scheduler', 'variant': json.dumps(rn), 'paths': summary['paths'],
                               'steps': summary['steps'], 'diverged_paths': summary['diverged_paths'],
                               'schedule_space_exhausted': summary.get('complete'), 'crashes': 0})
    res['wall_s'] = round(time.time() - t0, 1)
    res['divergences_total'] = len(res['divergences'])
    if not res['errors']:
        cache_put(key, res)
    return res


def engine_posix(tier, seed):
    """C13, differential half: the cases of Abi.tla executed on the real kernel
    through a10 and through the synchronous system call, on identical fixtures."""
    key = 'posix-%s-%s-%d' % (tier, tree_hash(), seed)
    cached = cache_get(key)
    if cached:
        cached['cached'] = True
        return cached
    abi = engine_abi(tier, seed)      # enumerates (and caches) the cases
    t0 = time.time()
    res = {'engine': 'posix', 'tier': tier, 'tlc': [], 'replays': [], 'divergences': [], 'errors': list(abi['errors']), 'samples': [],
           'cached': False}
    cases = os.path.join(BUILD, 'replay', 'abi', 'cases.jsonl')
    if not os.path.exists(cases):
        res['errors'].append('posix: the Abi cases have not been enumerated')
        return res
    n = sum(1 for _ in open(cases))
    bindir = build_harness()
    outdir = os.path.join(BUILD, 'replay', 'posix')
    os.makedirs(outdir, exist_ok=True)
    out = os.path.join(outdir, 'out.jsonl')
    rounds = 1 if tier == 'quick' else 3
    total = 0
    for rnd in range(rounds):
        p = subprocess.run(['timeout', '900', os.path.join(bindir, 'replay_posix'), '--cases', cases, '--out', out], stdin=subprocess.DEVNULL,
                           stdout=subprocess.DEVNULL, stderr=subprocess.PIPE)
        summary = None
        recs = []
        if os.path.exists(out):
            for line in open(out):
                try:
                    j = json.loads(line)
                except ValueError:
                    continue
                if j.get('summary'):
                    summary = j
                else:
                    j['tag'] = 'C13'
                    j['model'] = 'Abi/posix'
                    recs.append(j)
        if summary is None:
            res['errors'].append('replay_posix died (rc %s): %s' % (p.returncode, (p.stderr or b'').decode(errors='replace')[-300:]))
            break
        total += summary['paths']
        res['divergences'] += recs
        res['replays'].append({'model': 'Abi/differential against the system calls on the real kernel', 'variant': 'round %d' % rnd, 'paths': summary['paths'],
                               'steps': summary['steps'], 'diverged_paths': summary['diverged_paths'], 'crashes': 0})
        if recs:
            break
    res['wall_s'] = round(time.time() - t0, 1)
    res['divergences_total'] = len(res['divergences'])
    if not res['errors']:
        cache_put(key, res)
    return res


PARKMT_CFG = """SPECIFICATION %(spec)s
CONSTANTS
    Futures = %(futures)s
    SQN = %(sqn)d
    MaxPolls = %(polls)d
INVARIANTS
    NoLostWaker
%(props)s
CHECK_DEADLOCK FALSE
"""


def engine_park(tier, seed):
    """C03 at thread level (submission-slot part): ParkMT.tla (parking futures
    against wake_blocked_futures, safety and liveness) and the real code under
    the baton scheduler."""
    key = 'park-%s-%s-%d' % (tier, tree_hash(), seed)
    cached = cache_get(key)
    if cached:
        cached['cached'] = True
        return cached
    t0 = time.time()
    res = {'engine': 'park', 'tier': tier, 'tlc': [], 'replays': [], 'divergences': [], 'errors': [], 'samples': [],
           'cached': False}
    bindir = build_harness()
    binary = os.path.join(bindir, 'sched_park')
    models = [dict(futures='{1, 2}', sqn=1, polls=0), dict(futures='{1, 2, 3}', sqn=1, polls=0), dict(futures='{1, 2, 3}', sqn=2, polls=0),
              dict(futures='{1, 2, 3}', sqn=1, polls=4)]
    if tier == 'thorough':
        models += [dict(futures='{1, 2, 3, 4}', sqn=2, polls=0), dict(futures='{1, 2, 3, 4}', sqn=1, polls=5)]
    for i, m in enumerate(models):
        live = m['polls'] == 0
        cfg = write_cfg('parkmt_%d' % i, PARKMT_CFG % dict(m, spec='FairSpec' if live else 'Spec', props='PROPERTIES\n    AllSubmit' if live else ''))
        r = run_tlc('parkmt_%d' % i, 'MC_ParkMT', cfg, timeout=1800)
        r['purpose'] = 'contract (%s): %s' % ('NoLostWaker + every future eventually submits, under weak fairness' if live else 'NoLostWaker', m)
        res['tlc'].append(r)
        if not r['ok']:
            res['errors'].append('TLC %s: %s' % (r['name'], r['violated'] or r['error']))
    runs = [dict(futures=2, sqn=1, polls=2, pre=2, maxexec=100000), dict(futures=2, sqn=2, polls=2, pre=2, maxexec=30000),
            dict(futures=3, sqn=1, polls=3, pre=1, maxexec=800)]
    if tier == 'thorough':
        runs = [dict(futures=2, sqn=1, polls=3, pre=3, maxexec=400000), dict(futures=2, sqn=2, polls=2, pre=3, maxexec=200000),
                dict(futures=3, sqn=1, polls=3, pre=1, maxexec=3000), dict(futures=3, sqn=2, polls=2, pre=1, maxexec=3000)]
    for i, rn in enumerate(runs):
        outdir = os.path.join(BUILD, 'replay', 'park_%d' % i)
        args = ['--futures', str(rn['futures']), '--sqn', str(rn['sqn']), '--polls', str(rn['polls']), '--preemptions', str(rn['pre']),
                '--max-exec', str(rn['maxexec'])]
        rc, recs, summary, err = sched_run(binary, args, outdir, 'C03', 'ParkMT')
        if summary is None:
            res['errors'].append('sched_park run %d died (rc %s): %s' % (i, rc, err))
            continue
        res['divergences'] += recs
        res['replays'].append({'model': 'ParkMT/real futures and Ring::poll under the baton scheduler', 'variant': json.dumps(rn), 'paths': summary['paths'],
                               'steps': summary['steps'], 'diverged_paths': summary['diverged_paths'],
                               'schedule_space_exhausted': summary.get('complete'), 'crashes': 0})
    res['wall_s'] = round(time.time() - t0, 1)
    res['divergences_total'] = len(res['divergences'])
    if not res['errors']:
        cache_put(key, res)
    return res


OPWAKEMT_CFG = """SPECIFICATION Spec
CONSTANTS
    MaxPolls = %(polls)d
    Results = %(results)d
    Multi = %(multi)s
INVARIANTS
    NoLostWake
    NewestStored
CHECK_DEADLOCK FALSE
"""


def engine_opwake(tier, seed):
    """C03, completion part, future and Ring on different threads: OpWakeMT.tla and
    the real code under the baton scheduler (polls with fresh wakers against
    Ring::poll processing the operation's completions)."""
    key = 'opwake-%s-%s-%d' % (tier, tree_hash(), seed)
    cached = cache_get(key)
    if cached:
        cached['cached'] = True
        return cached
    t0 = time.time()
    res = {'engine': 'opwake', 'tier': tier, 'tlc': [], 'replays': [], 'divergences': [], 'errors': [], 'samples': [],
           'cached': False}
    bindir = build_harness()
    binary = os.path.join(bindir, 'sched_opwake')
    for i, m in enumerate([dict(polls=4, results=1, multi='FALSE'), dict(polls=5, results=3, multi='TRUE')]):
        cfg = write_cfg('opwakemt_%d' % i, OPWAKEMT_CFG % m)
        r = run_tlc('opwakemt_%d' % i, 'MC_OpWakeMT', cfg, timeout=600)
        r['purpose'] = 'contract: %s' % m
        res['tlc'].append(r)
        if not r['ok']:
            res['errors'].append('TLC %s: %s' % (r['name'], r['violated'] or r['error']))
    runs = [dict(kind='single', polls=3, results=1, pre=2), dict(kind='multi', polls=4, results=2, pre=2), dict(kind='multi', polls=5, results=3, pre=2)]
    if tier == 'thorough':
        runs = [dict(kind='single', polls=4, results=1, pre=3), dict(kind='multi', polls=5, results=3, pre=3), dict(kind='multi', polls=6, results=4, pre=2)]
    for i, rn in enumerate(runs):
        outdir = os.path.join(BUILD, 'replay', 'opwake_%d' % i)
        args = ['--kind', rn['kind'], '--polls', str(rn['polls']), '--results', str(rn['results']), '--preemptions', str(rn['pre']),
                '--max-exec', '300000']
        rc, recs, summary, err = sched_run(binary, args, outdir, 'C03', 'OpWakeMT')
        if summary is None:
            res['errors'].append('sched_opwake run %d died (rc %s): %s' % (i, rc, err))
            continue
        for rec in recs:
            if str(rec.get('field', '')).startswith('results handed'):
                rec['tag'] = 'C02'
        res['divergences'] += recs
        res['replays'].append({'model': 'OpWakeMT/real future and Ring::poll on two threads under the baton scheduler', 'variant': json.dumps(rn),
                               'paths': summary['paths'], 'steps': summary['steps'], 'diverged_paths': summary['diverged_paths'],
                               'schedule_space_exhausted': summary.get('complete'), 'crashes': 0})
    res['wall_s'] = round(time.time() - t0, 1)
    res['divergences_total'] = len(res['divergences'])
    if not res['errors']:
        cache_put(key, res)
    return res


def run_apalache(name, module, args, expect_error=False, timeout=900):
    """One apalache-mc run in its own scratch directory under build/.  Returns a
    record shaped like a TLC run summary."""
    wd = os.path.join(BUILD, 'apalache', name)
    shutil.rmtree(wd, ignore_errors=True)
    os.makedirs(wd)
    shutil.copy(os.path.join(SPEC, module + '.tla'), wd)
    t0 = time.time()
    try:
        p = subprocess.run(['timeout', str(timeout), 'apalache-mc', 'check', '--out-dir=' + os.path.join(wd, 'out')] + args + [module + '.tla'],
                           cwd=wd, stdout=subprocess.PIPE, stderr=subprocess.STDOUT, stdin=subprocess.DEVNULL, text=True)
        out, rc = p.stdout, p.returncode
    except OSError as e:
        out, rc = str(e), 127
    no_error = 'The outcome is: NoError' in out
    found = 'The outcome is: Error' in out and 'invariant' in out and 'violated' in out
    ok = found if expect_error else no_error
    rec = {'name': name, 'module': module, 'tool': 'apalache', 'args': ' '.join(args), 'generated': 0, 'distinct': 0, 'depth': 1,
           'wall_s': round(time.time() - t0, 1), 'ok': ok, 'violated': None if ok else 'unexpected outcome', 'error': None if ok else out[-600:]}
    shutil.rmtree(os.path.join(wd, 'out'), ignore_errors=True)
    return rec


IND_RUNS = {
    # module: (inductive invariant, contract Next, [(deviation Next, what it is)], [(probe invariant, meaning)])
    'SqInd': ('Safety', 'Next', [('NextOffByOne', 'locked fullness check off by one (the code before fix 29a478a)'),
                                 ('NextStaleTail', 'locked fullness check against the tail loaded before the lock was taken')],
              ['NoWriter']),
    'CqInd': ('IndInv', 'Next', [('NextNonModular', 'non-modular head/tail comparison (the code before fix e64d60c)')],
              ['NoRead']),
    'PoolInd': ('IndInv', 'Next', [('NextClobber', 'filling ring entry 0 overwrites the tail (the code before fix ffe685c); TakeSafe fails', 'TakeSafe')],
                ['NoRace']),
}


def engine_ind(module, tag):
    """Unbounded counter arithmetic (W = 2^32, every legal queue size, any run
    length): the inductive invariant of SqInd.tla / CqInd.tla discharged by
    Apalache.  Base case, inductive step, and two sanity runs: the invariant is
    not inductive for the named deviation, and the inductive step is not vacuous
    (a state in which a slot is written / read satisfies the invariant)."""
    from concurrent.futures import ThreadPoolExecutor
    name = module.lower()
    key = '%s-%s' % (name, tree_hash())
    cached = cache_get(key)
    if cached:
        cached['cached'] = True
        return cached
    t0 = time.time()
    res = {'engine': name, 'tier': 'any', 'tlc': [], 'replays': [], 'divergences': [], 'errors': [], 'samples': [], 'cached': False}
    inv, nxt, devs, probes = IND_RUNS[module]
    jobs = [('base', ['--cinit=ConstInit', '--init=Init', '--inv=IndInv', '--length=0'], False,
             'base case: Init => IndInv (W = 2^32, all queue sizes)'),
            ('step', ['--cinit=ConstInit', '--init=IndInit', '--next=' + nxt, '--inv=' + inv, '--length=1'], False,
             'inductive step: IndInv /\\ Next => IndInv\' (W = 2^32, all queue sizes)')]
    for dv in devs:
        d, what = dv[0], dv[1]
        jobs.append(('dev_' + d, ['--cinit=ConstInit', '--init=IndInit', '--next=' + d, '--inv=' + (dv[2] if len(dv) > 2 else inv), '--length=1'], True,
                     'sanity: the invariant is NOT inductive for the deviation: ' + what))
    for pr in probes:
        jobs.append(('probe_' + pr, ['--cinit=ConstInit', '--init=IndInit', '--next=' + nxt, '--inv=' + pr, '--length=0'], True,
                     'sanity (vacuity): a state accessing a slot satisfies IndInv, i.e. %s is violated from IndInit' % pr))
    with ThreadPoolExecutor(max_workers=4) as ex:
        futs = [(j, ex.submit(run_apalache, '%s_%s' % (name, j[0]), module, j[1], j[2])) for j in jobs]
        for j, f in futs:
            r = f.result()
            r['purpose'] = j[3]
            res['tlc'].append(r)
            if not r['ok']:
                res['errors'].append('Apalache %s: %s' % (r['name'], (r['error'] or '')[-300:]))
    res['samples'].append({'what': '%s: inductive invariant holds for W = 2^32 and every power-of-two queue size (Apalache, %d runs)' % (module, len(jobs))})
    res['wall_s'] = round(time.time() - t0, 1)
    res['divergences_total'] = 0
    if not res['errors']:
        cache_put(key, res)
    return res


def engine_sqind(tier, seed):
    return engine_ind('SqInd', 'C04')


def engine_cqind(tier, seed):
    return engine_ind('CqInd', 'C05')


def engine_poolind(tier, seed):
    return engine_ind('PoolInd', 'C08')

#!/usr/bin/env python3
"""Regenerate MANIFEST.json from the table below (kept in one place so it stays valid)."""
import json, os, subprocess
V = os.path.dirname(os.path.dirname(os.path.abspath(__file__)))
props = [json.loads(l) for l in open(os.path.join(V, 'properties.jsonl'))]
hooks_commits = subprocess.run(['git', '-C', '/repo', 'log', '--format=%h %s'], stdout=subprocess.PIPE, text=True).stdout.splitlines()
hook_commits = [l.split()[0] for l in hooks_commits if 'verif hooks' in l]

RING_NOTE = ('Trusted: TLC; the simulated kernel and ABI decoder in harness/src (transcribed from the io_uring ABI); '
             'the projection of implementation state (hook events, allocator, shared ring memory) compared after every action. '
             'Bounds: the TLC configurations named in the evidence (2-3 operations, queues of 1-4 entries); single-threaded histories.')

CLAIMS = {
 'C01': dict(text='Ring.tla states when the kernel may access an operation (entry published until final completion) and the invariant MemSafe/RoutedOK; TLC checks it exhaustively on small configurations, and every transition of the exported graph is replayed through the real crate on a simulated kernel whose in-flight requests pin their memory regions in a tracking allocator (a free of pinned memory or a dangling pointer at consume/complete time is a divergence).', ref='6 C01', technique='TLA+/TLC model checking + exhaustive transition replay against the implementation (simulated kernel, pinning allocator)'),
 'C02': dict(text='Ring.tla models routing by user_data, single-slot vs FIFO result containers, two-step completions; TLC checks DeliveredOK/DeliveredFinal/MultiPrefix; the replay scripts globally unique result values in the simulated kernel and compares what every Future::poll / poll_next returns with the specification after each action, for every transition of the model.', ref='6 C02', technique='TLA+/TLC model checking + exhaustive transition replay against the implementation'),
 'C03': dict(text='Ring.tla models the stored waker, its replacement on re-poll, the parked-futures list and wake_blocked_futures; TLC checks NoLostWake/NoParkedBlock on the contract; the replay uses counting wakers with identities and requires every waker the specification wakes in an action to have been invoked by the implementation in that action (single-threaded histories; two-thread schedules are not covered yet).', ref='6 C03', technique='TLA+/TLC model checking + exhaustive transition replay with counting wakers'),
 'C06': dict(text='Ring.tla models Drop in every status, the cancel request and both outcomes of the cancel race; TLC checks CancelOnlyDropped/FreedIsFinal/NoLeakAtQuiescence; the replay compares the cancel entries the simulated kernel receives (target = own user_data) and the OpFree events / allocator frees per action, and takes a leak census after tearing the ring down at the end of every behaviour.', ref='6 C06', technique='TLA+/TLC model checking + exhaustive transition replay with allocator census'),
 'C07': dict(text='Ring.tla tracks every descriptor a completion creates (kernel / owned / closing / closed / leaked) for single-shot and multishot accept; TLC checks NoResLeak and CloseOnce on the contract; the replay runs the same behaviours with a regular and with a direct listener, compares the set of descriptors the simulated kernel holds open after every action, the encoding of every CLOSE (fd vs file_index = slot + 1, CQE_SKIP_SUCCESS), the synchronous fallbacks (close(2) / FILES_UPDATE) when the queue is full and the kind of the wrapping AsyncFd.', ref='6 C07', technique='TLA+/TLC model checking + exhaustive transition replay against the kernel descriptor tables'),
 'C08': dict(text='Ring.tla models the buffer ring (order of offered buffer ids), the buffer selected by each completion and its owner; TLC checks BufPartition / AllBuffersBack / NoResLeak on the contract; the replay compares, after every action, the buffer ring as the simulated kernel reads it from shared memory with the model, and checks that every live ReadBuf sits in its own slot with its bytes intact (single-threaded; 2 buffers).', ref='6 C08', technique='TLA+/TLC model checking + exhaustive transition replay against the provided-buffer ring'),
 'C10': dict(text='Composite.tla is the reference state machine of the eight all-or-error operations over a logical byte stream (request the rest, kernel answers any short count, zero ends in WriteZero/UnexpectedEof); TLC checks SuccessMeansAll / Tiled / ZeroMeansZero and enumerates every input shape (1-3 buffers of length 0-2 (quick) or 0-3 (thorough), empty buffers in any position, every target n, positional and current offsets, flags, zero-copy, extract, Vec and pool buffers) x every sequence of short counts; each case is run against the real futures on the simulated kernel, comparing every request (opcode, exact byte range of the caller buffers, file offset, flags, zero-copy, buffer selection) and the final result / returned buffers.  Lengths near u32 range are not covered.', ref='6 C10', technique='TLA+/TLC exhaustive small-scope enumeration of inputs x kernel answers + request-by-request replay', engine='composite'),
 'C12': dict(text='Ring.tla has a DropRing action (flush, cancel-all, drain) that may fire at any point of a history, after which operations and descriptors can still be dropped; TLC checks RingGoneClean; the replay drops the real Ring at that point, requires nothing to be left in flight, and after every behaviour drops the remaining handles and takes a census: allocator (nothing leaked), mmap/munmap balance with exact lengths, ring descriptor closed, descriptors open in the simulated kernel equal to the model.  Orders covered: operations / AsyncFds / ReadBufs before and after the Ring; pool and queue handle after the Ring.', ref='6 C12', technique='TLA+/TLC model checking + exhaustive transition replay with allocator/mmap/fd census'),
 'C14': dict(text='BufLaws.tla states the lawful pointer/length pairs, totals and set_init effect for read-only and writable buffers, arrays/tuples of 1-3 buffers and LimitedBuf with the limit as hi*2^32+lo; TLC checks PairsInside / TotalsAgree / InitExact / LimitRespected on the specification and enumerates every case (capacity and fill 0-2 (quick) or 0-3 (thorough), arity 1-3, every n, limits incl. >= 2^32); each is replayed against every public implementation (Vec, Box<[u8]>, String, Box<str>, Arc<[u8]>, Arc<str>, static slices, StaticBuf, both Cow variants, arrays, homogeneous and mixed tuples, LimitedBuf over each) comparing pointers with the allocation bounds the harness knows.  SkipBuf / ReadNBuf are crate-private and only exercised through C10; arities 4-8 and ReadBuf-as-BufMut are not covered here.', ref='6 C14', technique='TLA+/TLC exhaustive small-scope enumeration of buffer shapes + replay against all concrete buffer types', engine='buflaws'),
 'C15': dict(text='ReadBufEdit.tla gives the reference semantics (sequence operations under a fixed capacity; invalid ranges and over-capacity growth rejected without change; release returns the slot) and TLC enumerates, for every initial fill over a 2-letter alphabet, every sequence of two editing calls drawn from truncate / clear / remove with all nine range forms and all index pairs incl. out-of-bounds / set_len / extend_from_slice / spare_capacity_mut / a second read / release (307 000 behaviours at capacity 3); each is executed on a real ReadBuf filled by the simulated kernel in a 4-slot pool whose other slots hold canaries, comparing contents, length, rejection, the second read request (address = slot + len, length = spare capacity), the canaries and the buffer id that reaches the kernel on release/drop.', ref='6 C15', technique='TLA+/TLC exhaustive small-scope enumeration of edit sequences + replay on a real pool buffer with canaries', engine='readbuf'),
 'C16': dict(text='SockAddr.tla defines, byte for byte, the kernel representation and length of IPv4, IPv6, either-family and Unix (path, abstract, unnamed) addresses, which lengths may lawfully be passed, and what the kernel reports back (path names with the NUL counted, length sun_path+1 for a full path, length 0 for an unbound sender); TLC checks ExactStructure / FitsStorage and enumerates 1 000 addresses (octets {0,1,255}, ports {0,1,65535}, flow/scope {0,1,0x01020304}, names of length 0,1,2,3,15,106,107,108 with and without an interior NUL); each is pushed through into_storage/as_ptr and as_mut_ptr/init of the real implementations and compared.  Real-kernel corroboration: findings/F15_unix_address_read_back.rs.', ref='6 C16', technique='TLA+/TLC enumeration of addresses with a byte-level kernel representation + replay through the conversion functions', engine='sockaddr'),
 'C18': dict(text='Build.tla is the construction step machine (setup, four feature checks, three mappings, file-table registration) with every point at which the kernel can refuse; TLC enumerates the full cross product of 10 configuration settings x 10 failure points (36 480 attempts), checks AllOrNothing / ReleasedOnce / OutcomeByKernel / GrantedSizes and exports every attempt; each is executed as one Config::build on the simulated kernel with that failure injected, comparing the parameter block passed to io_uring_setup, the outcome, the mapping lengths, the number of submissions that fit, and a census of mappings, descriptors and allocations afterwards.', ref='6 C18', technique='TLA+/TLC exhaustive enumeration of configurations x fault points + replay of every case with fault injection', engine='build'),
 'C09': dict(text='Ring.tla models the restart branch (EINTR/ECANCELED on a live operation, incl. first completion of a two-step op and end of a multishot stream); TLC checks NeverSurfaces; the replay injects the errno sequences through the simulated kernel and compares the re-published entries and the value finally returned.', ref='6 C09', technique='TLA+/TLC model checking + exhaustive transition replay with errno injection'),
}

checks = []
for pid, c in CLAIMS.items():
    checks.append({
        'property_id': pid,
        'quick_cmd': './check %s --tier quick' % pid,
        'thorough_cmd': './check %s --tier thorough' % pid,
        'evidence_file': 'evidence/%s.json' % pid,
        'replay_cmd_template': './check %s --replay {path}' % pid,
        'engine': c.get('engine', 'ring'),
        'level_claimed': {'category': 'model_checking', 'text': c['text'], 'design_ref': 'DESIGN.md section ' + c['ref']},
        'level_note': RING_NOTE,
        'technique': c['technique'],
    })
na = [{'property_id': p['id'], 'reason': 'check not built yet (framework under construction this round); it will be claimed once its TLA+ model and conformance harness exist'}
      for p in props if p['id'] not in CLAIMS]
m = {
 'version': 1,
 'setup_cmd': 'cd harness && cargo build --offline && cd ../spec && for m in *.tla; do tla-sany $m > /dev/null || exit 1; done',
 'hooks': {'guard': 'a10_verif',
           'enable': 'RUSTFLAGS=--cfg a10_verif, set in harness/.cargo/config.toml (the harness has a path dependency on /repo)',
           'baseline_off_cmd': 'cd /repo && cargo test --workspace --no-fail-fast --offline',
           'source_commits': hook_commits, 'add_only': True},
 'engines': [{'name': 'sockaddr', 'path': 'tools/engines.py:engine_sockaddr', 'serves_properties': ['C16'],
              'kind_free_text': 'TLC on spec/SockAddr.tla enumerates addresses; harness/src/bin/replay_sockaddr.rs runs the conversion functions'},
             {'name': 'buflaws', 'path': 'tools/engines.py:engine_buflaws', 'serves_properties': ['C14'],
              'kind_free_text': 'TLC on spec/BufLaws.tla enumerates buffer shapes and limits; harness/src/bin/replay_buflaws.rs checks every concrete type'},
             {'name': 'readbuf', 'path': 'tools/engines.py:engine_readbuf', 'serves_properties': ['C15'],
              'kind_free_text': 'TLC on spec/ReadBufEdit.tla enumerates edit sequences; harness/src/bin/replay_readbuf.rs runs them on a real pool buffer'},
             {'name': 'composite', 'path': 'tools/engines.py:engine_composite', 'serves_properties': ['C10'],
              'kind_free_text': 'TLC on spec/Composite.tla enumerates inputs x short-transfer sequences; harness/src/bin/replay_composite.rs checks every request'},
             {'name': 'build', 'path': 'tools/engines.py:engine_build', 'serves_properties': ['C18'],
              'kind_free_text': 'TLC on spec/Build.tla enumerates configurations x fault points; harness/src/bin/replay_build.rs runs every case'},
             {'name': 'ring', 'path': 'tools/engines.py:engine_ring', 'serves_properties': sorted(p for p in CLAIMS if CLAIMS[p].get('engine', 'ring') == 'ring'),
              'kind_free_text': 'TLC on spec/Ring.tla (contract invariants + labelled graph export), covering paths replayed by harness/src/bin/replay_ring.rs against a10 on the simulated kernel'}],
 'checks': checks,
 'notes': 'See DESIGN.md. Known findings / fixed defects: KNOWN_FINDINGS.txt.',
 'not_applicable': na,
}
json.dump(m, open(os.path.join(V, 'MANIFEST.json'), 'w'), indent=1)
print('checks', len(checks), 'not_applicable', len(na))

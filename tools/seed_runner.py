#!/usr/bin/env python3
"""Run checks against a seeded change in an isolated copy (scratch worktree of
/repo + copy of /verif), so /repo and /verif/build stay untouched.

usage: seed_runner.py <name> <patch.diff> <prop> [<prop> ...]
Writes /verif/build/seed_results/<name>.json and prints a summary line per check.
"""
import json, os, shutil, subprocess, sys, time

def sh(cmd, **kw):
    return subprocess.run(cmd, shell=True, stdout=subprocess.PIPE, stderr=subprocess.STDOUT, text=True,
                          stdin=subprocess.DEVNULL, **kw)

def main():
    name, patch, props = sys.argv[1], os.path.abspath(sys.argv[2]), sys.argv[3:]
    base = '/var/tmp/verif-seed-%s-%d' % (name.replace('/', '_'), os.getpid())
    repo = os.path.join(base, 'repo')
    verif = os.path.join(base, 'verif')
    os.makedirs(base)
    out = {'name': name, 'patch': patch, 'results': {}}
    try:
        r = sh('git -C /repo worktree add -q --detach %s HEAD' % repo)
        if r.returncode != 0:
            sys.exit('worktree: ' + r.stdout)
        r = sh('git -C %s apply --3way %s || git -C %s apply %s' % (repo, patch, repo, patch))
        if r.returncode != 0:
            out['error'] = 'patch does not apply: ' + r.stdout[-500:]
            print(out['error'])
            return out
        # The committed state of /verif (not the working tree, which may be mid-edit).
        os.makedirs(verif)
        r = sh('git -C /verif archive HEAD | tar -x -C %s' % verif)
        if r.returncode != 0:
            sys.exit('archive: ' + r.stdout)
        cargo = open(os.path.join(verif, 'harness', 'Cargo.toml')).read().replace('path = "/repo"', 'path = "%s"' % repo)
        open(os.path.join(verif, 'harness', 'Cargo.toml'), 'w').write(cargo)
        env = dict(os.environ, VERIF_REPO=repo)
        for p in props:
            t0 = time.time()
            r = subprocess.run(['./check', p], cwd=verif, env=env, stdout=subprocess.PIPE, stderr=subprocess.STDOUT,
                               text=True, stdin=subprocess.DEVNULL)
            lines = r.stdout.splitlines()
            viol = [l for l in lines if l.startswith('VIOLATION') or l.startswith('TOOL ERROR')]
            detail = [l.strip() for l in lines if l.startswith('  ')]
            out['results'][p] = {'exit': r.returncode, 'first': viol[:1], 'detail': detail[:2], 'wall_s': round(time.time() - t0, 1)}
            print('%s %s exit=%d %s %s' % (name, p, r.returncode, viol[0] if viol else '', detail[0][:200] if detail else ''))
            sys.stdout.flush()
    finally:
        os.makedirs('/verif/build/seed_results', exist_ok=True)
        json.dump(out, open('/verif/build/seed_results/%s.json' % name.replace('/', '_'), 'w'), indent=1)
        sh('git -C /repo worktree remove --force %s' % repo)
        shutil.rmtree(base, ignore_errors=True)
    return out

if __name__ == '__main__':
    main()

#!/usr/bin/env python3
"""Apply a seeded change to /repo, run the given checks, undo the change.

usage: try_seed.py <patch.diff> <prop> [<prop> ...]   (env VERIF_TIER honoured)
Prints one line per check: <prop> exit=<code> <first VIOLATION line if any>.
"""
import os, subprocess, sys

def sh(cmd, **kw):
    return subprocess.run(cmd, shell=True, stdout=subprocess.PIPE, stderr=subprocess.STDOUT, text=True,
                          stdin=subprocess.DEVNULL, **kw)

def main():
    patch = os.path.abspath(sys.argv[1])
    props = sys.argv[2:]
    st = sh('git -C /repo status --porcelain')
    if st.stdout.strip():
        sys.exit('refusing: /repo has uncommitted changes:\n' + st.stdout)
    r = sh('git -C /repo apply --3way %s' % patch)
    if r.returncode != 0:
        r = sh('git -C /repo apply %s' % patch)
        if r.returncode != 0:
            print('patch does not apply:', r.stdout)
            sh('git -C /repo reset -q && git -C /repo checkout -- .')
            sys.exit(3)
    try:
        for p in props:
            r = sh('cd /verif && ./check %s' % p)
            viol = [l for l in r.stdout.splitlines() if l.startswith('VIOLATION') or l.startswith('TOOL ERROR')]
            detail = [l for l in r.stdout.splitlines() if l.startswith('  ')]
            print('%s exit=%d %s' % (p, r.returncode, viol[0] if viol else ''))
            if detail:
                print('   ', detail[0].strip()[:300])
            sys.stdout.flush()
    finally:
        sh('git -C /repo reset -q && git -C /repo checkout -- .')
        st = sh('git -C /repo status --porcelain')
        if st.stdout.strip():
            print('WARNING: /repo not clean after undo:', st.stdout)

if __name__ == '__main__':
    main()

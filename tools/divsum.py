#!/usr/bin/env python3
import json,collections,sys
c=collections.Counter()
ex={}
for l in open(sys.argv[1]):
    r=json.loads(l)
    if r.get('summary'): continue
    key=(r['tag'],r['field'],r['act']['name'] if 'act' in r else '')
    c[key]+=1
    ex.setdefault(key,r)
for k,v in c.most_common(): print(v,k)
n=int(sys.argv[2]) if len(sys.argv)>2 else 6
for k,r in list(ex.items())[:n]:
    print('----',k); print('exp',r['expected'],'obs',r['observed']); print('act',r.get('act')); print([ (a['name'],a['o'],a['w'],a['k'],a['ret']) for a in r['path_acts'][:r['step']+1]])

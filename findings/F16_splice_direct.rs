//! F16 (C13): splice_to with a direct descriptor as `self` failed with EBADF on the
//! real kernel: IOSQE_FIXED_FILE was applied to fd_out (the regular target) and
//! SPLICE_F_FD_IN_FIXED was missing.  Found by the Abi.tla table (72 cases),
//! fixed by /repo commit 1b3c1d1.
//!
//! Run as an integration test of a10: copy to tests/f16_splice_direct.rs and
//! `cargo test --offline --test f16_splice_direct` (fails before the fix on
//! `splice_to_direct_descriptor`, passes after).
use std::future::Future;
use std::io::{Read, Write};
use std::os::fd::AsFd;
use std::pin::Pin;
use std::task::{Context, Poll, Waker};
use std::time::Duration;

fn block_on<F: Future>(ring: &mut a10::Ring, fut: F) -> F::Output {
    let mut fut = Box::pin(fut);
    let mut ctx = Context::from_waker(Waker::noop());
    for _ in 0..200 {
        if let Poll::Ready(out) = Pin::new(&mut fut).poll(&mut ctx) {
            return out;
        }
        ring.poll(Some(Duration::from_millis(50))).expect("poll");
    }
    panic!("operation did not finish");
}

fn run(kind: a10::fd::Kind) -> std::io::Result<Vec<u8>> {
    let mut ring = a10::Ring::config().with_direct_descriptors(8).build()?;
    let sq = ring.sq();
    let path = std::env::temp_dir().join(format!("a10-f16-{:?}-{}", kind, std::process::id()));
    std::fs::write(&path, b"hello splice")?;
    let file = block_on(&mut ring, a10::fs::OpenOptions::new().read().kind(kind).open(sq.clone(), path.clone()))?;
    let (mut r, w) = std::io::pipe()?;
    let n = block_on(&mut ring, file.splice_to(w.as_fd(), 12).from(0))?;
    drop(w);
    let mut got = Vec::new();
    r.read_to_end(&mut got)?;
    let _ = std::fs::remove_file(&path);
    assert_eq!(n, got.len());
    Ok(got)
}

#[test]
fn splice_to_regular_descriptor() {
    assert_eq!(run(a10::fd::Kind::File).expect("splice"), b"hello splice");
}

#[test]
fn splice_to_direct_descriptor() {
    assert_eq!(run(a10::fd::Kind::Direct).expect("splice"), b"hello splice");
}

#[test]
fn splice_from_direct_descriptor() {
    let mut ring = a10::Ring::config().with_direct_descriptors(8).build().unwrap();
    let sq = ring.sq();
    let path = std::env::temp_dir().join(format!("a10-f16-from-{}", std::process::id()));
    let file = block_on(&mut ring, a10::fs::OpenOptions::new().write().create().truncate().kind(a10::fd::Kind::Direct).open(sq.clone(), path.clone())).expect("open");
    let (r, mut w) = std::io::pipe().unwrap();
    w.write_all(b"from the pipe").unwrap();
    let n = block_on(&mut ring, file.splice_from(r.as_fd(), 13).at(0)).expect("splice_from");
    assert_eq!(n, 13);
    assert_eq!(std::fs::read(&path).unwrap(), b"from the pipe");
    let _ = std::fs::remove_file(&path);
}

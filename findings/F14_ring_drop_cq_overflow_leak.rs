//! Dropping a Ring while more completions are pending than fit in the
//! completion queue: are all abandoned operations reclaimed?
use std::future::Future;
use std::pin::Pin;
use std::sync::atomic::{AtomicUsize, Ordering};
use std::task::{Context, Poll, Wake, Waker};
use std::sync::Arc;
use std::time::Duration;

static DROPS: AtomicUsize = AtomicUsize::new(0);

struct CountBuf(Vec<u8>);
impl Drop for CountBuf {
    fn drop(&mut self) { DROPS.fetch_add(1, Ordering::SeqCst); }
}
unsafe impl a10::io::BufMut for CountBuf {
    unsafe fn parts_mut(&mut self) -> (*mut u8, u32) { unsafe { self.0.parts_mut() } }
    unsafe fn set_init(&mut self, n: usize) { unsafe { self.0.set_init(n) } }
    fn spare_capacity(&self) -> u32 { self.0.spare_capacity() }
}
struct Nop;
impl Wake for Nop { fn wake(self: Arc<Self>) {} }

fn run(n: usize) -> usize {
    DROPS.store(0, Ordering::SeqCst);
    let mut ring = a10::Ring::config().with_submission_queue_size(2).with_completion_queue_size(2).build().unwrap();
    let sq = ring.sq();
    let mut fds = [0; 2];
    assert_eq!(unsafe { libc::pipe(fds.as_mut_ptr()) }, 0);
    let rd = unsafe { a10::AsyncFd::from_raw_fd(fds[0], sq.clone()) };
    let waker = Waker::from(Arc::new(Nop));
    let mut ctx = Context::from_waker(&waker);
    {
        let mut futs: Vec<Pin<Box<a10::io::Read<'_, CountBuf>>>> = Vec::new();
        for _ in 0..n {
            let mut f = Box::pin(rd.read(CountBuf(Vec::with_capacity(16))));
            assert!(f.as_mut().poll(&mut ctx).is_pending());
            // submit it (nothing completes: the pipe is empty)
            ring.poll(Some(Duration::ZERO)).unwrap();
            futs.push(f);
        }
        drop(futs); // all in flight -> abandoned
    }
    drop(rd);
    drop(ring);
    drop(sq);
    unsafe { libc::close(fds[1]) };
    DROPS.load(Ordering::SeqCst)
}

#[test]
fn all_abandoned_operations_are_reclaimed_when_the_ring_is_dropped() {
    for n in [1, 2, 3, 6, 10] {
        let dropped = run(n);
        assert_eq!(dropped, n, "{n} reads abandoned, only {dropped} buffers were released after dropping the Ring");
    }
}

//! Unix socket addresses read back from the kernel.
use std::future::Future;
use std::os::fd::{IntoRawFd, FromRawFd, OwnedFd};
use std::os::unix::net::{SocketAddr, UnixListener, UnixStream};
use std::os::linux::net::SocketAddrExt;
use std::pin::pin;
use std::sync::Arc;
use std::task::{Context, Poll, Wake, Waker};

struct Nop;
impl Wake for Nop { fn wake(self: Arc<Self>) {} }

fn block_on<F: Future>(ring: &mut a10::Ring, fut: F) -> F::Output {
    let waker = Waker::from(Arc::new(Nop));
    let mut ctx = Context::from_waker(&waker);
    let mut fut = pin!(fut);
    loop {
        if let Poll::Ready(out) = fut.as_mut().poll(&mut ctx) { return out; }
        ring.poll(Some(std::time::Duration::from_millis(100))).unwrap();
    }
}

#[test]
fn pathname_address_is_read_back() {
    let mut ring = a10::Ring::new().unwrap();
    let path = std::env::temp_dir().join(format!("a10_f15_{}.sock", std::process::id()));
    let _ = std::fs::remove_file(&path);
    let listener = UnixListener::bind(&path).unwrap();
    let fd = unsafe { OwnedFd::from_raw_fd(listener.into_raw_fd()) };
    let afd = a10::AsyncFd::new(fd, ring.sq());
    let addr: SocketAddr = block_on(&mut ring, afd.local_addr()).unwrap();
    let _ = std::fs::remove_file(&path);
    assert_eq!(addr.as_pathname(), Some(path.as_path()), "local_addr of a socket bound to a path: {addr:?}");
}

#[test]
fn abstract_address_is_read_back() {
    let mut ring = a10::Ring::new().unwrap();
    let name = format!("a10_f15_abs_{}", std::process::id());
    let addr = SocketAddr::from_abstract_name(name.as_bytes()).unwrap();
    let listener = UnixListener::bind_addr(&addr).unwrap();
    let fd = unsafe { OwnedFd::from_raw_fd(listener.into_raw_fd()) };
    let afd = a10::AsyncFd::new(fd, ring.sq());
    let got: SocketAddr = block_on(&mut ring, afd.local_addr()).unwrap();
    assert_eq!(got.as_abstract_name(), Some(name.as_bytes()), "local_addr of an abstract socket: {got:?}");
    // And the peer address seen by accept on a connected client.
    let _c = UnixStream::connect_addr(&addr).unwrap();
}

#[test]
fn recv_from_unbound_unix_sender() {
    use std::os::unix::net::UnixDatagram;
    let mut ring = a10::Ring::new().unwrap();
    let path = std::env::temp_dir().join(format!("a10_f15_dg_{}.sock", std::process::id()));
    let _ = std::fs::remove_file(&path);
    let receiver = UnixDatagram::bind(&path).unwrap();
    let sender = UnixDatagram::unbound().unwrap();
    sender.send_to(b"hi", &path).unwrap();
    let fd = unsafe { OwnedFd::from_raw_fd(receiver.into_raw_fd()) };
    let afd = a10::AsyncFd::new(fd, ring.sq());
    let (buf, addr, _): (Vec<u8>, SocketAddr, _) = block_on(&mut ring, afd.recv_from(Vec::with_capacity(8))).unwrap();
    let _ = std::fs::remove_file(&path);
    assert_eq!(buf, b"hi");
    assert!(addr.is_unnamed(), "sender is unbound: {addr:?}");
}
